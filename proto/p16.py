import shim, logging
logging.disable(logging.CRITICAL)
from TotalDepth.LAS.core import LASRead
from TotalDepth.LIS.core import Mnem
from TotalDepth.util.plot import XMLMatches, Plot
las = LASRead.LASRead('/repo/example_data/LAS/data/1000079714.las')
print('has GR str', las.has_output_mnemonic('GR'), 'Mnem', las.has_output_mnemonic(Mnem.Mnem(b'GR')), las.has_output_mnemonic(Mnem.Mnem(b'GR  ')))
try:
    print(XMLMatches.fileCurveMap(las))
except Exception as e:
    print('fileCurveMap EXC', type(e).__name__, e)
p = Plot.PlotReadXML('Porosity_GR_3Track')
outs = p._retOutputChIDs('Porosity_GR_3Track')
print([repr(o) for o in list(outs)[:6]])
