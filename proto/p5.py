import shim, io, random, logging, collections, traceback, time
logging.disable(logging.CRITICAL)
from TotalDepth.util import bin_file_type as B
dat = b"UTIM Unix Time sec\nDATE Date ddmmyy\nTIME Time hhmmss\nWAC Wits Activity Code unitless\nUTIM DATE TIME WAC\n%s 09Dec06 11-50-17 0\n"
for ut in (b'1165665017', b'99999999999999999999999', b'-99999999999999999', b'1e5'):
    try: print(ut, repr(B.binary_file_type(io.BytesIO(dat % ut))))
    except BaseException as e: print(ut, 'EXC', type(e).__name__, e)
rng = random.Random(1)
exc = collections.Counter(); res = collections.Counter(); ex_samples = {}
seeds = [open(p,'rb').read()[:6000] for p in ['/repo/example_data/LIS/data/DILLSON-1_WELL_LOGS_FILE-013.LIS','/repo/example_data/RP66V1/data/BASIC_FILE.dlis','/repo/example_data/BIT/data/29_10-_3Z_dwl_DWL_WIRE_1644659.bit','/repo/example_data/LAS/data/BASIC_FILE_0_50.las','/repo/example_data/DAT/data/example.dat']]
t=time.time(); n=0
while time.time()-t < 60:
    k = rng.random()
    if k < 0.2: by = rng.randbytes(rng.randrange(0, 400))
    else:
        s = bytearray(rng.choice(seeds))
        m = rng.random()
        if m < 0.4: s = s[:rng.randrange(0, len(s))]
        elif m < 0.8:
            for _ in range(rng.randrange(1, 6)):
                if s: s[rng.randrange(min(len(s), 400))] ^= 1 << rng.randrange(8)
        else:
            o = rng.choice(seeds); c = rng.randrange(0, 300); s = s[:c] + o[c:]
        by = bytes(s)
    f = io.BytesIO(by)
    n += 1
    try:
        r = B.binary_file_type(f); res[r]+=1
        if f.tell()!=0: exc['NOT_REWOUND']+=1
    except BaseException as e:
        key = type(e).__name__ + ':' + traceback.extract_tb(e.__traceback__)[-1].name
        exc[key]+=1; ex_samples.setdefault(key, by[:60])
print('n', n, 'results', dict(res)); print('exceptions', dict(exc))
for k,v in ex_samples.items(): print(k, v)
