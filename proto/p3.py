import shim, io, struct, logging, time
logging.disable(logging.CRITICAL)
# Rle
from TotalDepth.common import Rle
for seq in ([5,5],[1,2,4,7,11],[3,3,3,4]):
    r = Rle.create_rle(seq)
    try: print('values', seq, list(r.values()))
    except BaseException as e: print('values EXC', seq, type(e).__name__)
    try: print(' byidx', [r.value(i) for i in range(len(seq))], r.num_values(), r.first(), r.last())
    except BaseException as e: print(' byidx EXC', type(e).__name__, e)
    for q in seq:
        try: r.largest_le(q)
        except BaseException as e: print(' largest_le EXC', q, type(e).__name__)
# from50
from TotalDepth.LIS.core import RepCode, pRepCode, cRepCode
w = (0xFFFF << 16) | 0x4000   # exponent -1, mantissa 0.5 => 0.25
print('from50 exp=-1 mant=.5 ->', pRepCode.from50(w), cRepCode.from50(w), 'expected 0.25')
w = (0x0008 << 16) | 0x4C80
print('from50 153 ->', pRepCode.from50(w))
# XmlWrite control chars
from TotalDepth.util import XmlWrite
import xml.etree.ElementTree as ET
for s in ['a\x01b', 'tab\there', 'nl\nx', '￾', '<&>"\'', 'é€𝄞', '\x7f\x85']:
    f = io.StringIO()
    with XmlWrite.XmlStream(f) as xs:
        with XmlWrite.Element(xs, 'root', {'a': s}):
            xs.characters(s)
    doc = f.getvalue()
    try:
        r = ET.fromstring(doc.encode('utf-8'))
        print(repr(s), 'parsed attr ok', r.get('a') == s, 'text ok', r.text == s)
    except Exception as e:
        print(repr(s), 'UNPARSEABLE', e, repr(doc[-60:]))
# BIT floats
from TotalDepth.BIT import ReadBIT
b = bytes([0x42,0x99,0,0])
print('BIT hdr', ReadBIT.bytes_to_float(b), 'data', list(ReadBIT.gen_floats(b)))
# units
t=time.time()
from TotalDepth.common import units
d = units.read_osdd_static_data()
print('osdd n', len(d), 'load s', time.time()-t)
zs = [k for k,v in d.items() if v.scale == 0]
print('zero scale', zs[:10], 'dims', len({v.dimension for v in d.values()}))
t=time.time()
try:
    units.slb_load_units(); print('slb_load ok', time.time()-t, len(units._slb_units()))
except Exception as e: print('slb_load EXC', type(e).__name__, e, time.time()-t)
