import shim, io, logging, os, re, tempfile
logging.disable(logging.CRITICAL)
from TotalDepth.LAS.core import LASRead
from TotalDepth.util.plot import Plot
from TotalDepth.LIS.core import EngVal
import xml.etree.ElementTree as ET
las = LASRead.LASRead('/repo/example_data/LAS/data/1000079714.las')
print('curves', las.curve_mnemonics(ordered=True)[:12], 'frames', las.number_of_frames(), las.x_axis_start, las.x_axis_stop)
out = tempfile.mkdtemp(dir='/root/scratch')
n=0
for fmt in ('Porosity_GR_3Track', 'Resistivity_3Track_Logrithmic', 'Triple_Combo' ):
    try:
        p = Plot.PlotReadXML(fmt)
    except Exception as e:
        print(fmt, 'ctor EXC', type(e).__name__, e); continue
    has = p.hasDataToPlotLAS(las, fmt)
    fp = os.path.join(out, fmt + '.svg')
    if has:
        r = p.plotLogPassLAS(las, las.x_axis_start, las.x_axis_stop, fmt, fp, frameStep=1, title='t')
        t = ET.parse(fp); root = t.getroot()
        vb = root.get('viewBox'); polys = [e for e in root.iter() if e.tag.endswith('polyline')]
        pts = sum(len(e.get('points').split()) for e in polys)
        print(fmt, 'plotted', r[0][:5] if r and r[0] else r, 'viewBox', vb, 'width', root.get('width'), 'polylines', len(polys), 'points', pts)
        print('   sample points', polys[0].get('points')[:80] if polys else None)
    else:
        print(fmt, 'no data to plot')
import shutil; shutil.rmtree(out)
