import shim, io, struct, logging
logging.disable(logging.CRITICAL)
from TotalDepth.RP66V1.core import File, RepCode
from TotalDepth.RP66V1.core.LogicalRecord import EFLR
# 1. SUL
for seq, mx in [(b'0001', b'08192'), (b'0010', b'08192'), (b'   1', b'16384'), (b'0001', b'04096'), (b'0001', b'00020'), (b'0001',b'10000')]:
    by = seq + b'V1.00' + b'RECORD' + mx + b'X'*60
    try:
        s = File.StorageUnitLabel(by); print('SUL ok', seq, mx, s.storage_unit_sequence_number, s.maximum_record_length)
    except Exception as e:
        print('SUL FAIL', seq, mx, type(e).__name__)
# 2. multi-segment offset/length
def seg(payload, first, last, typ=0, eflr=False):
    attr = (0x80 if eflr else 0) | (0 if first else 0x40) | (0 if last else 0x20)
    assert len(payload) % 2 == 0 and len(payload) >= 12
    return struct.pack('>HBB', len(payload)+4, attr, typ) + payload
p = bytes(range(60))
segs = seg(p[:20], True, False) + seg(p[20:40], False, False) + seg(p[40:60], False, True)
vr = struct.pack('>HH', len(segs)+4, 0xff01) + segs
sul = b'0001V1.00RECORD08192' + b'X'*60
f = io.BytesIO(sul + vr)
from TotalDepth.RP66V1.core import Index
with Index.LogicalRecordIndex(f) as idx:
    print('n records', len(idx), idx[0])
    full = idx.get_file_logical_data(0).logical_data.bytes
    print('full ok', full == p)
    bad = 0
    for off in range(0, 61):
        for ln in list(range(0, 62)) + [-1]:
            got = idx.get_file_logical_data(0, off, ln).logical_data.bytes
            exp = p[off:] if ln < 0 else p[off:off+ln]
            if got != exp:
                bad += 1
                if bad < 6: print('MISMATCH off', off, 'len', ln, 'got', len(got), 'exp', len(exp))
    print('bad slices', bad)
