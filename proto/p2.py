import shim, io, struct, logging
logging.disable(logging.CRITICAL)
from TotalDepth.RP66V1.core import File, RepCode
from TotalDepth.RP66V1.core.LogicalRecord import EFLR
def ident(b): return bytes([len(b)]) + b
def obname(o,c,i): return bytes([o, c]) + ident(i)
SET = bytes([0xF0]) + ident(b'TESTSET')            # set with type only
SETN = bytes([0xF8]) + ident(b'TESTSET') + ident(b'NAME1')
def tattr(label, rc=None, inv=False):
    d = (0x40 if inv else 0x20) | 0x10 | (0x04 if rc is not None else 0)
    b = bytes([d]) + ident(label)
    if rc is not None: b += bytes([rc])
    return b
def tattr_val(label, rc, val, inv=False):
    d = (0x40 if inv else 0x20) | 0x10 | 0x04 | 0x01
    return bytes([d]) + ident(label) + bytes([rc]) + val
OBJ = lambda name: bytes([0x70]) + obname(1,0,name)
def aval(val): return bytes([0x21]) + val     # attribute with value only
ABSENT = bytes([0x00])
def run(title, body):
    try:
        e = EFLR.ExplicitlyFormattedLogicalRecord(5, File.LogicalData(body))
        print(title, '->', e.set.type, e.set.name, 'objects', len(e.objects))
        for o in e.objects:
            print('   ', o.name.I, [ (a.label, a.count, a.rep_code, a.units, a.value) if a is not None else None for a in o.attrs])
    except Exception as ex:
        print(title, 'EXC', type(ex).__name__, ex)
# A: plain
run('plain', SETN + tattr(b'A', 15) + tattr(b'B', 19) + OBJ(b'O1') + aval(bytes([7])) + aval(ident(b'xy')) + OBJ(b'O2') + aval(bytes([8])) + aval(ident(b'zz')))
# B: absent attribute in object
run('absent', SET + tattr(b'A', 15) + tattr(b'B', 19) + OBJ(b'O1') + ABSENT + aval(ident(b'xy')))
# C: trailing omission
run('trailing-omit', SET + tattr_val(b'A', 15, bytes([3])) + tattr_val(b'B', 19, ident(b'dflt')) + OBJ(b'O1') + aval(bytes([9])) + OBJ(b'O2') + aval(bytes([8])) + aval(ident(b'zz')))
# D: all omitted
run('all-omitted', SET + tattr_val(b'A', 15, bytes([3])) + OBJ(b'O1') + OBJ(b'O2') + aval(bytes([8])))
# E: invariant attribute in template (objects do not carry it)
run('invariant', SET + tattr_val(b'A', 15, bytes([3]), inv=True) + tattr(b'B', 19) + OBJ(b'O1') + aval(ident(b'xy')) + OBJ(b'O2') + aval(ident(b'zz')))
# F: zero objects
run('no-objects', SET + tattr(b'A', 15))
# G: object attr overriding count and units
run('override', SET + tattr(b'A', 15) + OBJ(b'O1') + bytes([0x20|0x08|0x02|0x01]) + bytes([2]) + ident(b'm') + bytes([5,6]))
