import shim, io, logging, random
logging.disable(logging.CRITICAL)
import numpy as np
from TotalDepth.RP66V1.core import LogicalFile
from TotalDepth.common import Slice
path='/repo/example_data/RP66V1/data/206_05a-_3_DWL_DWL_WIRE_258276498.DLIS'
rng = random.Random(5)
with LogicalFile.LogicalIndex(path) as li:
    for lf in li.logical_files:
        if not lf.has_log_pass: continue
        for fa in lf.log_pass.frame_arrays:
            n = lf.num_frames(fa)
            lf.populate_frame_array(fa)
            full = [c.array.copy() for c in fa.channels]
            names = [c.ident for c in fa.channels]
            print(fa.ident.I, 'frames', n, 'channels', len(names), [str(a.dtype) for a in full][:5], full[0].shape)
            # index x values
            xs = [r.x_axis for r in lf.iflr_position_map[fa.ident]]
            print('  x index ok', all(xs[i]==full[0][i].mean() for i in range(n)), 'frame numbers', [r.frame_number for r in lf.iflr_position_map[fa.ident]][:4])
            bad=0
            for t in range(25):
                if rng.random()<0.5:
                    a=rng.randrange(-n,n); b=rng.choice([None]+list(range(-n,n+1))); s=rng.choice([None,1,2,3,7,64])
                    sel=Slice.Slice(a,b,s); idxs=list(range(n))[slice(a,b,s)]
                else:
                    k=rng.randrange(1,n+5); sel=Slice.Sample(k); idxs=sel.indices(n)
                if not idxs: continue
                chs = None if rng.random()<0.3 else set(rng.sample(names, rng.randrange(0,len(names))))
                cnt = lf.populate_frame_array(fa, sel, chs)
                for ci,c in enumerate(fa.channels):
                    want = (chs is None) or ci==0 or c.ident in chs
                    if want:
                        if not (len(c.array)==len(idxs) and np.array_equal(c.array, full[ci][idxs])): bad+=1
                    else:
                        if len(c.array)!=0: bad+=1
                if cnt != len(idxs): bad+=1
            print('  partial populate mismatches', bad)
