import shim, io, logging, random, struct
logging.disable(logging.CRITICAL)
import numpy as np
import dl
from TotalDepth.RP66V1.core import LogicalFile, File
from TotalDepth.common import Slice
rng = random.Random(11)
def make(rng, nframes=9, vr_max=120, **opts):
    fh = dl.eflr_set(b'FILE-HEADER', b'', [(b'SEQUENCE-NUMBER', 1, 20, b''), (b'ID', 1, 20, b'')], [((2,0,b'5'), [[b'        41'], [b'MY FILE ID'.ljust(65)]])])
    org = dl.eflr_set(b'ORIGIN', None, [(b'FILE-ID', 1, 20, b''), (b'CREATION-TIME', 1, 21, b''), (b'WELL-NAME', 1, 20, b''), (b'COMPANY', 1, 20, b''), (b'FIELD-NAME', 1, 20, b''), (b'PRODUCER-NAME', 1, 20, b'')],
        [((2,0,b'DLIS_DEFINING_ORIGIN'), [[b'fid'], [(2011,0,8,20,4,38,13,0)], [b'WELL'], [b'COMP'], [b'FLD'], [b'PROD']])])
    chans = [(b'DEPT', 7, [1], b'm'), (b'GR', 2, [1], b'api'), (b'WF', 14, [2,3], b''), (b'ST', 15, [1], b'')]
    ch = dl.eflr_set(b'CHANNEL', b'CH', [(b'LONG-NAME', 1, 20, b''), (b'REPRESENTATION-CODE', 1, 15, b''), (b'UNITS', 1, 27, b''), (b'DIMENSION', 1, 18, b'')],
        [((2,0,n), [[n+b' long'], [rc], [u] if u else None, dims]) for n, rc, dims, u in chans])
    fr = dl.eflr_set(b'FRAME', b'FR', [(b'DESCRIPTION', 1, 20, b''), (b'CHANNELS', 1, 23, b''), (b'INDEX-TYPE', 1, 19, b'')],
        [((2,0,b'FA'), [[b'desc'], [(2,0,n) for n,_,_,_ in chans], [b'BOREHOLE-DEPTH']])])
    recs = [(True, 0, fh), (True, 1, org), (True, 3, ch), (True, 4, fr)]
    model = []
    for f in range(nframes):
        vals = [1000.0 + 0.5*f, float(np.float32(f*1.25)), [f*10+k for k in range(6)], f % 256]
        body = dl.obname(2,0,b'FA') + dl.uvari(f+1) + struct.pack('>d', vals[0]) + struct.pack('>f', vals[1]) + b''.join(struct.pack('>i', x) for x in vals[2]) + bytes([vals[3]])
        recs.append((False, 0, body)); model.append(vals)
        if f == 3: recs.append((False, 0, dl.obname(2,0,b'FA') + dl.uvari(0)))   # empty IFLR
    return dl.physical(recs, rng, vr_max=vr_max, **opts), model
ok = 0
for it in range(60):
    opts = dict(pad=rng.random()<0.3, chk=rng.random()<0.3, trail=rng.random()<0.3)
    by, model = make(rng, nframes=rng.randrange(1,12), vr_max=rng.choice([40, 64, 120, 500, 8192]), **opts)
    try:
        with LogicalFile.LogicalIndex(io.BytesIO(by)) as li:
            lf = li.logical_files[0]
            assert len(li.logical_files) == 1 and lf.has_log_pass
            fa = lf.log_pass.frame_arrays[0]
            n = lf.populate_frame_array(fa)
            assert n == len(model), (n, len(model))
            got = [c.array for c in fa.channels]
            assert [str(a.dtype) for a in got] == ['float64','float32','int32','uint8'], [str(a.dtype) for a in got]
            assert got[2].shape == (n,2,3)
            for f, vals in enumerate(model):
                assert got[0][f][0] == vals[0] and got[1][f][0] == vals[1] and got[2][f].flatten().tolist() == vals[2] and got[3][f][0] == vals[3]
            refs = lf.iflr_position_map[fa.ident]
            assert [r.frame_number for r in refs] == list(range(1, n+1)) and [r.x_axis for r in refs] == [m[0] for m in model]
            ok += 1
    except Exception as e:
        print('FAIL', it, opts, type(e).__name__, str(e)[:200]); break
print('ok', ok)
