import shim, io, logging, random, struct
logging.disable(logging.CRITICAL)
from TotalDepth.LIS.core import File, PhysRec
from TotalDepth import DeTif
class Cap(io.BytesIO):
    def close(self): self.final = self.getvalue()
def encode(lrs, prlen, rec, filenum, chk, tif):
    """independent encoder; returns bytes (checksum bytes zeroed mask) and LR start positions"""
    out = bytearray(); starts = []; mask = []
    tl = (2 if rec else 0) + (2 if filenum is not None else 0) + (2 if chk else 0)
    cap = prlen - 4 - tl
    recno = 0; prev_tif = 0; tifpos = []
    for lr in lrs:
        first = True; ofs = 0
        while ofs < len(lr):
            pay = lr[ofs:ofs+cap]
            attr = (1<<9 if rec else 0) | (1<<10 if filenum is not None else 0) | (1<<12 if chk else 0)
            if ofs + cap < len(lr): attr |= 1
            if ofs > 0: attr |= 2
            pr = struct.pack('>HH', 4+len(pay)+tl, attr) + pay
            if rec: pr += struct.pack('>H', recno & 0xffff); recno += 1
            if filenum is not None: pr += struct.pack('>H', filenum)
            if chk: pr += b'\x00\x00'
            pos = len(out)
            if first: starts.append(pos); first = False
            if tif:
                out += struct.pack('<3L', 0, prev_tif, pos + 12 + len(pr)); prev_tif = pos
            if chk: mask.append((len(out)+len(pr)-2, len(out)+len(pr)))
            out += pr; ofs += len(pay)
    if tif:
        for _ in range(2):
            pos = len(out); out += struct.pack('<3L', 1, prev_tif, pos+12); prev_tif = pos
    return bytes(out), starts, mask
rng = random.Random(7)
nfiles = 0; wbad = 0; rbad = 0; posbad = 0; stripbad = 0; ops = 0
for it in range(3000):
    rec = rng.random()<0.5; filenum = rng.choice([None, 0, 7, 65535]); chk = rng.random()<0.5; tif = rng.random()<0.5
    tl = (2 if rec else 0) + (2 if filenum is not None else 0) + (2 if chk else 0)
    prlen = rng.choice([4+tl+1, 4+tl+2, 16, 31, 64, 200, 1024, 65535]); prlen = max(prlen, 4+tl+1)
    cap = prlen-4-tl
    lrs = [bytes([rng.randrange(256) for _ in range(rng.choice([2,3,cap,cap+1,2*cap,int(2.5*cap)+1, rng.randrange(2, 3*cap+3)]) )]) for _ in range(rng.randrange(2,8))]
    lrs = [l if len(l) < 5000 else l[:5000] for l in lrs]
    c = Cap(); fw = File.FileWrite(c, 'id', hasTif=tif, thePrLen=prlen, thePrt=PhysRec.PhysRecTail(rec, filenum, chk))
    wpos = [fw.write(l) for l in lrs]; fw.close(); got = c.final
    exp, starts, mask = encode(lrs, prlen, rec, filenum, chk, tif)
    g = bytearray(got)
    for a,b in mask: g[a:b] = b'\x00\x00'
    nfiles += 1
    if bytes(g) != exp:
        wbad += 1
        if wbad < 3: print('WRITE MISMATCH', prlen, rec, filenum, chk, tif, len(got), len(exp))
    if wpos != starts: posbad += 1
    if tif:
        o = io.BytesIO(); DeTif.strip_tif(io.BytesIO(got), o)
        c2 = Cap(); fw2 = File.FileWrite(c2, 'id', hasTif=False, thePrLen=prlen, thePrt=PhysRec.PhysRecTail(rec, filenum, chk)); [fw2.write(l) for l in lrs]; fw2.close()
        if o.getvalue() != c2.final: stripbad += 1
    # read history (tolerant cursor automaton)
    fr = File.FileRead(io.BytesIO(got), 'id', keepGoing=False)
    k = 0; o = 0; hist = []
    def fail(msg):
        global rbad
        rbad += 1
        if rbad < 6: print('READ VIOLATION', msg, 'k', k, 'o', o, 'lens', [len(l) for l in lrs], 'prlen', prlen, 'tif', tif, 'hist', hist[-6:])
    for step in range(rng.randrange(20, 120)):
        op = rng.random(); ops += 1
        if op < 0.15:
            k = rng.randrange(len(lrs)); fr.seekLr(starts[k]); o = 0; hist.append(('seek', k)); continue
        n = rng.choice([-1, 0, 1, 2, cap-1, cap, cap+1, 3*cap])
        kind = 'read' if op < 0.6 else 'skip'
        hist.append((kind, n))
        try:
            r = fr.readLrBytes(n) if kind == 'read' else fr.skipLrBytes(n)
        except File.ExceptionFileRead as e:
            if not (k >= len(lrs) or (k == len(lrs)-1 and o == len(lrs[k]))): fail('EOF exception early')
            break
        if k >= len(lrs):
            if not (r is None or r == 0 or r == b''): fail('data after last record')
            break
        end_marker = (r is None) if kind == 'read' else (r == 0 and n != 0)
        if end_marker:
            if o != len(lrs[k]): fail('end marker before record exhausted'); break
            k += 1; o = 0; continue
        cnt = len(r) if kind == 'read' else r
        if o == len(lrs[k]) and cnt > 0:
            k += 1; o = 0
            if k >= len(lrs): fail('data past end'); break
            if fr.tellLr() != starts[k]: fail('tellLr'); break
        if kind == 'read' and r != lrs[k][o:o+cnt]: fail('bytes differ'); break
        if n >= 0 and cnt > n: fail('more than asked'); break
        o += cnt
        if o > len(lrs[k]): fail('overrun'); break
        if n == -1 and o != len(lrs[k]): fail('read-all short'); break
        if n > 0 and cnt < n and o != len(lrs[k]): fail('short read inside record'); break
        tl_ok = fr.tellLr() == starts[k] or (o == len(lrs[k]) and k+1 < len(lrs) and fr.tellLr() == starts[k+1])
        if not tl_ok: fail('tellLr %r %r' % (fr.tellLr(), starts[k])); break
print('files', nfiles, 'write mismatches', wbad, 'pos mismatches', posbad, 'strip mismatches', stripbad, 'read mismatches', rbad, 'ops', ops)
