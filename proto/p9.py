import shim, os, shutil, tempfile, hashlib, logging
logging.disable(logging.CRITICAL)
import p9mod
from TotalDepth.LAS.core import WriteLAS
from TotalDepth.common import Slice
src = tempfile.mkdtemp(dir='/root/scratch')
for f in os.listdir('/repo/example_data/RP66V1/data'):
    shutil.copy(os.path.join('/repo/example_data/RP66V1/data', f), src)
# damaged + foreign
b = open(os.path.join(src, 'BASIC_FILE.dlis'), 'rb').read()
open(os.path.join(src, 'trunc.dlis'), 'wb').write(b[:700])
bb = bytearray(b); bb[85] ^= 0xff; open(os.path.join(src, 'flip.dlis'), 'wb').write(bytes(bb))
open(os.path.join(src, 'empty.dlis'), 'wb').write(b'')
shutil.copy('/repo/example_data/LAS/data/BASIC_FILE_0_50.las', src)
def tree(d):
    out = {}
    for root, _, fs in os.walk(d):
        for f in fs:
            t = [l for l in open(os.path.join(root, f), errors='replace') if not l.startswith('CREA.')]
            out[os.path.relpath(os.path.join(root, f), d)] = hashlib.sha1(''.join(t).encode()).hexdigest()[:10]
    return out
def norm(res): return {os.path.basename(k): (v.binary_file_type, v.size_input, v.size_output, v.las_count, v.exception, v.ignored) for k, v in res.items()}
outs = {}
for mode in ('seq', 2, 4, 16):
    out = tempfile.mkdtemp(dir='/root/scratch')
    if mode == 'seq':
        r = WriteLAS.convert_dir_or_file_to_las(src, out, False, 'first', Slice.Slice(None,None,16), set(), 16, '.3f', p9mod.wrapped)
    else:
        r = WriteLAS.convert_dir_or_file_to_las_multiprocessing(src, out, False, 'first', Slice.Slice(None,None,16), set(), 16, '.3f', mode, p9mod.wrapped)
    outs[mode] = (norm(r), tree(out))
    print(mode, len(r), 'files out', len(outs[mode][1]))
    shutil.rmtree(out)
base = outs['seq']
for m in outs: print(m, 'results equal', outs[m][0] == base[0], 'tree equal', outs[m][1] == base[1])
for k,v in base[0].items(): print(' ', k, v)
shutil.rmtree(src)
