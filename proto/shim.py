import numpy as np, warnings
warnings.simplefilter('ignore')
if not hasattr(np, 'object'):
    np.object = object
