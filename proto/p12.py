import shim, io, logging, random, struct
logging.disable(logging.CRITICAL)
from TotalDepth.LIS.core import LogiRec, File, LisGen, RepCode
rng = random.Random(3)
def rb(n, printable=True):
    return bytes(rng.choice(b'ABCDEFGHIJKLMNOPQRSTUVWXYZ0123456789 ') for _ in range(n)) if printable else bytes(rng.randrange(256) for _ in range(n))
stats = {'ok':0}
import collections; errs = collections.Counter(); samples = {}
for it in range(1500):
    ncol = rng.randrange(1,6); nrow = rng.randrange(0,8)
    mnems = []
    while len(mnems) < ncol:
        m = rb(4)
        if m not in mnems: mnems.append(m)
    rows = []
    for r in range(nrow):
        row = []
        for c in range(ncol):
            k = rng.random()
            if c == 0: v = rb(4) if rng.random()<0.8 else rng.choice(rows)[0] if rows else rb(4)
            elif k < 0.3: v = rb(rng.randrange(0,20), printable=rng.random()<0.7)
            elif k < 0.6: v = rng.choice([0,1,255,256,-1,-32768,32767,32768,-32769,2**31-1,-2**31, rng.randrange(-2**31,2**31)])
            else: v = rng.choice([0.0, 1.0, -153.0, 1e-10, 1e20, rng.uniform(-1e6,1e6)])
            if c > 0 and rng.random()<0.4: v = (v, rb(4))
            row.append(v)
        rows.append(row)
    name = rb(4)
    try:
        t = LogiRec.LrTableWrite(34, name, mnems, rows)
        by = bytes([34,0]) + b''.join(t.genLisBytes())
    except Exception as e:
        key = 'WRITE ' + type(e).__name__; errs[key]+=1; samples.setdefault(key, (str(e)[:80], rows[:2])); continue
    f = LisGen.retFileFromBytes(bytes(LisGen.retPrS(by, rng.choice([16, 64, 1024, 65000]))), flagKg=False)
    try:
        f.readLrBytes(0) if False else None
        r = LogiRec.LrTableRead(f)
    except Exception as e:
        key = 'READ ' + type(e).__name__; errs[key]+=1; samples.setdefault(key, (str(e)[:80], rows[:2])); continue
    # expected rows: first-kept dedupe on row[0] raw value
    seen=set(); exp=[]
    for row in rows:
        k0 = row[0][0] if isinstance(row[0], tuple) else row[0]
        if k0 in seen: continue
        seen.add(k0); exp.append(row)
    ok = r.value == name and len(r) == len(exp)
    if ok:
        for er, rr in zip(exp, r.genRows()):
            cells = list(rr.genCells())
            if len(cells) != len(er): ok = False; break
            for ci,(ev, cell) in enumerate(zip(er, cells)):
                u = b'    '
                if isinstance(ev, tuple): ev, u = ev
                if cell.mnem != mnems[ci] or cell.units != u: ok=False
                if isinstance(ev, float):
                    if not (isinstance(cell.value, float) and abs(cell.value-ev) <= abs(ev)*2**-22): ok=False
                elif cell.value != ev: ok=False
    if ok: stats['ok']+=1
    else:
        errs['MISMATCH']+=1; samples.setdefault('MISMATCH', (name, r.value, len(r), len(exp), rows[:2]))
print(stats, dict(errs))
for k,v in samples.items(): print(k, v)
