import shim, logging
logging.disable(logging.CRITICAL)
from TotalDepth.LIS.core import LogiRec, LisGen
for rows in ([[b'ROW1', (b'', b'UNIT')]], [[b'ROW1', b'', 5]], [[b'ROW1', b'', b'xy']], [[b'ROW1', b'ab'], [b'ROW2', b'']]):
    t = LogiRec.LrTableWrite(34, b'NAME', [b'MNEM', b'VALU', b'COL3'][:len(rows[0])], rows)
    by = bytes([34,0]) + b''.join(t.genLisBytes())
    f = LisGen.retFileFromBytes(bytes(LisGen.retSinglePr(by)))
    r = LogiRec.LrTableRead(f)
    print(rows, '->', [[(c.mnem, c.value, c.units) for c in row.genCells()] for row in r.genRows()])
