import shim, logging, itertools, collections, math, random, time
logging.disable(logging.CRITICAL)
from fractions import Fraction as Fr
from TotalDepth.common import units
import numpy as np
U = units.read_osdd_static_data()
units.slb_load_units()
bydim = collections.defaultdict(list)
for k,u in U.items(): bydim[u.dimension].append(u)
print('dims', len(bydim), 'max', max(len(v) for v in bydim.values()), 'pairs', sum(len(v)**2 for v in bydim.values()))
odd = [u for u in U.values() if u.scale <= 0 or not math.isfinite(u.scale) or not math.isfinite(u.offset)]
print('odd units', odd[:5], 'empty dim', len(bydim.get('', [])))
eps = 2.0**-52
vals = [0.0, 1.0, -1.0, math.pi, -273.15, 1e-30, 1e30, 12345.678]
worst = 0.0; bad = 0; n = 0; t=time.time()
def exact(v, a, b):
    return (Fr(v) - Fr(a.offset)) * Fr(a.scale) / Fr(b.scale) + Fr(b.offset)
for dim, us in bydim.items():
    for a in us:
        for b in us:
            for v in vals:
                n += 1
                r = units.convert(v, a, b)
                e = exact(v, a, b)
                mag = max(abs(Fr(v)), abs(Fr(a.offset)), abs((Fr(v)-Fr(a.offset))*Fr(a.scale)/Fr(b.scale)), abs(Fr(b.offset)), abs(e))
                if mag == 0: 
                    if r != 0: bad += 1
                    continue
                err = abs(Fr(r) - e) / mag
                w = float(err)/eps
                if w > worst: worst = w; ww = (a.code, b.code, v, r, float(e))
                if w > 4: bad += 1
    if time.time()-t > 150: print('time cut at dim', dim); break
print('n', n, 'bad(>4eps of max intermediate)', bad, 'worst eps multiple', worst, ww)
# cross dimension
ks = list(U.values()); rng = random.Random(1); ret = 0
for _ in range(2000):
    a, b = rng.choice(ks), rng.choice(ks)
    if a.dimension == b.dimension: continue
    try: units.convert(1.0, a, b); ret += 1
    except units.ExceptionUnits: pass
    try:
        units.convert_array(np.array([1.0]), a, b); ret += 1000000
    except units.ExceptionUnits: pass
print('cross-dimension returned (convert + 1e6*convert_array)', ret)
