#include "LISRepCode.h"
#include <cstdio>
#include <cstdint>
#include <cmath>
int main(){
  uint64_t n=0, bad=0;
  for (uint64_t w=0; w< (1ull<<32); w+= 65537) { double v=_from68((uint32_t)w); uint32_t r=_to68(v); double v2=_from68(r); if (v2!=v) bad++; n++; }
  printf("n=%llu bad=%llu\n",(unsigned long long)n,(unsigned long long)bad);
  printf("%08x\n", _to68(-153.0));
  return 0; }
