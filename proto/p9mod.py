import shim, os, time, random, sys
from TotalDepth.RP66V1 import ToLAS as RT
LOG = os.environ.get('P9LOG', '/root/scratch/p9.log')
_installed = False
def _audit(ev, args):
    if ev == 'open' and isinstance(args[0], str) and args[0].endswith('.las') and args[1] and 'w' in str(args[1]):
        os.write(_fd(), f'OPEN {os.getpid()} {args[0]}\n'.encode())
_fdv = None
def _fd():
    global _fdv
    if _fdv is None: _fdv = os.open(LOG, os.O_WRONLY|os.O_APPEND|os.O_CREAT)
    return _fdv
def wrapped(path_in, *a):
    global _installed
    if not _installed:
        sys.addaudithook(_audit); _installed = True
    rnd = random.Random(hash((path_in, os.environ.get('P9SEED','0'))))
    time.sleep(rnd.random()*0.05)
    t0=time.monotonic()
    r = RT.single_rp66v1_file_to_las(path_in, *a)
    os.write(_fd(), f'TASK {os.getpid()} {os.path.basename(path_in)} {t0:.4f} {time.monotonic():.4f} exc={r.exception} ign={r.ignored} n={r.las_count}\n'.encode())
    return r
