import sys, io
sys.path.insert(0, '/root/scratch/deps')
import shim
import atheris
with atheris.instrument_imports():
    from TotalDepth.util import bin_file_type as B
import logging; logging.disable(logging.CRITICAL)
def one(data):
    f = io.BytesIO(data)
    r = B.binary_file_type(f)
    assert isinstance(r, str) and f.tell() == 0
atheris.Setup(sys.argv, one)
atheris.Fuzz()
