import shim, io, logging, random
logging.disable(logging.CRITICAL)
from TotalDepth.LIS.core import LisGen, LogiRec, File, FileIndexer, RepCode
import numpy as np
class Tap(io.BytesIO):
    def __init__(self, b): super().__init__(b); self.log=[]
    def read(self, n=-1):
        p=self.tell(); r=super().read(n); self.log.append((p,len(r))); return r
def build(indirect, frames_per_rec, nch=3, prlen=64):
    ebs = LogiRec.EntryBlockSet()
    ebs.setEntryBlock(LogiRec.EntryBlock(LogiRec.EB_TYPE_FRAME_SPACE, 4, 68, 6.0))
    ebs.setEntryBlock(LogiRec.EntryBlock(LogiRec.EB_TYPE_FRAME_SPACE_UNITS, 4, 65, b'INCH'))
    ebs.setEntryBlock(LogiRec.EntryBlock(LogiRec.EB_TYPE_UP_DOWN_FLAG, 1, 66, 255))
    if indirect:
        ebs.setEntryBlock(LogiRec.EntryBlock(LogiRec.EB_TYPE_RECORD_MODE, 1, 66, 1))
        ebs.setEntryBlock(LogiRec.EntryBlock(LogiRec.EB_TYPE_DEPTH_UNITS, 4, 65, b'INCH'))
        ebs.setEntryBlock(LogiRec.EntryBlock(LogiRec.EB_TYPE_DEPTH_REP_CODE, 1, 66, 68))
    chs = [LisGen.Channel(LisGen.ChannelSpec(b'C%03d' % i, b'ServID', b'ServOrdN', b'FEET', 45310011, 256, 4, 1, 68),
            LisGen.ChValsSaw(fOffs=i, waveLen=17, mid=0.0, amp=100.0*(i+1), numSa=1, noise=None)) for i in range(nch)]
    lp = LisGen.LogPassGen(ebs, chs, xStart=1000.0, xRepCode=68, xNoise=None)
    fh = LisGen.FileHeadTail(b'RUNOne.lis', b'SubLevName', b'Vers num', b'78/03/15', b'1024', b'AB', b'Prev name.')
    ba = bytearray(LisGen.retSinglePr(fh.lrBytesFileHead))
    ba += LisGen.retSinglePr(lp.lrBytesDFSR())
    f = 0; recs=[]
    for n in frames_per_rec:
        start=len(ba); ba += LisGen.retPrS(lp.lrBytes(f, n), prlen); recs.append((start,len(ba),f,f+n)); f += n
    ba += LisGen.retSinglePr(fh.lrBytesFileTail)
    return bytes(ba), recs, f
for indirect in (False, True):
    by, recs, total = build(indirect, [7,7,7,7,3])
    tap = Tap(by)
    fi = File.FileRead(tap, 'id', keepGoing=True)
    idx = FileIndexer.FileIndex(fi)
    lp = list(idx.genLogPasses())[0].logPass
    print('indirect', indirect, 'total', lp.totalFrames, 'first', lp.xAxisFirstVal, 'last', lp.xAxisLastVal)
    lp.setFrameSet(fi, slice(0,total,1), None)
    full = lp.frameSet.frames.copy(); fullx = [lp.frameSet.xAxisValue(i) for i in range(total)]
    bad=0; outside=0; n=0
    rng = random.Random(3)
    for _ in range(300):
        a = rng.randrange(0,total); b = rng.randrange(a+1,total+1); s = rng.randrange(1,9)
        chl = None if rng.random()<0.3 else sorted(rng.sample(range(3), rng.randrange(1,4)))
        tap.log.clear()
        lp.setFrameSet(fi, slice(a,b,s), None if chl is None else list(chl))
        fs = lp.frameSet; sel = list(range(a,b,s)); n+=1
        cols = list(range(3)) if chl is None else (sorted(set(chl)|({0} if not indirect else set())))
        exp = full[np.ix_(sel, cols)]
        ok = fs.frames.shape == exp.shape and np.array_equal(fs.frames, exp)
        xs = [fs.xAxisValue(i) for i in range(len(sel))]
        okx = all(abs(xs[i]-fullx[sel[i]])<1e-6 for i in range(len(sel)))
        if not (ok and okx):
            bad+=1
            if bad<4: print('  MISMATCH slice',a,b,s,'ch',chl,'ok',ok,'okx',okx, xs[:4],[fullx[j] for j in sel[:4]])
        needed = [(st,en) for st,en,f0,f1 in recs if any(f0<=f<f1 for f in sel)]
        for p,l in tap.log:
            if l and not any(st<=p and p+l<=en for st,en in needed):
                outside+=1
                if outside<4: print('  READ OUTSIDE', p,l, 'needed', needed[:3], 'slice',a,b,s)
    print('  loads',n,'bad',bad,'outside reads',outside)
