import shim, io, logging, random, math
logging.disable(logging.CRITICAL)
import numpy as np
from TotalDepth.LAS.core import LASRead, WriteLAS
from TotalDepth.common import LogPass, Slice
hdr = """~Version Information
 VERS.   2.0 : CWLS LOG ASCII STANDARD - VERSION 2.0
 WRAP.   %s  : wrap
~Well Information
 STRT.M   100.0 : START
 STOP.M   102.0 : STOP
 STEP.M   1.0 : STEP
 NULL.    -999.25 : NULL
 COMP.    ACME: Oil & Gas  12:30:05 : COMPANY
 DATE.    13-DEC-86 : DATE
~Curve Information
 DEPT.M      : depth
 GR  .GAPI   : gamma
 NPHI.       : neutron
 RHOB.K/M3  45 350 02 00 : density
~Parameter
 BHT .DEGC  35.5 : bottom hole temp
 BS  .MM    200 : bit size
 MUD .      GEL CHEM : mud type
 RUN .      yes : run
"""
A_un = "~A  DEPT GR NPHI RHOB\n 100.0 1.5 2.5 3.5\n\n   # c\n 101.0\t4.5   5.5 xx\n 102.0 7 8 9\n"
A_wr = "~A\n 100.0\n 1.5 2.5\n 3.5\n\n 101.0\n 4.5 5.5 xx\n# comment\n 102.0\n 7\n 8\n 9\n"
def dump(l):
    out = {}
    for s in 'VWCP':
        out[s] = [tuple(m) for m in l[s].members]
    fa = l.frame_array
    out['A'] = [(c.ident, c.units, np.ma.getdata(c.array).tolist()) for c in fa.channels]
    return out
a = dump(LASRead.LASRead(io.StringIO(hdr % 'NO' + A_un)))
b = dump(LASRead.LASRead(io.StringIO((hdr % 'YES' + A_wr).replace('\n', '\r\n'))))
for k in 'WCPA':
    print(k, a[k] == b[k]); 
print(a['W']); print(a['P']); print(a['A'])
# Write/read roundtrip
fa = LogPass.FrameArray('id', 'desc')
chs = [('DEPT','m',(1,),np.float64), ('AAA','v',(1,),np.float32), ('BB','',(3,),np.int16), ('C','u',(2,2),np.uint8)]
rng = np.random.default_rng(1)
for nm,u,sh,dt in chs:
    c = LogPass.FrameChannel(nm, nm+' long', u, sh, dt); c.init_array(5)
    if np.issubdtype(dt, np.floating): c.array[...] = rng.normal(0, 1e4, c.array.shape)
    else: c.array[...] = rng.integers(0, 100, c.array.shape)
    fa.append(c)
for subset in (set(), {'BB'}, {'C','AAA'}, {'nope'}):
    out = io.StringIO()
    WriteLAS.write_curve_and_array_section_to_las(fa, 5, 'mean', Slice.Slice(), set(subset), 10, '.3f', out)
    txt = "~Version Information\n VERS. 2.0 : v\n WRAP. NO : w\n~Well\n NULL. -999.25 : n\n" + out.getvalue()
    l = LASRead.LASRead(io.StringIO(txt))
    print(sorted(subset), [c.ident for c in l.frame_array.channels], [c.units for c in l.frame_array.channels], len(l.frame_array.x_axis))
print(out.getvalue()[-400:])
# wrapPos
from TotalDepth.util.plot import PRESCfg
t = PRESCfg.LineTransLin(2.0, 5.0, 0.0, 150.0)
for v in (0.0, 149.999, 150.0, -1e-12, 301.0, -451.0, 1e300):
    try:
        w,p = t.wrapPos(v); print('lin', v, w, p, 2.0 <= p <= 5.0, abs(p + w*3.0 - t.L2P(v)))
    except Exception as e: print('lin', v, 'EXC', type(e).__name__, e)
t = PRESCfg.LineTransLog10(2.0, 5.0, 0.2, 2000.0)
for v in (0.2, 2000.0, 1999.99, 0.19999, 1e-300, 5e-324, 1e300):
    try:
        w,p = t.wrapPos(v); print('log', v, w, p, 2.0 <= p <= 5.0, abs(p + w*3.0 - t.L2P(v)))
    except Exception as e: print('log', v, 'EXC', type(e).__name__, e)
