"""prototype independent DLIS writer"""
import struct, random
def uvari(n):
    if n < 0x80: return bytes([n])
    if n < 0x4000: return struct.pack('>H', n | 0x8000)
    return struct.pack('>I', n | 0xC0000000)
def ident(b): return bytes([len(b)]) + b
def ascii_(b): return uvari(len(b)) + b
def obname(o, c, i): return uvari(o) + bytes([c]) + ident(i)
RC = dict(FSINGL=2, ISINGL=5, VSINGL=6, FDOUBL=7, SSHORT=12, SNORM=13, SLONG=14, USHORT=15, UNORM=16, ULONG=17, UVARI=18, IDENT=19, ASCII=20, DTIME=21, ORIGIN=22, OBNAME=23, OBJREF=24, STATUS=26, UNITS=27)
def enc(rc, v):
    if rc == 2: return struct.pack('>f', v)
    if rc == 7: return struct.pack('>d', v)
    if rc == 12: return struct.pack('>b', v)
    if rc == 13: return struct.pack('>h', v)
    if rc == 14: return struct.pack('>i', v)
    if rc == 15: return struct.pack('>B', v)
    if rc == 16: return struct.pack('>H', v)
    if rc == 17: return struct.pack('>I', v)
    if rc == 18 or rc == 22: return uvari(v)
    if rc == 19 or rc == 27: return ident(v)
    if rc == 20: return ascii_(v)
    if rc == 21: y,tz,mo,d,h,mi,s,ms = v; return bytes([y-1900, (tz<<4)|mo, d, h, mi, s]) + struct.pack('>H', ms)
    if rc == 23: return obname(*v)
    if rc == 26: return bytes([v])
    raise ValueError(rc)
def eflr_set(set_type, set_name, template, objects):
    """template: list of (label, count, rc, units) ; objects: list of (obname tuple, [values list or None])"""
    b = bytearray([0xF8 if set_name is not None else 0xF0]) + ident(set_type)
    if set_name is not None: b += ident(set_name)
    for label, count, rc, units in template:
        d = 0x20 | 0x10 | 0x08 | 0x04 | (0x02 if units else 0)
        b += bytes([d]) + ident(label) + uvari(count) + bytes([rc]) + (ident(units) if units else b'')
    for name, vals in objects:
        b += bytes([0x70]) + obname(*name)
        for (label, count, rc, units), v in zip(template, vals):
            if v is None: b += bytes([0x00]); continue
            d = 0x20 | 0x01
            body = b''
            if len(v) != count: d |= 0x08; body += uvari(len(v))
            b += bytes([d]) + body + b''.join(enc(rc, x) for x in v)
    return bytes(b)
def segment(body, is_eflr, lrtype, first, last, pad=False, chk=False, trail=False, enc_=False):
    attr = (0x80 if is_eflr else 0) | (0 if first else 0x40) | (0 if last else 0x20) | (0x10 if enc_ else 0)
    tail = b''
    n = 4 + len(body) + (2 if chk else 0) + (2 if trail else 0)
    padn = 0
    if n % 2 or n < 16 or pad:
        padn = max(16 - n, 0)
        if (n + padn) % 2: padn += 1
        if pad and padn == 0: padn = 2
    if padn:
        attr |= 0x01; body = body + bytes([padn]) * padn; n += padn
    if chk: attr |= 0x04; tail += b'\xAB\xCD'
    if trail: attr |= 0x02; tail += struct.pack('>H', n)
    return struct.pack('>HBB', n, attr, lrtype) + body + tail
def physical(records, rng, vr_max=8192, sul=None, **opts):
    """records: list of (is_eflr, lrtype, payload). returns bytes"""
    out = bytearray(sul or (b'   1V1.00RECORD' + b' 8192' + b'Default Storage Set'.ljust(60)))
    vr = bytearray()
    def flush():
        nonlocal vr
        if vr: out.extend(struct.pack('>HH', len(vr) + 4, 0xff01) + vr); vr = bytearray()
    for is_eflr, lrtype, payload in records:
        ofs = 0; first = True
        while True:
            room = vr_max - 4 - len(vr)
            if room < 20: flush(); room = vr_max - 4
            take = rng.randrange(0, min(len(payload) - ofs, room - 12) + 1) if rng.random() < 0.7 else min(len(payload) - ofs, room - 12)
            take = max(0, min(take, room - 12))
            chunk = payload[ofs:ofs+take]; ofs += take
            last = ofs >= len(payload)
            seg = segment(chunk, is_eflr, lrtype, first, last, **opts)
            if len(seg) > room:
                ofs -= take; flush(); continue
            vr += seg; first = False
            if rng.random() < 0.3: flush()
            if last: break
    flush()
    return bytes(out)
