#!/bin/bash
# usage: tools/reseed_all.sh [jobs]  - run every filed seeded change against its property's quick check; print those not detected
cd /verif
jobs=${1:-3}
ls -d seeded/C*/ | sed 's#seeded/##; s#/##' > /tmp/reseed_list.txt
# a change is caught when any of the checks named in its meta.json (normally its own property's) reports it
run() { d=$1; best=""; for p in $(python3 -c "import json,sys; m=json.load(open('/verif/seeded/$d/meta.json')); print(' '.join(sorted(m.get('checks') or ['${d%%-*}'], key=lambda c: c != '${d%%-*}')))"); do out=$(SEED_LINES=1 tools/seedtest.sh /verif/seeded/$d/patch.diff $p 2>&1 | tail -3); rc=$(echo "$out" | grep -o "rc=[0-9]*" | tail -1); best="$rc by $p"; [ "$rc" = "rc=1" ] && break; done; echo "$d $best $(echo "$out" | grep -E "INCONCLUSIVE|PATCH" | head -1 | cut -c1-150)"; }
export -f run
cat /tmp/reseed_list.txt | xargs -P $jobs -I{} bash -c 'run {}' > /tmp/reseed_all.log 2>&1
echo "not detected:"; grep -v "rc=1" /tmp/reseed_all.log
echo "total $(wc -l < /tmp/reseed_all.log)"
