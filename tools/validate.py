#!/usr/bin/env python3
"""Validate MANIFEST.json and evidence/*.json against the harness schemas (uses python3-vt's jsonschema)."""
import json, glob, sys, os
import jsonschema
R = os.path.dirname(os.path.dirname(os.path.abspath(__file__)))
ms = json.load(open('/root/.vp/MANIFEST.schema.json')); es = json.load(open('/root/.vp/EVIDENCE.schema.json'))
jsonschema.validate(json.load(open(R + '/MANIFEST.json')), ms)
print('MANIFEST ok')
for f in sorted(glob.glob(R + '/evidence/*.json')):
    jsonschema.validate(json.load(open(f)), es); print('ok', os.path.basename(f))
