#!/usr/bin/env python3
"""Confirm an independently written property-breaking change and file it under seeded/<PROP>-<tag>/.

usage: tools/confirm_seed.py <incoming_dir> <tag A|B> <PROP> "<needs>" [check-props...]
Steps (all in a scratch worktree, removed afterwards): demo passes on clean tree; patch applies; repo test-suite passes with it;
demo fails with it; then each named check (default: PROP) is run against the patched worktree and its verdict recorded.
"""
import json, os, re, shutil, subprocess, sys, time
inc, tag, prop, needs = sys.argv[1:5]
checks = sys.argv[5:] or [prop]
wt = '/tmp/confirmwt_%d' % os.getpid()
patch = os.path.join(inc, 'patch_%s.diff' % tag)
demo = os.path.join(inc, 'demo_%s.py' % tag)
def sh(cmd, **k):
    return subprocess.run(cmd, shell=True, stdout=subprocess.PIPE, stderr=subprocess.STDOUT, text=True, **k)
assert sh('/verif/tools/mkwt.sh %s' % wt).returncode == 0
env = dict(os.environ, PYTHONPATH=wt + '/src')
res = {'property': prop, 'tag': tag, 'needs_to_manifest': needs, 'confirmed_at': time.strftime('%Y-%m-%d %H:%M:%S')}
try:
    # demos refer to the breaker's own worktree path: rewrite to ours
    dd = os.path.join(wt, '.demo'); os.makedirs(dd, exist_ok=True)
    for fn in os.listdir(inc):
        if fn.endswith('.py'):
            src2 = re.sub(r'/tmp/wt\d*_C\d+', wt, open(os.path.join(inc, fn)).read())
            src2 = re.sub(r'/tmp/c\d+_demo\d*', dd, src2)
            open(os.path.join(dd, fn), 'w').write(src2)
    d2 = os.path.join(dd, 'demo_%s.py' % tag)
    r = sh('/venv/bin/python %s' % d2, env=env, cwd=wt, timeout=900); res['demo_clean_rc'] = r.returncode
    r = sh('git -C %s apply %s' % (wt, patch)); res['patch_applies'] = r.returncode == 0
    if 'src/TotalDepth/LIS/core/src' in open(patch).read():
        # setup.py build_ext needs the network (setup_requires); rebuild the three modules with the framework's own native builder
        r = sh("/venv/bin/python -c \"import sys, shutil, glob; sys.path.insert(0, '/verif'); from tdv.core import native; d = native.build('plain'); [shutil.copy(f, '%s/src/TotalDepth/LIS/core/') for f in glob.glob(d + '/*.so')]\"" % wt,
               env=dict(os.environ, VERIF_REPO=wt), timeout=900)
        res['rebuilt_native'] = r.returncode == 0
        if r.returncode:
            res['rebuild_output'] = r.stdout[-500:]
    r = sh('/venv/bin/python -m pytest -q -p no:cacheprovider --timeout=900 --continue-on-collection-errors -n 8 2>&1 | tail -1', cwd=wt, env=env, timeout=1800)
    res['suite_with_change'] = r.stdout.strip()
    r = sh('/venv/bin/python %s' % d2, env=env, cwd=wt, timeout=900); res['demo_with_change_rc'] = r.returncode
    res['demo_with_change_output'] = r.stdout[-600:]
    shutil.rmtree(dd)
    ok = res['demo_clean_rc'] == 0 and res['patch_applies'] and res['demo_with_change_rc'] != 0 and ' failed' not in res['suite_with_change'] and 'passed' in res['suite_with_change']
    res['confirmed'] = ok
    res['checks'] = {}
    for c in checks:
        ev = os.path.join(wt, '.tdv_ev_' + c); os.makedirs(ev, exist_ok=True)
        e2 = dict(os.environ, VERIF_REPO=wt, VERIF_EVIDENCE_DIR=ev, VERIF_REPLAY_DIR=ev)
        t0 = time.time()
        r = sh('/verif/check %s --tier quick' % c, env=e2, cwd='/verif', timeout=1500)
        lines = [l for l in r.stdout.splitlines() if l.startswith(('VIOLATION', '  monitor', 'INCONCLUSIVE'))][:4]
        res['checks'][c] = {'cmd': 'VERIF_REPO=<worktree+patch> ./check %s --tier quick' % c, 'rc': r.returncode, 'detected': r.returncode == 1, 'first_lines': [re.sub(r'replay=\S+', 'replay=<scratch>', l)[:300] for l in lines], 'wall_s': round(time.time() - t0, 1)}
finally:
    sh('git -C /repo worktree remove --force %s' % wt)
out = '/verif/seeded/%s-%s%s' % (prop, tag, os.environ.get('SEED_ROUND', ''))
if res.get('confirmed'):
    os.makedirs(out, exist_ok=True)
    shutil.copy(patch, os.path.join(out, 'patch.diff')); shutil.copy(demo, os.path.join(out, 'demo.py'))
    for fn in os.listdir(inc):
        if fn.endswith('.py') and not fn.startswith('demo_'):
            shutil.copy(os.path.join(inc, fn), os.path.join(out, fn))
    json.dump(res, open(os.path.join(out, 'meta.json'), 'w'), indent=1)
print(json.dumps({k: v for k, v in res.items() if k != 'demo_with_change_output'}, indent=1))
