#!/venv/bin/python
"""Developer aid: run one shard of a property and print violations grouped by (format, monitor, kind) with one example each.
usage: tools/dev_shard.py C11 <shard index> [tier] [seed]"""
import collections, json, os, pickle, subprocess, sys, tempfile
sys.path.insert(0, os.path.dirname(os.path.dirname(os.path.abspath(__file__))))
prop, idx = sys.argv[1], int(sys.argv[2]); tier = sys.argv[3] if len(sys.argv) > 3 else 'quick'; seed = sys.argv[4] if len(sys.argv) > 4 else '0'
from tdv.core import env; env.bootstrap_repo()
import importlib; mod = importlib.import_module('tdv.props.' + prop.lower())
plan = mod.plan(tier, int(seed))
tmp = tempfile.mkdtemp(prefix='devshard-')
pp, op = os.path.join(tmp, 'p.json'), os.path.join(tmp, 'o.pickle')
json.dump(plan[idx], open(pp, 'w'))
e = dict(os.environ, PYTHONPATH=env.VERIF, VERIF_SHARD_TMP=os.path.join(tmp, 's'), PYTHONHASHSEED='0'); os.makedirs(e['VERIF_SHARD_TMP'])
r = subprocess.run([env.PY, '-m', 'tdv.core.shard', prop, tier, seed, str(idx), str(len(plan)), pp, op], env=e, cwd=env.VERIF)
d = pickle.load(open(op, 'rb'))
print('status', d['status'], 'evals', d['evaluations'], 'unknown', d['unknown_count'], 'known', dict(d['known_count']), 'inconclusive', d['inconclusive'][:2])
g = collections.OrderedDict()
for v in d['unknown']:
    k = (str((v.get('witness') or {}).get('format')), v['monitor'], v['kind'])
    g.setdefault(k, []).append(v)
for k, vs in g.items():
    print('\n==', k, len(vs)); v = vs[0]; print('  ', v['msg'][:700])
    w = dict(v.get('witness') or {}); w.pop('source', None); w.pop('las', None); w.pop('passes', None); w.pop('layout', None)
    print('   witness:', json.dumps(w, default=repr)[:900])
    if 'traceback' in v: print(v['traceback'][-800:])
import shutil; shutil.rmtree(tmp, ignore_errors=True)
