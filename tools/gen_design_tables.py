#!/usr/bin/env python3
"""Regenerate the machine-written tables of DESIGN.md (between <!-- BEGIN:x --> / <!-- END:x --> markers) from
known_findings.json and seeded/*/meta.json."""
import json, glob, os, re
R = os.path.dirname(os.path.dirname(os.path.abspath(__file__)))
kf = json.load(open(R + '/known_findings.json'))['findings']
rows = ['| property | id | status | repo commit | what |', '|---|---|---|---|---|']
for e in sorted(kf, key=lambda e: (e['property'], e['id'])):
    what = re.sub(r'^fixed: property=\S+ \S+ ', '', e['what'])
    rows.append('| %s | %s | %s | %s | %s |' % (e['property'], e['id'], e['status'], e.get('commit', ''), what.replace('|', '\\|')))
findings = '\n'.join(rows)
rows = ['| seeded change | property | what it needs to manifest | caught by (quick tier) | first report |', '|---|---|---|---|---|']
for m in sorted(glob.glob(R + '/seeded/*/meta.json')):
    d = json.load(open(m))
    for c, r in d['checks'].items():
        first = (r['first_lines'][1] if len(r['first_lines']) > 1 else '').strip()[:160]
        rows.append('| %s | %s | %s | %s | %s |' % (os.path.basename(os.path.dirname(m)), d['property'], d['needs_to_manifest'].replace('|', '\\|'),
                                                    ('**%s: detected**' % c) if r['detected'] else ('%s: MISSED (rc=%s)' % (c, r['rc'])), first.replace('|', '\\|')))
seeded = '\n'.join(rows)
p = R + '/DESIGN.md'
s = open(p).read()
for name, text in (('findings', findings), ('seeded', seeded)):
    s = re.sub(r'(<!-- BEGIN:%s -->\n).*?(<!-- END:%s -->)' % (name, name), lambda m: m.group(1) + text + '\n' + m.group(2), s, flags=re.S)
open(p, 'w').write(s)
print('findings: %d  seeded: %d' % (len(kf), len(glob.glob(R + '/seeded/*/meta.json'))))
