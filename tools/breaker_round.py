#!/usr/bin/env python3
"""Prepare round N of independent 'breaker' sub-agents.

usage: tools/breaker_round.py <N> <PROP> [<PROP> ...]
For each property: a scratch worktree /tmp/wt<N>_<PROP> (tools/mkwt.sh), a prompt /tmp/breaker_prompts<N>/<PROP>.txt made by
tools/breaker_prompt.py with the demo directory renamed to /tmp/<prop>_demo<N>, and - this is the only thing a breaker
learns beyond the property text - the list of what earlier breakers' changes needed to manifest (seeded/*/meta.json), so that
the new changes use other mechanisms.  Nothing from /verif is shown to the breaker.
"""
import glob, json, os, re, subprocess, sys

n = sys.argv[1]
props = sys.argv[2:]
out = '/tmp/breaker_prompts%s' % n
os.makedirs(out, exist_ok=True)
for pid in props:
    wt = '/tmp/wt%s_%s' % (n, pid)
    if not os.path.isdir(wt):
        subprocess.run(['/verif/tools/mkwt.sh', wt], check=True, stdout=subprocess.DEVNULL)
    txt = subprocess.run([sys.executable, '/verif/tools/breaker_prompt.py', pid, wt], check=True, stdout=subprocess.PIPE, text=True).stdout
    txt = txt.replace('/tmp/%s_demo' % pid.lower(), '/tmp/%s_demo%s' % (pid.lower(), n))
    earlier = []
    for mf in sorted(glob.glob('/verif/seeded/%s-*/meta.json' % pid)):
        m = json.load(open(mf))
        need = re.sub(r'\s*\(missed by the first version[^)]*\)', '', m.get('needs_to_manifest', ''))
        need = re.sub(r'[;,.]?\s*(\(?missed by|\(?caught after|\(?caught since).*$', '', need, flags=re.S).strip()
        if need:
            earlier.append(need)
    if earlier:
        txt += ('\n\nOther people have already produced changes of the following kinds for this property; yours must use DIFFERENT '
                'mechanisms and preferably different functions, and should be at least as subtle. Think about which clauses of the property '
                'statement and which parts of its quantifier none of these touch, and aim there:\n' + '\n'.join('- ' + e for e in earlier) + '\n')
    os.makedirs('/tmp/%s_demo%s' % (pid.lower(), n), exist_ok=True)
    with open(os.path.join(out, pid + '.txt'), 'w') as f:
        f.write(txt)
    print(pid, wt, len(earlier), 'earlier mechanisms listed')
