#!/usr/bin/env python3
"""Print the prompt for an independent 'breaker' sub-agent: property text + worktree only, nothing from /verif."""
import json, sys
pid, wt = sys.argv[1], sys.argv[2]
p = [json.loads(l) for l in open('/verif/properties.jsonl') if json.loads(l)['id'] == pid][0]
print(f"""You are testing how well a semantic property of the open-source Python project paulross/TotalDepth (petrophysical well-log file tools: LIS79, RP66V1/DLIS, LAS, BIT, DAT) is protected. You have your own scratch git worktree of the repository at {wt} (source under {wt}/src/TotalDepth, tests under {wt}/tests; the compiled native modules are already copied in). Work ONLY inside {wt} (and /tmp/{pid.lower()}_demo for your demonstration files). Do not read or write /verif or /repo or any other directory; do not commit.

The property ("{p['title']}"):
{p['statement']}
It must hold: {p['quantifier']['text']}.
Code it is anchored in: {', '.join(p['anchors']['files'])}.

Your task: produce TWO different, independent source changes (call them A and B; different mechanisms, ideally in different functions/files) to TotalDepth that each BREAK this property while the code still imports/compiles and the ENTIRE existing test-suite still passes. They must be realistic bugs of the kind a maintainer could introduce in a refactoring or "optimisation" (an off-by-one at a boundary, a wrong condition for a rare combination, state carried over between calls, a mishandled unusual input, two sites that each look fine alone), and they must need something SPECIFIC to manifest - a particular multi-step sequence of operations, an unusual but valid input, a boundary size, a rare combination of options - not something that any ordinary use would expose at once, and not a crude change (no 'return None', no deleting the feature, no random/time-dependent behaviour, no environment-variable switches). Changes must stay inside the property's subject: the broken behaviour must be a violation of the property text above on inputs inside its quantifier.

For each change:
1. Make the edit in the worktree. Run the full test-suite exactly like this and make sure it passes with the same counts as the unmodified tree (2927 passed):
   cd {wt} && PYTHONPATH={wt}/src /venv/bin/python -m pytest -q -p no:cacheprovider --timeout=900 --continue-on-collection-errors -n 8 2>&1 | tail -3
   (if you edit a .pyx/.cpp file under src/TotalDepth/LIS/core/src you must rebuild in the worktree: cd {wt} && /venv/bin/python setup.py build_ext --inplace)
2. Write a small demonstration program /tmp/{pid.lower()}_demo/demo_A.py (resp. demo_B.py) that uses the public API, exits 0 when the property holds and exits 1 (printing what went wrong) when it is violated. Run it as `PYTHONPATH={wt}/src /venv/bin/python /tmp/{pid.lower()}_demo/demo_A.py`: it must FAIL with your change and PASS on the unmodified code (check with `git diff > patch; git checkout -- .; ...; git apply patch` - NEVER use `git stash`: the stash is shared between all worktrees of the repository and other people are working in sibling worktrees). The demo must build its inputs itself (or use files under {wt}/example_data) and be deterministic.
3. Save the change as /tmp/{pid.lower()}_demo/patch_A.diff (resp. patch_B.diff) with `git -C {wt} diff > ...`, then `git -C {wt} checkout -- .` before starting the next one. Each patch must apply to the clean tree on its own.

Finish with the worktree clean (git -C {wt} status shows no modifications). Your final message: for A and B, a two-line description of the change, what exactly is needed to manifest it (the input / sequence / option combination), the test-suite result line, and the demo's output with and without the change.""")
