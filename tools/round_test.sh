#!/bin/sh
# usage: tools/round_test.sh <N> <PROP> [tier]  - copy /tmp/<prop>_demo<N> to seeded/_incoming<N>/ and run the property's check against both patches
n="$1"; prop="$2"; tier="${3:-quick}"
lp=$(echo "$prop" | tr A-Z a-z)
mkdir -p /verif/seeded/_incoming$n
rm -rf "/verif/seeded/_incoming$n/${lp}_demo$n"
cp -r /tmp/${lp}_demo$n /verif/seeded/_incoming$n/
find /verif/seeded/_incoming$n/${lp}_demo$n -name __pycache__ -prune -exec rm -rf {} \; 2>/dev/null
for t in A B; do
  echo "== $prop $t (round $n)"
  SEED_LINES=${SEED_LINES:-3} /verif/tools/seedtest.sh /verif/seeded/_incoming$n/${lp}_demo$n/patch_$t.diff $prop $tier 2>&1 | tail -4
done
