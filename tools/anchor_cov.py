#!/venv/bin/python
"""Developer aid: statement coverage of a property's anchored TotalDepth files under its own check.

usage: tools/anchor_cov.py C06 [tier] [seed] [max_shards]

Runs the shards of the property's plan (all, or the first max_shards) under coverage.py restricted to the files in the
property's anchors.files and prints, per file, the statements no shard executed (grouped into ranges, with the enclosing
def).  This is not a verdict on anything: it shows which branches of the anchored code the generated workload never
drives, which is where a seeded change can hide (DESIGN.md 9.3 / 9.4).  Child processes of a shard (C12 workers, C20
fuzz child) are not traced.
"""
import ast, json, os, subprocess, sys, tempfile, shutil
from concurrent.futures import ThreadPoolExecutor

sys.path.insert(0, os.path.dirname(os.path.dirname(os.path.abspath(__file__))))
prop = sys.argv[1]
tier = sys.argv[2] if len(sys.argv) > 2 else 'quick'
seed = sys.argv[3] if len(sys.argv) > 3 else '0'
max_shards = int(sys.argv[4]) if len(sys.argv) > 4 else 999
from tdv.core import env
env.bootstrap_repo()
import importlib
mod = importlib.import_module('tdv.props.' + prop.lower())
repo = os.environ.get('VERIF_REPO', '/repo')
files = []
for line in open(os.path.join(env.VERIF, 'properties.jsonl')):
    p = json.loads(line)
    if p['id'] == prop:
        files = [os.path.join(repo, f) for f in p['anchors']['files'] if f.endswith('.py')]
extra = os.environ.get('ANCHOR_EXTRA')
if extra:
    files += [os.path.join(repo, f) for f in extra.split(',')]
plan = mod.plan(tier, int(seed))
tmp = tempfile.mkdtemp(prefix='anchorcov-')
idxs = list(range(len(plan)))[:max_shards]


def one(i):
    pp, op = os.path.join(tmp, 'p%d.json' % i), os.path.join(tmp, 'o%d.pickle' % i)
    json.dump(plan[i], open(pp, 'w'))
    st = os.path.join(tmp, 's%d' % i)
    os.makedirs(st)
    e = dict(os.environ, PYTHONPATH=env.VERIF, VERIF_SHARD_TMP=st, PYTHONHASHSEED='0')
    return subprocess.run([env.PY, '-m', 'coverage', 'run', '--data-file=' + os.path.join(tmp, 'cov.%d' % i), '--branch',
                           '--include=' + ','.join(files), '-m', 'tdv.core.shard', prop, tier, seed, str(i), str(len(plan)), pp, op],
                          env=e, cwd=env.VERIF, stdout=subprocess.DEVNULL, stderr=subprocess.PIPE, text=True)


with ThreadPoolExecutor(8) as ex:
    for r in ex.map(one, idxs):
        if r.returncode:
            print('shard rc', r.returncode, r.stderr[-400:])
subprocess.run([env.PY, '-m', 'coverage', 'combine', '--data-file=' + os.path.join(tmp, 'cov'), '-q'] +
               [os.path.join(tmp, 'cov.%d' % i) for i in idxs], cwd=env.VERIF)
out = subprocess.run([env.PY, '-m', 'coverage', 'json', '--data-file=' + os.path.join(tmp, 'cov'), '-o', os.path.join(tmp, 'cov.json'), '-q'],
                     cwd=env.VERIF, stderr=subprocess.PIPE, text=True)
data = json.load(open(os.path.join(tmp, 'cov.json')))
for fn, fd in sorted(data['files'].items()):
    src = open(fn).read()
    tree = ast.parse(src)
    spans = []
    for node in ast.walk(tree):
        if isinstance(node, (ast.FunctionDef, ast.AsyncFunctionDef)):
            spans.append((node.lineno, node.end_lineno, node.name))
    lines = src.split('\n')

    def owner(ln):
        best = None
        for a, b, name in spans:
            if a <= ln <= b and (best is None or a > best[0]):
                best = (a, name)
        return best[1] if best else '<module>'
    miss = fd['missing_lines']
    s = fd['summary']
    print('\n=== %s  %d/%d statements, %d missing, branches %d/%d' % (
        os.path.relpath(fn, repo), s['covered_lines'], s['num_statements'], len(miss), s.get('covered_branches', 0), s.get('num_branches', 0)))
    byfn = {}
    for ln in miss:
        byfn.setdefault(owner(ln), []).append(ln)
    for name, lns in sorted(byfn.items(), key=lambda kv: kv[1][0]):
        print('  %-40s %s' % (name, ' '.join(map(str, lns))[:150]))
    mb = fd.get('missing_branches') or []
    if mb and os.environ.get('ANCHOR_BRANCHES'):
        print('  partial branches:', ' '.join('%d->%d' % tuple(b) for b in mb)[:600])
shutil.rmtree(tmp, ignore_errors=True)
