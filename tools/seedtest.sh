#!/bin/sh
# usage: tools/seedtest.sh <patch.diff> <PROP> [tier]   - run a check against a scratch worktree carrying a seeded change.
# Evidence/replay of that run go to a scratch dir, the worktree is removed afterwards.  Prints the check's last lines and rc.
patch="$1"; prop="$2"; tier="${3:-quick}"
wt=/tmp/seedwt_$$_$prop
/verif/tools/mkwt.sh $wt >/dev/null || exit 9
if ! git -C $wt apply "$patch"; then echo "PATCH DOES NOT APPLY"; git -C /repo worktree remove --force $wt; exit 9; fi
mkdir -p $wt/.tdv_ev
VERIF_REPO=$wt VERIF_EVIDENCE_DIR=$wt/.tdv_ev VERIF_REPLAY_DIR=$wt/.tdv_ev /verif/check $prop --tier $tier > $wt/.tdv_ev/out.txt 2>&1
rc=$?
grep -E "^(VIOLATION|INCONCLUSIVE|KNOWN-FINDING|  monitor|C[0-9]+ )" $wt/.tdv_ev/out.txt | head -${SEED_LINES:-8}
echo "rc=$rc"
git -C /repo worktree remove --force $wt
exit $rc
