#!/bin/sh
# usage: tools/mkwt.sh <dir>   - scratch git worktree of /repo HEAD with the built native modules copied in
set -e
d="$1"
git -C /repo worktree add -f --detach "$d" HEAD >/dev/null 2>&1
cp /repo/src/TotalDepth/LIS/core/*.so "$d/src/TotalDepth/LIS/core/"
echo "$d"
