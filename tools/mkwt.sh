#!/bin/sh
# usage: tools/mkwt.sh <dir>   - scratch git worktree of /repo HEAD with native modules built from the tree's own sources copied in
# (the git-ignored .so files lying in /repo predate the source fixes to cRepCode.pyx / LISRepCode.cpp)
set -e
d="$1"
git -C /repo worktree add -f --detach "$d" HEAD >/dev/null 2>&1
cp /repo/src/TotalDepth/LIS/core/*.so "$d/src/TotalDepth/LIS/core/"
b=$(cd /verif && /venv/bin/python -c "import sys; sys.path.insert(0, '/verif'); from tdv.core import native; print(native.build('plain'))" 2>/dev/null | tail -1) || b=""
if [ -n "$b" ] && [ -d "$b" ]; then cp "$b"/*.so "$d/src/TotalDepth/LIS/core/"; fi
echo "$d"
