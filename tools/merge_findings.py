#!/usr/bin/env python3
"""Merge known_findings.d/<PROP>.json into known_findings.json.  usage: merge_findings.py PROP [id=fixed:<commit> ...]"""
import json, os, sys
R = os.path.dirname(os.path.dirname(os.path.abspath(__file__)))
prop = sys.argv[1]
fixed = dict(a.split('=fixed:') for a in sys.argv[2:])
frag = os.path.join(R, 'known_findings.d', prop + '.json')
main = os.path.join(R, 'known_findings.json')
d = json.load(open(main)); f = json.load(open(frag))
for e in f['findings']:
    if e['id'] in fixed:
        e['status'] = 'fixed'; e['commit'] = fixed[e['id']]
        e['what'] = 'fixed: property=%s %s %s' % (e['property'], fixed[e['id']], e['what'])
    d['findings'] = [x for x in d['findings'] if not (x['property'] == e['property'] and x['id'] == e['id'])] + [e]
json.dump(d, open(main, 'w'), indent=1)
os.remove(frag)
print([(e['property'], e['id'], e['status']) for e in d['findings']])
