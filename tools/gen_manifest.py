#!/venv/bin/python
"""Regenerate MANIFEST.json from the property modules' metadata (LEVEL_TEXT, LEVEL_NOTE, TECHNIQUE, DESIGN_REF)."""
import importlib, json, os, sys
ROOT = os.path.dirname(os.path.dirname(os.path.abspath(__file__)))
sys.path.insert(0, ROOT)
from tdv.core import env
env.bootstrap_repo()
props = [json.loads(l) for l in open(os.path.join(ROOT, 'properties.jsonl'))]
checks, na = [], []
NA = json.load(open(os.path.join(ROOT, 'tools', 'not_applicable.json')))
for p in props:
    pid = p['id']
    path = os.path.join(ROOT, 'tdv', 'props', pid.lower() + '.py')
    if pid in NA or not os.path.exists(path):
        na.append({'property_id': pid, 'reason': NA.get(pid, 'check not built yet (work in progress): see DESIGN.md section 5 for the planned monitor')})
        continue
    m = importlib.import_module('tdv.props.' + pid.lower())
    checks.append({
        'property_id': pid,
        'quick_cmd': './check %s --tier quick' % pid,
        'thorough_cmd': './check %s --tier thorough' % pid,
        'evidence_file': 'evidence/%s.json' % pid,
        'replay_cmd_template': './check %s --replay {path}' % pid,
        'engine': 'tdv',
        'level_claimed': {'category': 'exploration', 'text': m.LEVEL_TEXT, 'design_ref': 'DESIGN.md section 5, ' + pid},
        'level_note': m.LEVEL_NOTE,
        'technique': m.TECHNIQUE,
    })
man = {
    'version': 1,
    'setup_cmd': './check setup',
    'hooks': {
        'guard': 'TOTALDEPTH_VERIF',
        'enable': 'no source hooks exist: every monitor attaches from the harness (attribute replacement, icontract, sys.monitoring, audit hooks); checks export TOTALDEPTH_VERIF=1 for form and rebuild the native modules from the current tree',
        'baseline_off_cmd': 'cd /repo && env -u TOTALDEPTH_VERIF /venv/bin/python -m pytest -ra -q -p no:cacheprovider --timeout=900 --continue-on-collection-errors',
        'source_commits': [],
        'add_only': True,
    },
    'engines': [{'name': 'tdv', 'path': 'tdv/', 'serves_properties': [c['property_id'] for c in checks],
                 'kind_free_text': 'runtime monitoring: generated/hostile workloads run against the real code in subprocess shards; oracles are independent reference models, metamorphic pairs, icontract contracts, sys.monitoring mechanism/step counters, I/O taps, audit hooks, ASan/UBSan builds'}],
    'checks': checks,
    'not_applicable': na,
    'notes': 'Exit 0 held on everything observed (KNOWN-FINDING lines for recorded genuine defects, see known_findings.json); exit 1 + VIOLATION line; exit 2 + INCONCLUSIVE line when a deciding monitor or anchored mechanism was never reached or a watchdog fired.',
}
json.dump(man, open(os.path.join(ROOT, 'MANIFEST.json'), 'w'), indent=1)
print('checks:', [c['property_id'] for c in checks], 'n/a:', [n['property_id'] for n in na])
