"""Independent reference for LIS-79 and RP66V1 representation codes (property C07).

Written from the standards' definitions (LIS-79 appendix B "representation codes"; API RP66 V1 appendix B;
IBM System/360 short hexadecimal floating point; DEC VAX F_floating; IEEE 754 binary32/binary64).
Shares no code with TotalDepth and imports nothing from it.

Conventions
-----------
* A *word* is the unsigned big-endian integer made of the code's bytes (``int.from_bytes(b, 'big')``).
* Scalar decoders return exact values: ``int`` for the integer codes, ``fractions.Fraction`` for the
  fractional ones (every code value is a dyadic rational), or one of the markers ``NAN``, ``POS_INF``,
  ``NEG_INF`` (IEEE only) and ``RESERVED`` (VAX reserved operand: sign 1, exponent 0 - no value defined).
* ``np_*`` functions are numpy-vectorised versions that produce the *same* values as float64 arrays.  They are
  exact: every intermediate is an integer that fits a float64 mantissa and the final scaling is by a power of two
  (``numpy.ldexp``) inside the normal range, or a mask says that the exact value is not a float64 at all
  (LIS code 50 has a 16 bit exponent).  ``self_check`` compares them with the Fraction versions.
* Variable-length RP66V1 codes have reference *parsers* ``parse_*(buf, pos) -> (value, new_pos, ...)`` raising
  ``Truncated`` when the buffer ends inside the value, and *encoders* ``enc_*`` used by workload generators.
"""
import calendar
import struct
from fractions import Fraction

import numpy as np

# --------------------------------------------------------------------------------------------------------------
# markers
# --------------------------------------------------------------------------------------------------------------
NAN = 'nan'
POS_INF = '+inf'
NEG_INF = '-inf'
RESERVED = 'reserved-operand'
MARKERS = (NAN, POS_INF, NEG_INF, RESERVED)

_TWO = Fraction(2)


def _pow2(e):
    """Exact 2**e for any integer e."""
    return Fraction(1 << e) if e >= 0 else Fraction(1, 1 << -e)


def _twos(value, bits):
    """Two's complement interpretation of the low ``bits`` bits of value."""
    value &= (1 << bits) - 1
    return value - (1 << bits) if value >> (bits - 1) else value


# --------------------------------------------------------------------------------------------------------------
# LIS-79
# --------------------------------------------------------------------------------------------------------------
LIS_SIZE = {49: 2, 50: 4, 56: 1, 66: 1, 68: 4, 70: 4, 73: 4, 77: 1, 79: 2}
LIS_CODES = tuple(sorted(LIS_SIZE))
LIS_INT_CODES = (56, 66, 73, 77, 79)


def lis49(word):
    """16 bit floating point: bits 15..4 two's complement fraction M (binary point right of the sign bit),
    bits 3..0 unsigned exponent E.  Value M * 2**E."""
    m = Fraction(_twos(word >> 4, 12), 1 << 11)
    return m * _pow2(word & 0xF)


def lis50(word):
    """32 bit low resolution floating point: high 16 bits two's complement exponent E, low 16 bits two's
    complement fraction M.  Value M * 2**E."""
    e = _twos(word >> 16, 16)
    m = Fraction(_twos(word, 16), 1 << 15)
    return m * _pow2(e)


def lis56(word):
    """8 bit two's complement integer."""
    return _twos(word, 8)


def lis66(word):
    """8 bit unsigned integer."""
    return word & 0xFF


def lis68(word):
    """32 bit floating point: bit 31 sign S, bits 30..23 exponent E (excess 128, stored one's complemented when
    S = 1), bits 22..0 fraction which together with S forms a 24 bit two's complement fraction M in [-1, 1).
    Value M * 2**(E' - 128) with E' = E (S = 0) or 255 - E (S = 1)."""
    s = (word >> 31) & 1
    e = (word >> 23) & 0xFF
    f = word & 0x7FFFFF
    if s:
        m = Fraction(f, 1 << 23) - 1
        e = 255 - e
    else:
        m = Fraction(f, 1 << 23)
    return m * _pow2(e - 128)


def lis70(word):
    """32 bit fixed point: two's complement, binary point in the middle."""
    return Fraction(_twos(word, 32), 1 << 16)


def lis73(word):
    """32 bit two's complement integer."""
    return _twos(word, 32)


def lis77(word):
    """8 bit mask (unsigned)."""
    return word & 0xFF


def lis79(word):
    """16 bit two's complement integer."""
    return _twos(word, 16)


_LIS = {49: lis49, 50: lis50, 56: lis56, 66: lis66, 68: lis68, 70: lis70, 73: lis73, 77: lis77, 79: lis79}


def lis_value(code, word):
    """Exact value of an unsigned word of LIS representation code ``code``."""
    return _LIS[code](word)


def lis_from_bytes(code, b):
    if len(b) != LIS_SIZE[code]:
        raise ValueError('code %d needs %d bytes' % (code, LIS_SIZE[code]))
    return _LIS[code](int.from_bytes(b, 'big'))


def lis_struct_word(code, word):
    """Two's complement (signed) reading of the code's word."""
    return _twos(word, 8 * LIS_SIZE[code])


# ---- code 68 encoding side -----------------------------------------------------------------------------------
LIS68_MAX = (1 - Fraction(1, 1 << 23)) * _pow2(127)     # 0x7FFFFFFF
LIS68_MIN = -_pow2(127)                                  # 0x80000000
LIS68_SMALLEST_NORMALISED = _pow2(-129)                  # fraction 0.5, exponent field 0


def lis68_representable(x):
    """True when the exact value x is the value of at least one code 68 word."""
    x = Fraction(x)
    if x == 0:
        return True
    if not (LIS68_MIN <= x <= LIS68_MAX):
        return False
    # x = M * 2**(e-128), M a multiple of 2**-23 in [-1, 1), e in 0..255: the finest grid is 2**-151
    # and at magnitude 2**k (k = floor(log2|x|)) the grid is 2**(max(k, -129) - 22) for positive x.
    for e in range(0, 256):
        m = x / _pow2(e - 128)
        if -1 <= m < 1 and (m * (1 << 23)).denominator == 1:
            return True
    return False


def lis68_encode_trunc(x):
    """A canonical encoder written from the format definition: normalised fraction, magnitude truncated towards
    zero to 23 fraction bits; |x| above the range clamps to the extreme words, below 2**-151 to zero.
    Only used to *describe* results (the property fixes equivalence and an error bound, not the word)."""
    x = Fraction(x)
    if x == 0:
        return 0x40000000
    if x > LIS68_MAX:
        return 0x7FFFFFFF
    if x < LIS68_MIN:
        return 0x80000000
    neg = x < 0
    a = -x if neg else x
    # exponent k with a = m * 2**k, 0.5 <= m < 1
    k = a.numerator.bit_length() - a.denominator.bit_length()
    while a >= _pow2(k):
        k += 1
    while a < _pow2(k - 1):
        k -= 1
    if neg and a == _pow2(k - 1):
        k -= 1                      # -0.5 * 2**k is the normalised -1.0 * 2**(k-1) in two's complement
    k = max(k, -128)
    if k > 127:
        k = 127
    q = a / _pow2(k - 23)           # fraction in units of 2**-23
    n = q.numerator // q.denominator
    if neg:
        if n == 0:
            return 0x40000000
        if n > (1 << 23):
            n = 1 << 23
        return (1 << 31) | ((255 - (k + 128)) << 23) | (((1 << 23) - n) & 0x7FFFFF)
    if n == 0:
        return 0x40000000
    return ((k + 128) << 23) | min(n, (1 << 23) - 1)


# --------------------------------------------------------------------------------------------------------------
# RP66V1 fixed length codes
# --------------------------------------------------------------------------------------------------------------
RP_CODE = {'FSINGL': 2, 'ISINGL': 5, 'VSINGL': 6, 'FDOUBL': 7, 'SSHORT': 12, 'SNORM': 13, 'SLONG': 14,
           'USHORT': 15, 'UNORM': 16, 'ULONG': 17, 'UVARI': 18, 'IDENT': 19, 'ASCII': 20, 'DTIME': 21,
           'ORIGIN': 22, 'OBNAME': 23, 'OBJREF': 24, 'STATUS': 26, 'UNITS': 27}
RP_SIZE = {'FSINGL': 4, 'ISINGL': 4, 'VSINGL': 4, 'FDOUBL': 8, 'SSHORT': 1, 'SNORM': 2, 'SLONG': 4,
           'USHORT': 1, 'UNORM': 2, 'ULONG': 4, 'DTIME': 8, 'STATUS': 1}
RP_INT_CODES = ('SSHORT', 'SNORM', 'SLONG', 'USHORT', 'UNORM', 'ULONG', 'STATUS')


def _ieee(word, ebits, fbits):
    s = word >> (ebits + fbits)
    e = (word >> fbits) & ((1 << ebits) - 1)
    f = word & ((1 << fbits) - 1)
    bias = (1 << (ebits - 1)) - 1
    if e == (1 << ebits) - 1:
        if f:
            return NAN
        return NEG_INF if s else POS_INF
    if e == 0:
        v = Fraction(f, 1 << fbits) * _pow2(1 - bias)
    else:
        v = (1 + Fraction(f, 1 << fbits)) * _pow2(e - bias)
    return -v if s else v


def fsingl(word):
    """IEEE 754 binary32 (big-endian word).  -0 is returned as Fraction(0); use ``ieee_sign`` for its sign."""
    return _ieee(word, 8, 23)


def fdoubl(word):
    """IEEE 754 binary64 (big-endian 64 bit word)."""
    return _ieee(word, 11, 52)


def ieee_sign(word, bits):
    return (word >> (bits - 1)) & 1


def isingl(word):
    """IBM System/360 short floating point: bit 31 sign, bits 30..24 characteristic C (excess 64, base 16),
    bits 23..0 fraction F with the radix point to its left.  Value (-1)**S * (F / 2**24) * 16**(C - 64).
    Unnormalised fractions are legal and have the value of the formula."""
    s = word >> 31
    c = (word >> 24) & 0x7F
    f = word & 0xFFFFFF
    v = Fraction(f, 1 << 24) * _pow2(4 * (c - 64))
    return -v if s else v


def vsingl(b):
    """DEC VAX F_floating as stored in VAX memory order (which is what RP66V1 prescribes): two little-endian
    16 bit words; first word: bit 15 sign, bits 14..7 exponent E (excess 128), bits 6..0 the high fraction bits;
    second word: the low 16 fraction bits.  Value (-1)**S * 0.1f(binary) * 2**(E - 128), i.e. the 23 stored bits
    follow a hidden leading 1 whose weight is 1/2.  E = 0, S = 0 is zero whatever the fraction; E = 0, S = 1 is the
    reserved operand."""
    if isinstance(b, int):
        b = b.to_bytes(4, 'big')
    w0 = b[0] | (b[1] << 8)
    w1 = b[2] | (b[3] << 8)
    s = w0 >> 15
    e = (w0 >> 7) & 0xFF
    f = ((w0 & 0x7F) << 16) | w1
    if e == 0:
        return RESERVED if s else Fraction(0)
    v = Fraction((1 << 23) | f, 1 << 24) * _pow2(e - 128)
    return -v if s else v


def sshort(word):
    return _twos(word, 8)


def snorm(word):
    return _twos(word, 16)


def slong(word):
    return _twos(word, 32)


def ushort(word):
    return word & 0xFF


def unorm(word):
    return word & 0xFFFF


def ulong(word):
    return word & 0xFFFFFFFF


def status(word):
    """STATUS is a USHORT restricted to 0 and 1 by the standard; other bytes have no defined meaning."""
    return word & 0xFF


_RP_FIXED = {'FSINGL': fsingl, 'ISINGL': isingl, 'VSINGL': vsingl, 'FDOUBL': fdoubl, 'SSHORT': sshort,
             'SNORM': snorm, 'SLONG': slong, 'USHORT': ushort, 'UNORM': unorm, 'ULONG': ulong, 'STATUS': status}


def rp_value(name, word):
    """Exact value of the unsigned big-endian word of fixed-length RP66V1 code ``name``."""
    return _RP_FIXED[name](word)


# --------------------------------------------------------------------------------------------------------------
# doubles
# --------------------------------------------------------------------------------------------------------------
def exact_double(x):
    """The float equal to the exact value x, or None when no such float exists."""
    if x in MARKERS:
        return {NAN: float('nan'), POS_INF: float('inf'), NEG_INF: float('-inf')}.get(x)
    if isinstance(x, int):
        x = Fraction(x)
    try:
        f = x.numerator / x.denominator     # correctly rounded int/int true division
    except OverflowError:
        return None
    if f in (float('inf'), float('-inf')):
        return None
    return f if Fraction(f) == x else None


def certain_underflow(x):
    """x is a non-zero exact value of magnitude below 2^-1075 (half the smallest denormal): its nearest double is zero."""
    if x in MARKERS or isinstance(x, float):
        return False
    x = Fraction(x)
    return x != 0 and abs(x) < Fraction(1, 1 << 1075)


def show_exact(x):
    """str(x) that stays short (and inside the int->str digit limit) for enormous or minuscule rationals."""
    if x in MARKERS or not isinstance(x, (int, Fraction)):
        return str(x)
    x = Fraction(x)
    if x.numerator.bit_length() <= 200 and x.denominator.bit_length() <= 200:
        return str(x)
    n, d = x.numerator, x.denominator
    tz = (d & -d).bit_length() - 1 if d > 1 else 0
    if d == 1 << tz:
        odd_tz = (abs(n) & -abs(n)).bit_length() - 1 if n else 0
        return '%d*2^%d' % (n >> odd_tz, odd_tz - tz)
    return '%s~2^%d' % ('-' if n < 0 else '', abs(n).bit_length() - d.bit_length())


def float_equals_exact(observed, expected):
    """observed (whatever the code under test returned) is the float with exactly the value ``expected``."""
    if expected == NAN:
        return isinstance(observed, float) and observed != observed
    if expected in (POS_INF, NEG_INF):
        return isinstance(observed, float) and observed == float(expected)
    if expected == RESERVED:
        return True
    if isinstance(observed, bool) or not isinstance(observed, (int, float)):
        return False
    if isinstance(observed, float) and (observed != observed or observed in (float('inf'), float('-inf'))):
        return False
    return Fraction(observed) == Fraction(expected)


def double_bits(f):
    return struct.unpack('<Q', struct.pack('<d', f))[0]


# --------------------------------------------------------------------------------------------------------------
# RP66V1 variable length codes: parsers
# --------------------------------------------------------------------------------------------------------------
class Truncated(Exception):
    """The buffer ends inside the value."""


def _need(buf, pos, n):
    if pos + n > len(buf):
        raise Truncated('need %d bytes at %d, have %d' % (n, pos, len(buf) - pos))


def uvari_size(first_byte):
    """Length of a UVARI from the two top bits of its first byte: 0x -> 1, 10 -> 2, 11 -> 4."""
    if first_byte & 0x80 == 0:
        return 1
    return 2 if first_byte & 0x40 == 0 else 4


def parse_uvari(buf, pos):
    """-> (value, new_pos, canonical).  canonical is False when the value would fit a shorter form
    (the standard gives the 2-byte form the range 2**7..2**14-1 and the 4-byte form 2**14..2**30-1)."""
    _need(buf, pos, 1)
    n = uvari_size(buf[pos])
    _need(buf, pos, n)
    raw = int.from_bytes(buf[pos:pos + n], 'big')
    if n == 1:
        return raw, pos + 1, True
    if n == 2:
        v = raw - 0x8000
        return v, pos + 2, v >= 1 << 7
    v = raw - 0xC0000000
    return v, pos + 4, v >= 1 << 14


def parse_origin(buf, pos):
    return parse_uvari(buf, pos)


def parse_ident(buf, pos):
    """USHORT length n then n bytes -> (bytes, new_pos)."""
    _need(buf, pos, 1)
    n = buf[pos]
    _need(buf, pos + 1, n)
    return bytes(buf[pos + 1:pos + 1 + n]), pos + 1 + n


def parse_ascii(buf, pos):
    """UVARI length n then n bytes -> (bytes, new_pos, canonical_length)."""
    n, p, canon = parse_uvari(buf, pos)
    _need(buf, p, n)
    return bytes(buf[p:p + n]), p + n, canon


UNITS_CHARS = frozenset(b'abcdefghijklmnopqrstuvwxyzABCDEFGHIJKLMNOPQRSTUVWXYZ0123456789 -./()')


def parse_units(buf, pos):
    """Same syntax as IDENT -> (bytes, new_pos, chars_permitted)."""
    v, p = parse_ident(buf, pos)
    return v, p, all(c in UNITS_CHARS for c in v)


def parse_obname(buf, pos):
    """ORIGIN (UVARI) + copy number (USHORT) + IDENT -> ((origin, copy, ident), new_pos, canonical)."""
    o, p, canon = parse_uvari(buf, pos)
    _need(buf, p, 1)
    c = buf[p]
    i, p = parse_ident(buf, p + 1)
    return (o, c, i), p, canon


def parse_objref(buf, pos):
    """IDENT (object type) + OBNAME -> ((type, (origin, copy, ident)), new_pos, canonical)."""
    t, p = parse_ident(buf, pos)
    n, p, canon = parse_obname(buf, p)
    return (t, n), p, canon


def parse_dtime(buf, pos):
    """8 bytes: year-1900, (tz << 4 | month), day, hour, minute, second, millisecond (UNORM)
    -> (dict, new_pos, valid) where valid says that every field is inside the range the standard gives."""
    _need(buf, pos, 8)
    y, tzm, d, h, mn, s = buf[pos:pos + 6]
    ms = (buf[pos + 6] << 8) | buf[pos + 7]
    v = {'year': 1900 + y, 'tz': tzm >> 4, 'month': tzm & 0xF, 'day': d, 'hour': h, 'minute': mn, 'second': s,
         'millisecond': ms}
    valid = (v['tz'] <= 2 and 1 <= v['month'] <= 12 and h <= 23 and mn <= 59 and s <= 59 and ms <= 999
             and 1 <= d <= calendar.monthrange(v['year'], v['month'])[1])
    return v, pos + 8, valid


PARSERS = {'UVARI': parse_uvari, 'ORIGIN': parse_origin, 'IDENT': parse_ident, 'ASCII': parse_ascii,
           'UNITS': parse_units, 'OBNAME': parse_obname, 'OBJREF': parse_objref, 'DTIME': parse_dtime}


# ---- encoders (for workload generators only) -------------------------------------------------------------------
def enc_uvari(v, width=None):
    """Encode v; width in (1, 2, 4) forces a (possibly non-canonical) form."""
    if width is None:
        width = 1 if v < 1 << 7 else 2 if v < 1 << 14 else 4
    if width == 1:
        if v >= 1 << 7:
            raise ValueError(v)
        return bytes([v])
    if width == 2:
        if v >= 1 << 14:
            raise ValueError(v)
        return (0x8000 | v).to_bytes(2, 'big')
    if v >= 1 << 30:
        raise ValueError(v)
    return (0xC0000000 | v).to_bytes(4, 'big')


def enc_ident(b):
    if len(b) > 255:
        raise ValueError(len(b))
    return bytes([len(b)]) + bytes(b)


def enc_ascii(b, width=None):
    return enc_uvari(len(b), width) + bytes(b)


def enc_obname(o, c, i, width=None):
    return enc_uvari(o, width) + bytes([c]) + enc_ident(i)


def enc_objref(t, o, c, i, width=None):
    return enc_ident(t) + enc_obname(o, c, i, width)


def enc_dtime(year, tz, month, day, hour, minute, second, ms):
    return bytes([year - 1900, (tz << 4) | month, day, hour, minute, second, ms >> 8, ms & 0xFF])


# --------------------------------------------------------------------------------------------------------------
# numpy vectorised exact versions.  words: array of unsigned ints (any unsigned dtype wide enough).
# Float codes return float64; integer codes int64.
# --------------------------------------------------------------------------------------------------------------
def _i64(words):
    return np.asarray(words).astype(np.int64)


def _twos_np(w, bits):
    w = w & ((1 << bits) - 1)
    return np.where(w >> (bits - 1) != 0, w - (1 << bits), w)


def _scale(m, e):
    """m * 2**e for int64 m with |m| < 2**53 and e such that the result is a normal float64: exact."""
    return np.ldexp(m.astype(np.float64), e.astype(np.int32))


def np_lis49(words):
    w = _i64(words)
    return _scale(_twos_np(w >> 4, 12), (w & 0xF) - 11)


def np_lis50(words):
    """-> (values, representable).  values[i] is meaningful only where representable[i]."""
    w = _i64(words)
    e = _twos_np(w >> 16, 16)
    m = _twos_np(w, 16)
    a = np.abs(m)
    bl = np.frexp(a.astype(np.float64))[1].astype(np.int64)                 # bit length (0 for 0)
    tz = np.frexp((a & -a).astype(np.float64))[1].astype(np.int64) - 1       # trailing zeros (-1 for 0)
    top = e - 15 + bl - 1
    low = e - 15 + tz
    rep = (m == 0) | ((top <= 1023) & (low >= -1074))
    # certain underflow: |value| < 2^-1075 is less than half the smallest denormal, so the nearest double is (+/-) zero
    under = (m != 0) & (top <= -1076)
    with np.errstate(over='ignore', under='ignore'):
        v = np.ldexp(m.astype(np.float64), (e - 15).astype(np.int32))
    v = np.where(under, 0.0, v)
    return v, rep | under


def np_lis68(words):
    w = _i64(words)
    s = (w >> 31) & 1
    e = (w >> 23) & 0xFF
    f = w & 0x7FFFFF
    m = f - (s << 23)
    e = np.where(s != 0, 255 - e, e)
    return _scale(m, e - 128 - 23)


def np_lis70(words):
    return _twos_np(_i64(words), 32).astype(np.float64) / 65536.0      # exact: power of two divisor, 32 bit numerator


def np_twos(words, bits):
    return _twos_np(_i64(words), bits)


def np_isingl(words):
    w = _i64(words)
    s = (w >> 31) & 1
    c = (w >> 24) & 0x7F
    f = w & 0xFFFFFF
    v = _scale(f, 4 * (c - 64) - 24)
    return np.where(s != 0, -v, v)


def np_vsingl(words):
    """words = big-endian reading of the four stored bytes -> (values, defined)."""
    w = _i64(words)
    b0, b1, b2, b3 = (w >> 24) & 0xFF, (w >> 16) & 0xFF, (w >> 8) & 0xFF, w & 0xFF
    w0 = b0 | (b1 << 8)
    w1 = b2 | (b3 << 8)
    s = w0 >> 15
    e = (w0 >> 7) & 0xFF
    f = ((w0 & 0x7F) << 16) | w1
    v = _scale((1 << 23) | f, e - 128 - 24)
    v = np.where(s != 0, -v, v)
    v = np.where(e == 0, 0.0, v)
    return v, ~((e == 0) & (s != 0))


def np_fsingl(words):
    """-> (values as float64, is_nan).  Conversion binary32 -> binary64 is exact."""
    w = np.asarray(words).astype('>u4')
    with np.errstate(invalid='ignore'):
        v = w.view('>f4').astype(np.float64)
    wi = _i64(words)
    nan = (((wi >> 23) & 0xFF) == 0xFF) & ((wi & 0x7FFFFF) != 0)
    return v, nan


def np_fdoubl(words):
    w = np.asarray(words).astype('>u8')
    v = w.view('>f8').astype(np.float64)
    wi = np.asarray(words).astype(np.uint64)
    nan = (((wi >> np.uint64(52)) & np.uint64(0x7FF)) == np.uint64(0x7FF)) & ((wi & np.uint64((1 << 52) - 1)) != 0)
    return v, nan


def np_decode(code, words):
    """Uniform front end.  code: LIS int or RP66V1 name.
    -> (values, asserted, nan): values float64 (float codes) or int64 (integer codes); asserted[i] False where the
    standard defines no value that a float64 can hold (VAX reserved operand, code 50 outside float64, STATUS > 1);
    nan[i] True where the value is an IEEE NaN (payload not compared)."""
    n = len(words)
    yes, no = np.ones(n, bool), np.zeros(n, bool)
    if code == 49:
        return np_lis49(words), yes, no
    if code == 50:
        v, rep = np_lis50(words)
        return v, rep, no
    if code == 68:
        return np_lis68(words), yes, no
    if code == 70:
        return np_lis70(words), yes, no
    if code in (56, 'SSHORT'):
        return np_twos(words, 8), yes, no
    if code in (79, 'SNORM'):
        return np_twos(words, 16), yes, no
    if code in (73, 'SLONG'):
        return np_twos(words, 32), yes, no
    if code in (66, 77, 'USHORT', 'UNORM', 'ULONG'):
        return _i64(words), yes, no
    if code == 'STATUS':
        w = _i64(words)
        return w, w <= 1, no
    if code == 'ISINGL':
        return np_isingl(words), yes, no
    if code == 'VSINGL':
        v, d = np_vsingl(words)
        return v, d, no
    if code == 'FSINGL':
        v, nan = np_fsingl(words)
        return v, yes, nan
    if code == 'FDOUBL':
        v, nan = np_fdoubl(words)
        return v, yes, nan
    raise KeyError(code)


def scalar_value(code, word):
    """Exact scalar value for the same ``code`` keys that np_decode accepts."""
    if isinstance(code, int):
        return lis_value(code, word)
    return rp_value(code, word)


def code_size(code):
    return LIS_SIZE[code] if isinstance(code, int) else RP_SIZE[code]


ALL_FIXED_CODES = LIS_CODES + ('FSINGL', 'ISINGL', 'VSINGL', 'FDOUBL', 'SSHORT', 'SNORM', 'SLONG', 'USHORT',
                               'UNORM', 'ULONG', 'STATUS')


def self_check(rng, n=2000):
    """Compare the vectorised versions with the Fraction versions on boundary and random words.
    -> (number of comparisons, list of disagreement descriptions)."""
    bad, total = [], 0
    for code in ALL_FIXED_CODES:
        bits = 8 * code_size(code)
        ws = {0, 1, (1 << bits) - 1, 1 << (bits - 1), (1 << (bits - 1)) - 1, (1 << (bits - 1)) + 1}
        for k in range(bits):
            ws.add(1 << k)
            ws.add(((1 << bits) - 1) ^ (1 << k))
        if bits <= 16:
            ws.update(range(0, 1 << bits, 1 if bits == 8 else 7))
        else:
            for _ in range(n):
                ws.add(rng.getrandbits(bits))
        ws = sorted(ws)
        arr = np.array(ws, dtype=np.uint64)
        vals, asserted, nan = np_decode(code, arr)
        for i, w in enumerate(ws):
            total += 1
            x = scalar_value(code, w)
            if x == RESERVED:
                ok = not asserted[i]
            elif x == NAN:
                ok = bool(nan[i])
            elif x in (POS_INF, NEG_INF):
                ok = vals[i] == float(x)
            elif code == 'STATUS' and w > 1:
                ok = not asserted[i]
            else:
                d = exact_double(x)
                if d is None and certain_underflow(x):
                    # |x| < 2^-1075: the nearest double is a zero; the vector version asserts 0.0
                    ok = bool(asserted[i]) and not nan[i] and vals[i] == 0.0
                elif d is None:
                    ok = not asserted[i]
                else:
                    ok = bool(asserted[i]) and not nan[i] and Fraction(vals[i].item()) == Fraction(x)
                    if ok and code in ('FSINGL', 'FDOUBL') and x == 0:
                        ok = (double_bits(float(vals[i])) >> 63) == ieee_sign(w, bits)
            if not ok and len(bad) < 10:
                bad.append('%s word %#x: vector %r asserted=%s, exact %s' % (code, w, vals[i].item(), bool(asserted[i]), show_exact(x)))
    return total, bad
