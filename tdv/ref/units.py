"""Exact-rational reference for unit conversion (C17).  Shares no code with TotalDepth.

The documented map (common/units.py docstring, LIS/core/Units.py comment) is

    result = (value - offset_from) * scale_from / scale_to + offset_to

It is evaluated here in ``fractions.Fraction`` on the *exact* rational value of every float involved (the
table entries are floats; a float is a rational).  The tables are read as data:

* OSDD: ``common/data/osdd_units.json`` with the ``json`` module: {code: [code, name, standard_form, dimension,
  scale, offset]}.
* LIS: the literal ``__RAW_UNIT_MAP`` of ``LIS/core/Units.py`` is cut out of the source text with ``ast`` and
  evaluated on its own (it only needs ``math`` and ``MT_UNIT``); no TotalDepth code runs.

Error bound (calibrated in DESIGN.md C17): a conversion performs at most four rounded operations, each
result is within eps/2 of exact relative to its own magnitude, so the result lies within K*eps*M of the
exact value where M is the largest magnitude among the operands, the intermediates and the result; K = 4
(twice the first-order worst case, 4x the largest error seen over all 822 600 calibrated conversions).
"""
import ast
import collections
import json
import math
from fractions import Fraction as Fr

EPS = 2.0 ** -52
K = 4
NORMAL_MIN, NORMAL_MAX = 1e-290, 1e290      # outside this an intermediate may be subnormal / overflow: not asserted


class RefUnit:
    __slots__ = ('code', 'group', 'scale', 'offset', 'fscale', 'foffset', 'has_offset', 'index')

    def __init__(self, code, group, scale, offset, index=0):
        self.code = code
        self.group = group
        self.fscale = scale
        self.foffset = 0.0 if offset is None else offset
        self.scale = Fr(scale)
        self.offset = Fr(0) if offset is None else Fr(offset)
        # "has an offset" as far as the number of operations goes is decided by the caller's flavour
        self.has_offset = offset is not None and offset != 0
        self.index = index

    def __repr__(self):
        return 'RefUnit(%r, %r, scale=%r, offset=%r)' % (self.code, self.group, self.fscale, self.foffset)


def load_osdd(path):
    """-> (units by code, {dimension: [RefUnit, ...] in file order})"""
    with open(path, 'rb') as f:
        raw = json.loads(f.read().decode('utf-8'))
    by_code, by_dim = {}, collections.OrderedDict()
    for i, (key, row) in enumerate(raw.items()):
        code, _name, _std, dim, scale, offset = row
        if code != key:
            raise ValueError('OSDD row key %r != code %r' % (key, code))
        if not (isinstance(scale, float) and isinstance(offset, float) and math.isfinite(scale) and math.isfinite(offset) and scale > 0):
            raise ValueError('OSDD row %r has an unusable scale/offset %r %r' % (key, scale, offset))
        u = RefUnit(code, dim, scale, offset, i)
        by_code[code] = u
        by_dim.setdefault(dim, []).append(u)
    return by_code, by_dim


def load_lis(path):
    """-> (units by name (bytes), {category: [RefUnit, ...]}) from the literal table in LIS/core/Units.py."""
    with open(path, 'rb') as f:
        src = f.read().decode('utf-8')
    tree = ast.parse(src)
    env = {'math': math, '__builtins__': {}}
    node = None
    for n in tree.body:
        if isinstance(n, ast.Assign) and len(n.targets) == 1 and isinstance(n.targets[0], ast.Name):
            name = n.targets[0].id
            if name == 'MT_UNIT' and isinstance(n.value, ast.Constant):
                env['MT_UNIT'] = n.value.value
            elif name == '__RAW_UNIT_MAP':
                node = n.value
                break
    if node is None or 'MT_UNIT' not in env:
        raise ValueError('no __RAW_UNIT_MAP literal in %s' % path)
    raw = eval(compile(ast.Expression(node), '<LIS unit table>', 'eval'), env)  # data literal: numbers, bytes, math.pi
    by_name, by_cat = {}, collections.OrderedDict()
    i = 0
    for cat, (_desc, _base, rows) in raw.items():
        for row in rows:
            if len(row) == 4:
                name, mult, offs = row[0], row[1], None
            elif len(row) == 5:
                name, mult, offs = row[0], row[1], row[2]
            else:
                raise ValueError('LIS unit row of length %d' % len(row))
            if name in by_name:
                raise ValueError('LIS unit %r listed twice' % name)
            u = RefUnit(name, cat, mult, offs, i)
            u.has_offset = offs is not None
            i += 1
            by_name[name] = u
            by_cat.setdefault(cat, []).append(u)
    return by_name, by_cat


class Pair:
    """Exact map for one ordered pair of units; evaluate many values against it."""
    __slots__ = ('a', 'b', 'ratio', 'fratio')

    def __init__(self, a, b):
        self.a, self.b = a, b
        self.ratio = a.scale / b.scale
        self.fratio = a.fscale / b.fscale

    def exact(self, v):
        return (Fr(v) - self.a.offset) * self.ratio + self.b.offset

    def magnitude(self, v, e):
        """Largest magnitude among operands, intermediates and result of (v - oa) * sa / sb + ob (as float)."""
        a, b = self.a, self.b
        t1 = float(Fr(v) - a.offset) if a.foffset else v
        t2 = t1 * a.fscale
        t3 = t1 * self.fratio
        return max(abs(v), abs(a.foffset), abs(t1), abs(t2), abs(t3), abs(b.foffset), abs(float(e)))

    def in_range(self, v, e):
        """All non-zero magnitudes inside the normal double range (else the relative bound does not apply)."""
        a, b = self.a, self.b
        t1 = float(Fr(v) - a.offset)
        for x in (v, t1, t1 * a.fscale, t1 * self.fratio, float(e)):
            ax = abs(x)
            if ax != 0 and not (NORMAL_MIN < ax < NORMAL_MAX):
                return False
        return True


def err_eps(result, exact, mag):
    """|result - exact| in units of eps * mag (float); inf when result is not a finite number."""
    try:
        r = float(result)
    except (TypeError, ValueError):
        return float('inf')
    if not math.isfinite(r):
        return float('inf')
    d = abs(Fr(r) - exact)
    if d == 0:
        return 0.0
    if mag == 0:
        return float('inf')
    return float(d / Fr(mag)) / EPS


def exact_convert(v, a, b):
    return (Fr(v) - a.offset) * a.scale / b.scale + b.offset
