"""Child process: run one shard of one property and pickle the Recorder.

usage: python -m tdv.core.shard <prop> <tier> <seed> <index> <nshards> <params.json> <out.pickle>
"""
import faulthandler
import importlib
import json
import os
import pickle
import random
import sys
import time
import traceback


class Ctx:
    def __init__(self, prop, tier, seed, shard, nshards, rec):
        self.prop = prop
        self.tier = tier
        self.seed = seed
        self.shard = shard
        self.nshards = nshards
        self.rec = rec
        self.rng = random.Random('%s:%s:%s' % (seed, prop, shard))
        self.t0 = time.time()
        self.deadline = None

    def sub_rng(self, *key):
        return random.Random('%s:%s:%s:%s' % (self.seed, self.prop, self.shard, ':'.join(map(str, key))))

    def time_left(self):
        return 1e9 if self.deadline is None else self.deadline - time.time()


def main(argv):
    prop, tier, seed, index, nshards, params_path, out_path = argv
    seed, index, nshards = int(seed), int(index), int(nshards)
    faulthandler.enable()
    from . import env, findings
    from .rec import Recorder
    env.bootstrap_repo()
    mod = importlib.import_module('tdv.props.' + prop.lower())
    if getattr(mod, 'NEEDS', None):
        env.ensure_deps(mod.NEEDS)
    native = getattr(mod, 'NATIVE', 'plain')
    native_info = None
    if native:
        from . import native as nat
        native_info = nat.preseed(native)
    with open(params_path) as f:
        params = json.load(f)
    rec = Recorder(prop, findings.classify)
    rec.note('native_variant', native or 'in-tree')
    ctx = Ctx(prop, tier, seed, index, nshards, rec)
    budget = getattr(mod, 'SOFT_BUDGET_S', {}).get(tier)
    if budget:
        ctx.deadline = ctx.t0 + budget
    from ..mon.hits import MechanismHits
    hits = MechanismHits(getattr(mod, 'MECHANISMS', []))
    if hasattr(mod, 'setup_shard'):
        mod.setup_shard(ctx, params)
    hits.start()
    status = 'ok'
    try:
        mod.run_shard(ctx, params)
    except BaseException as e:  # harness failure: never a verdict on the property
        status = 'harness-error'
        rec.inconclusive_because('shard %d harness error: %s: %s\n%s' % (
            index, type(e).__name__, e, traceback.format_exc()[-2500:]))
    finally:
        hits.stop()
    for lab, n in hits.counts.items():
        rec.mechanism_hits[lab] += n
    for lab in hits.native:
        rec.mechanism_hits.setdefault(lab + ' [native: not countable]', 0)
    if hits.unresolved:
        rec.note('mechanisms_unresolved', hits.unresolved)
    d = rec.dump()
    d['status'] = status
    d['shard'] = index
    d['wall_s'] = time.time() - ctx.t0
    with open(out_path, 'wb') as f:
        pickle.dump(d, f)


if __name__ == '__main__':
    main(sys.argv[1:])
