"""Recorder: what a shard observed.  Pickled to the parent, merged there."""
import collections
import hashlib
import json
import traceback

MAX_UNKNOWN = 40
MAX_KNOWN_PER_FINDING = 3
MAX_SAMPLES = 4


def digest(obj):
    if isinstance(obj, (bytes, bytearray)):
        b = bytes(obj)
    elif isinstance(obj, str):
        b = obj.encode('utf-8', 'surrogatepass')
    else:
        b = json.dumps(obj, sort_keys=True, default=repr).encode('utf-8', 'surrogatepass')
    return int.from_bytes(hashlib.blake2b(b, digest_size=8).digest(), 'big')


def jsonable(o, depth=0):
    """Best-effort conversion of a witness to JSON-safe data."""
    if depth > 8:
        return repr(o)[:200]
    if o is None or isinstance(o, (bool, int, str)):
        return o
    if isinstance(o, float):
        if o != o or o in (float('inf'), float('-inf')):
            return repr(o)
        return o
    if isinstance(o, (bytes, bytearray)):
        return {'hex': bytes(o).hex()} if len(o) <= 4096 else {'hex': bytes(o[:4096]).hex(), 'truncated_from': len(o)}
    if isinstance(o, dict):
        return {str(k): jsonable(v, depth + 1) for k, v in o.items()}
    if isinstance(o, (list, tuple, set, frozenset)):
        seq = list(o)
        if isinstance(o, (set, frozenset)):
            seq = sorted(seq, key=repr)
        out = [jsonable(v, depth + 1) for v in seq[:400]]
        if len(seq) > 400:
            out.append('... %d more' % (len(seq) - 400))
        return out
    try:
        import numpy as np
        if isinstance(o, np.generic):
            return jsonable(o.item(), depth + 1)
        if isinstance(o, np.ndarray):
            return jsonable(o.tolist(), depth + 1)
    except Exception:
        pass
    return repr(o)[:400]


class Recorder:
    def __init__(self, prop, classify=None):
        self.prop = prop
        self._classify = classify
        self.evaluations = 0
        self.all_digests = set()
        self.nontrivial = set()
        self.bulk_evaluations = 0
        self.bulk_distinct = 0
        self.bulk = collections.Counter()
        self.exhaustive = {}
        self.monitors = collections.Counter()
        self.classes = collections.Counter()
        self.mechanism_hits = collections.Counter()
        self.samples = []
        self.unknown = []
        self.unknown_count = 0
        self.known = {}
        self.known_count = collections.Counter()
        self.violation_kinds = collections.Counter()
        self.extra = {}
        self.inconclusive = []

    # ---- cases
    def case(self, key, nontrivial, classes=(), sample=None):
        """One generated case.  key: anything canonical (bytes or JSON-able)."""
        self.evaluations += 1
        d = digest(key)
        self.all_digests.add(d)
        if nontrivial:
            self.nontrivial.add(d)
        for c in classes:
            self.classes[c] += 1
        if sample is not None and len(self.samples) < MAX_SAMPLES:
            self.samples.append(jsonable(sample))
        return d

    def bulk_cases(self, label, evaluations, distinct_nontrivial, exhaustive=None, sample=None):
        """Enumerated sub-space whose members are distinct by construction."""
        self.bulk_evaluations += int(evaluations)
        self.bulk_distinct += int(distinct_nontrivial)
        self.bulk[label] += int(evaluations)
        if exhaustive is not None:
            self.exhaustive[label] = bool(exhaustive) and self.exhaustive.get(label, True)
        if sample is not None and len(self.samples) < MAX_SAMPLES:
            self.samples.append(jsonable(sample))

    def mon(self, name, n=1):
        self.monitors[name] += n

    def cls(self, name, n=1):
        self.classes[name] += n

    def note(self, key, value):
        self.extra[key] = jsonable(value)

    def add(self, key, n=1):
        self.extra[key] = self.extra.get(key, 0) + n

    def maxi(self, key, v):
        self.extra[key] = max(self.extra.get(key, v), v)

    def inconclusive_because(self, reason):
        if len(self.inconclusive) < 20:
            self.inconclusive.append(reason)

    # ---- violations
    def violation(self, monitor, kind, msg, witness=None, exc=None):
        v = {'property': self.prop, 'monitor': monitor, 'kind': kind, 'msg': str(msg)[:1000],
             'witness': jsonable(witness)}
        if exc is not None:
            v['traceback'] = ''.join(traceback.format_exception(type(exc), exc, exc.__traceback__))[-3000:]
            v['exc_type'] = type(exc).__name__
        fid = self._classify(self.prop, v) if self._classify else None
        self.violation_kinds['%s:%s -> %s' % (monitor, kind, fid or 'UNKNOWN')] += 1
        if fid:
            self.known_count[fid] += 1
            lst = self.known.setdefault(fid, [])
            if len(lst) < MAX_KNOWN_PER_FINDING:
                lst.append(v)
        else:
            self.unknown_count += 1
            if len(self.unknown) < MAX_UNKNOWN:
                self.unknown.append(v)
        return fid

    def dump(self):
        d = dict(self.__dict__)
        d.pop('_classify')
        return d


def merge(dumps):
    out = None
    for d in dumps:
        if out is None:
            out = d
            continue
        out['evaluations'] += d['evaluations']
        out['all_digests'] |= d['all_digests']
        out['nontrivial'] |= d['nontrivial']
        out['bulk_evaluations'] += d['bulk_evaluations']
        out['bulk_distinct'] += d['bulk_distinct']
        out['bulk'].update(d['bulk'])
        for k, v in d['exhaustive'].items():
            out['exhaustive'][k] = v and out['exhaustive'].get(k, True)
        out['monitors'].update(d['monitors'])
        out['classes'].update(d['classes'])
        out['mechanism_hits'].update(d['mechanism_hits'])
        out['samples'] = (out['samples'] + d['samples'])[:MAX_SAMPLES + 2]
        out['unknown'] = (out['unknown'] + d['unknown'])[:MAX_UNKNOWN]
        out['unknown_count'] += d['unknown_count']
        for k, v in d['known'].items():
            out['known'].setdefault(k, [])
            out['known'][k] = (out['known'][k] + v)[:MAX_KNOWN_PER_FINDING]
        out['known_count'].update(d['known_count'])
        out['violation_kinds'].update(d.get('violation_kinds', {}))
        for k, v in d['extra'].items():
            if isinstance(v, (int, float)) and isinstance(out['extra'].get(k), (int, float)) and not isinstance(v, bool):
                if k.startswith('max_'):
                    out['extra'][k] = max(out['extra'][k], v)
                elif k.startswith('min_'):
                    out['extra'][k] = min(out['extra'][k], v)
                else:
                    out['extra'][k] += v
            elif isinstance(v, list) and isinstance(out['extra'].get(k), list):
                out['extra'][k] = (out['extra'][k] + v)[:50]
            elif isinstance(v, dict) and isinstance(out['extra'].get(k), dict):
                for kk, vv in v.items():
                    if isinstance(vv, (int, float)) and isinstance(out['extra'][k].get(kk), (int, float)):
                        out['extra'][k][kk] += vv
                    else:
                        out['extra'][k].setdefault(kk, vv)
            else:
                out['extra'].setdefault(k, v)
        out['inconclusive'] = (out['inconclusive'] + d['inconclusive'])[:20]
    return out
