"""Locations, repo bootstrap, lazy offline install of helper wheels."""
import hashlib
import os
import subprocess
import sys

VERIF = os.path.dirname(os.path.dirname(os.path.dirname(os.path.abspath(__file__))))
REPO = os.environ.get('VERIF_REPO', '/repo')
PY = '/venv/bin/python'
WHEELS = '/opt/veriftools/wheels'
DEPS = os.path.join(VERIF, '.deps')
BUILD = os.path.join(VERIF, '.build')
EVIDENCE = os.environ.get('VERIF_EVIDENCE_DIR') or os.path.join(VERIF, 'evidence')
REPLAY = os.environ.get('VERIF_REPLAY_DIR') or os.path.join(VERIF, 'replay')
GUARD = 'TOTALDEPTH_VERIF'


def ensure_deps(pkgs=('icontract',)):
    """Install helper wheels into /verif/.deps (offline).  Idempotent."""
    need = [p for p in pkgs if not os.path.isdir(os.path.join(DEPS, p))]
    if need:
        os.makedirs(DEPS, exist_ok=True)
        subprocess.run([PY, '-m', 'pip', 'install', '-q', '--no-index', '--find-links', WHEELS,
                        '--target', DEPS] + need, check=True, stdout=subprocess.DEVNULL,
                       stderr=subprocess.DEVNULL)
    if DEPS not in sys.path:
        sys.path.append(DEPS)


def bootstrap_repo():
    """Make ``import TotalDepth`` resolve to $VERIF_REPO/src, whatever is installed."""
    src = os.path.join(REPO, 'src')
    if not os.path.isdir(os.path.join(src, 'TotalDepth')):
        raise SystemExit(f'no TotalDepth sources under {src}')
    if sys.path[:1] != [src]:
        sys.path.insert(0, src)
    os.environ[GUARD] = '1'
    for name in list(sys.modules):
        if name == 'TotalDepth' or name.startswith('TotalDepth.'):
            mod = sys.modules[name]
            f = getattr(mod, '__file__', '') or ''
            if not f.startswith(src):
                del sys.modules[name]


def native_src_hash():
    h = hashlib.sha256()
    root = os.path.join(REPO, 'src', 'TotalDepth', 'LIS', 'core', 'src')
    for dp, dn, fn in sorted(os.walk(root)):
        dn.sort()
        for f in sorted(fn):
            if f.endswith(('.pyx', '.cpp', '.h', '.pxd')):
                p = os.path.join(dp, f)
                h.update(p[len(root):].encode())
                with open(p, 'rb') as fh:
                    h.update(fh.read())
    return h.hexdigest()[:16]
