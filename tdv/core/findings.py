"""Known findings: classification of violations *by mechanism*.

known_findings.json entries:
  {"property": "C07", "id": "F4", "status": "known"|"fixed", "what": "...",
   "classifier": "<name in CLASSIFIERS>", "commit": "<sha, for fixed>"}
Only status == "known" suppresses; a "fixed" entry suppresses nothing.
The file is never written at run time.
"""
import json
import os

from . import env

CLASSIFIERS = {}


def classifier(name):
    def deco(fn):
        CLASSIFIERS[name] = fn
        return fn
    return deco


_loaded = None


def load():
    global _loaded
    if _loaded is None:
        p = os.path.join(env.VERIF, 'known_findings.json')
        with open(p) as f:
            _loaded = json.load(f)['findings']
        # fragments written while a check is being developed; merged into known_findings.json by the lead
        d = os.path.join(env.VERIF, 'known_findings.d')
        if os.path.isdir(d):
            for name in sorted(os.listdir(d)):
                if name.endswith('.json'):
                    with open(os.path.join(d, name)) as f:
                        _loaded = _loaded + json.load(f)['findings']
    return _loaded


def classify(prop, v):
    """Return the finding id whose classifier recognises violation v, else None."""
    from . import classifiers  # noqa: F401  (registers)
    import importlib
    try:
        importlib.import_module('tdv.props.' + prop.lower())
    except Exception:
        pass
    for e in load():
        if e.get('status') != 'known' or e['property'] != prop:
            continue
        fn = CLASSIFIERS.get(e['classifier'])
        if fn is None:
            continue
        try:
            if fn(v):
                return e['id']
        except Exception:
            continue
    return None


def entry(prop, fid):
    for e in load():
        if e['property'] == prop and e['id'] == fid:
            return e
    return None
