"""Classifiers for known findings.  Each decides from the witness of a violation whether it is an
instance of the recorded *mechanism*; never from a seed, hash or case number."""
from .findings import classifier  # noqa: F401
