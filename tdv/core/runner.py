"""Parent: fan a property out over shard subprocesses, merge, decide, write evidence."""
import argparse
import importlib
import json
import os
import pickle
import shutil
import subprocess
import sys
import tempfile
import time

from . import env, findings
from .rec import merge, jsonable

EXIT_HELD, EXIT_VIOLATION, EXIT_INCONCLUSIVE = 0, 1, 2
DEFAULT_TIMEOUT = {'quick': 420, 'thorough': 3600}


def _spawn(prop, tier, seed, i, n, params, tmp, extra_env):
    pp = os.path.join(tmp, 'p%d.json' % i)
    op = os.path.join(tmp, 'o%d.pickle' % i)
    lp = os.path.join(tmp, 'l%d.log' % i)
    with open(pp, 'w') as f:
        json.dump(params, f)
    e = dict(os.environ)
    e.update({'PYTHONHASHSEED': '0', 'PYTHONPATH': env.VERIF, 'VERIF_REPO': env.REPO,
              'VERIF_SHARD_TMP': os.path.join(tmp, 's%d' % i), env.GUARD: '1',
              'PYTHONDONTWRITEBYTECODE': '1'})
    e.update(extra_env or {})
    os.makedirs(e['VERIF_SHARD_TMP'], exist_ok=True)
    log = open(lp, 'wb')
    p = subprocess.Popen([env.PY, '-m', 'tdv.core.shard', prop, tier, str(seed), str(i), str(n), pp, op],
                         cwd=env.VERIF, env=e, stdout=log, stderr=subprocess.STDOUT)
    return {'p': p, 'i': i, 'out': op, 'log': lp, 'logf': log, 't0': time.time(), 'params': params}


def run_property(prop, tier, seed, jobs=16, replay=None, keep_tmp=False):
    t0 = time.time()
    prop = prop.upper()
    env.bootstrap_repo()
    mod = importlib.import_module('tdv.props.' + prop.lower())
    env.ensure_deps(getattr(mod, 'NEEDS', ()) or ('icontract',))
    native = getattr(mod, 'NATIVE', 'plain')
    extra_env = {}
    if native:
        from . import native as nat
        nat.build(native)  # build once in the parent so that children only load
        if native == 'asan':
            extra_env['LD_PRELOAD'] = nat.asan_runtime()
    if replay:
        with open(replay) as f:
            rp = json.load(f)
        plan = [dict(rp['params'], _replay=rp.get('violation'))]
        seed = rp.get('seed', seed)
        tier = rp.get('tier', tier)
        replay_index, replay_n = rp.get('shard') or 0, rp.get('nshards') or 1
    else:
        plan = mod.plan(tier, seed)
    n = len(plan)
    if replay:
        n = max(replay_n, replay_index + 1)
    scratch_root = os.environ.get('VERIF_SCRATCH') or None
    tmp = tempfile.mkdtemp(prefix='tdv-%s-' % prop, dir=scratch_root)
    timeout = getattr(mod, 'TIMEOUT_S', DEFAULT_TIMEOUT).get(tier, DEFAULT_TIMEOUT[tier])
    if hasattr(mod, 'extra_env'):
        extra_env.update(mod.extra_env(tier, tmp) or {})
    pending = list(enumerate(plan)) if not replay else [(replay_index, plan[0])]
    running, dumps, problems = [], [], []
    try:
        while pending or running:
            while pending and len(running) < jobs:
                i, params = pending.pop(0)
                running.append(_spawn(prop, tier, seed, i, n, params, tmp, extra_env))
            time.sleep(0.05)
            for r in list(running):
                rc = r['p'].poll()
                if rc is None:
                    if time.time() - r['t0'] > timeout:
                        r['p'].kill()
                        r['p'].wait()
                        problems.append('shard %d hit the wall-clock watchdog (%ds)' % (r['i'], timeout))
                        running.remove(r)
                        r['logf'].close()
                    continue
                running.remove(r)
                r['logf'].close()
                if os.path.exists(r['out']):
                    with open(r['out'], 'rb') as f:
                        d = pickle.load(f)
                    d['_params'] = r['params']
                    dumps.append(d)
                else:
                    with open(r['log'], 'rb') as f:
                        tail = f.read()[-3000:].decode('utf-8', 'replace')
                    problems.append('shard %d died rc=%s: %s' % (r['i'], rc, tail))
        post = None
        if hasattr(mod, 'post_run'):
            post = mod.post_run(tier, tmp, dumps)
    finally:
        for r in running:
            r['p'].kill()
        if not keep_tmp:
            shutil.rmtree(tmp, ignore_errors=True)
    return decide(mod, prop, tier, seed, dumps, problems, time.time() - t0, post, replay=bool(replay))


def decide(mod, prop, tier, seed, dumps, problems, wall, post=None, replay=False):
    shard_params = {d['shard']: d.pop('_params', None) for d in dumps}
    shard_of_unknown = []
    for d in dumps:
        for v in d['unknown']:
            v['_shard'] = d['shard']
    m = merge(dumps) if dumps else None
    lines = []
    if m is None:
        problems.append('no shard produced a result')
        m = {'evaluations': 0, 'all_digests': set(), 'nontrivial': set(), 'bulk_evaluations': 0, 'bulk_distinct': 0,
             'bulk': {}, 'exhaustive': {}, 'monitors': {}, 'classes': {}, 'mechanism_hits': {}, 'samples': [],
             'unknown': [], 'unknown_count': 0, 'known': {}, 'known_count': {}, 'violation_kinds': {}, 'extra': {}, 'inconclusive': []}
    if post:
        for k, v in (post.get('monitors') or {}).items():
            m['monitors'][k] = m['monitors'].get(k, 0) + v
        for v in post.get('violations') or []:
            fid = findings.classify(prop, v)
            if fid:
                m['known_count'][fid] = m['known_count'].get(fid, 0) + 1
                m['known'].setdefault(fid, []).append(v)
            else:
                m['unknown_count'] += 1
                m['unknown'].append(v)
        m['extra'].update(post.get('extra') or {})
        problems.extend(post.get('inconclusive') or [])
    problems.extend(m['inconclusive'])
    evaluations = m['evaluations'] + m['bulk_evaluations']
    distinct_nt = len(m['nontrivial']) + m['bulk_distinct']
    # --- inconclusive conditions
    for name in getattr(mod, 'REQUIRED_MONITORS', []):
        if m['monitors'].get(name, 0) <= 0:
            problems.append('deciding monitor %r recorded zero evaluations' % name)
    optional = set(getattr(mod, 'OPTIONAL_MECHANISMS', []))
    for lab, cnt in m['mechanism_hits'].items():
        if cnt <= 0 and 'native' not in lab and lab not in optional:
            problems.append('anchored mechanism %s was never entered' % lab)
    if m['extra'].get('mechanisms_unresolved'):
        problems.append('anchored mechanisms not found in the tree: %s' % m['extra']['mechanisms_unresolved'])
    need = getattr(mod, 'MIN_NONTRIVIAL', {}).get(tier, 2)
    if replay:
        need = 0      # one shard of the original run: the volume conditions belong to the full run
    if distinct_nt < need:
        problems.append('only %d distinct non-trivial cases (minimum %d)' % (distinct_nt, need))
    # --- verdict
    violations = m['unknown_count']
    replay_paths = []
    if violations:
        os.makedirs(env.REPLAY, exist_ok=True)
        for k, v in enumerate(m['unknown'][:10]):
            path = os.path.join(env.REPLAY, '%s-%s-s%d-%d.json' % (prop, tier, seed, k))
            sh = v.pop('_shard', None)
            with open(path, 'w') as f:
                json.dump({'property': prop, 'tier': tier, 'seed': seed, 'shard': sh, 'nshards': len(shard_params),
                           'params': shard_params.get(sh), 'violation': v}, f, indent=1, default=repr)
            replay_paths.append(path)
            lines.append('VIOLATION property=%s replay=%s' % (prop, path))
            lines.append('  monitor=%s kind=%s: %s' % (v['monitor'], v['kind'], v['msg'][:300]))
    for fid, cnt in sorted(m['known_count'].items()):
        e = findings.entry(prop, fid) or {}
        lines.append('KNOWN-FINDING: property=%s %s %s (%d instances this run)' % (prop, fid, e.get('what', ''), cnt))
    if violations:
        code, verdict = EXIT_VIOLATION, 'violated'
    elif problems:
        code, verdict = EXIT_INCONCLUSIVE, 'inconclusive'
        lines.append('INCONCLUSIVE property=%s reason=%s' % (prop, ' | '.join(p[:600] for p in problems[:6])))
    else:
        code, verdict = EXIT_HELD, 'held-on-observed'
    # --- evidence
    cov = {
        'evaluations': evaluations,
        'distinct_nontrivial': distinct_nt,
        'distinct_cases': len(m['all_digests']) + m['bulk_distinct'],
        'rule': getattr(mod, 'RULE', ''),
        'samples': m['samples'] or ['(none recorded)'],
        'monitors': dict(m['monitors']),
        'mechanism_hits': dict(m['mechanism_hits']),
        'classes': dict(sorted(m['classes'].items())),
        'enumerated_subspaces': dict(m['bulk']),
        'exhaustive_subspaces': dict(m['exhaustive']),
        'known_findings_seen': dict(m['known_count']),
        'violation_kinds': dict(m.get('violation_kinds', {})),
        'known_finding_witnesses': {k: v[:1] for k, v in m['known'].items()},
        'verdict': verdict,
        'inconclusive_reasons': problems[:10],
        'shards': len(dumps),
        'native_modules': ('rebuilt from tree sources, hash %s' % env.native_src_hash()) if getattr(mod, 'NATIVE', 'plain') else 'not loaded by this check',
        'repo': env.REPO,
    }
    if m['exhaustive'] and all(m['exhaustive'].values()) and getattr(mod, 'EXHAUSTIVE_WHEN_ALL_BULK', False):
        cov['exhaustive'] = True
    cov.update({k: v for k, v in m['extra'].items() if k not in cov})
    ev = {
        'property_id': prop, 'tier': tier, 'seed': int(seed), 'level': 'exploration',
        'coverage': jsonable(cov), 'assumptions': list(getattr(mod, 'ASSUMPTIONS', [])),
        'wall_s': round(wall, 2), 'violations': int(violations),
    }
    os.makedirs(env.EVIDENCE, exist_ok=True)
    with open(os.path.join(env.EVIDENCE, '%s.json' % prop), 'w') as f:
        json.dump(ev, f, indent=1, sort_keys=True, default=repr)
    lines.append('%s %s tier=%s seed=%s: %s; %d evaluations, %d distinct non-trivial, %.1fs' % (
        prop, getattr(mod, 'TITLE', ''), tier, seed, verdict, evaluations, distinct_nt, wall))
    return code, lines


def setup():
    env.ensure_deps(('icontract',))
    env.bootstrap_repo()
    from . import native as nat
    for v in ('plain', 'asan'):
        print('native %s -> %s' % (v, nat.build(v)))
    try:
        env.ensure_deps(('atheris',))
    except Exception as e:  # optional
        print('atheris not installed: %s' % e)
    return 0


def main(argv=None):
    if (argv or sys.argv[1:])[:1] == ['setup']:
        return setup()
    ap = argparse.ArgumentParser(prog='check')
    ap.add_argument('property')
    ap.add_argument('--tier', default=os.environ.get('VERIF_TIER', 'quick'), choices=['quick', 'thorough'])
    ap.add_argument('--seed', type=int, default=None)
    ap.add_argument('--jobs', type=int, default=int(os.environ.get('VERIF_JOBS', '16')))
    ap.add_argument('--replay', default=None)
    ap.add_argument('--keep-tmp', action='store_true')
    a = ap.parse_args(argv)
    seed = a.seed
    if seed is None:
        try:
            seed = int(os.environ.get('VERIF_SEED', '0'))
        except ValueError:
            seed = 0
    code, lines = run_property(a.property, a.tier, seed, a.jobs, a.replay, a.keep_tmp)
    for ln in lines:
        print(ln)
    sys.stdout.flush()
    return code
