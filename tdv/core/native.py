"""Rebuild the three native modules from the *current* tree and pre-seed sys.modules.

Build products are cached by a hash of the native sources under /verif/.build/<hash>/<variant>/.
Variants: 'plain' (gcc -O2) and 'asan' (clang, -fsanitize=address,undefined).
"""
import importlib.machinery
import importlib.util
import os
import shutil
import subprocess
import sys
import sysconfig
import fcntl

from . import env

MODS = ('cRepCode', 'cFrameSet', 'cpRepCode')
SUFFIX = sysconfig.get_config_var('EXT_SUFFIX')
SAN = ['-fsanitize=address,undefined', '-fno-omit-frame-pointer', '-O1', '-g']


def _run(cmd, cwd=None):
    r = subprocess.run(cmd, cwd=cwd, stdout=subprocess.PIPE, stderr=subprocess.STDOUT, text=True)
    if r.returncode != 0:
        raise RuntimeError('native build failed: %s\n%s' % (' '.join(cmd), r.stdout[-4000:]))
    return r.stdout


def build_dir(variant):
    return os.path.join(env.BUILD, env.native_src_hash(), variant)


def asan_runtime():
    return subprocess.run(['clang', '-print-file-name=libclang_rt.asan-x86_64.so'],
                          stdout=subprocess.PIPE, text=True).stdout.strip()


def build(variant='plain'):
    """Build (if not cached) and return the directory with the three .so files."""
    out = build_dir(variant)
    done = os.path.join(out, '.done')
    if os.path.exists(done):
        return out
    os.makedirs(out, exist_ok=True)
    with open(os.path.join(out, '.lock'), 'w') as lk:
        fcntl.flock(lk, fcntl.LOCK_EX)
        if os.path.exists(done):
            return out
        src = os.path.join(env.REPO, 'src', 'TotalDepth', 'LIS', 'core', 'src')
        inc = sysconfig.get_paths()['include']
        if variant == 'asan':
            cc, cxx, flags = 'clang', 'clang++', SAN
        else:
            cc, cxx, flags = 'gcc', 'g++', ['-O2']
        common = ['-shared', '-fPIC', '-I' + inc, '-w'] + flags
        for m in ('cRepCode', 'cFrameSet'):
            pyx = os.path.join(src, 'cython', m + '.pyx')
            c = os.path.join(out, m + '.c')
            shutil.copy(pyx, os.path.join(out, m + '.pyx'))
            _run([env.PY, '-m', 'cython', '-3', '--module-name', 'TotalDepth.LIS.core.' + m,
                  os.path.join(out, m + '.pyx'), '-o', c])
            _run([cc] + common + [c, '-o', os.path.join(out, m + SUFFIX)])
        _run([cxx] + common + ['-std=c++14', '-I' + os.path.join(src, 'cp'), '-I' + os.path.join(src, 'cpp'),
                               os.path.join(src, 'cp', 'cpLISRepCode.cpp'),
                               os.path.join(src, 'cpp', 'LISRepCode.cpp'),
                               '-o', os.path.join(out, 'cpRepCode' + SUFFIX)])
        open(done, 'w').close()
    return out


def preseed(variant='plain'):
    """Load the rebuilt modules under their package-qualified names before TotalDepth.LIS imports them."""
    out = build(variant)
    import TotalDepth.LIS.core  # package only; does not import RepCode
    loaded = {}
    for m in MODS:
        name = 'TotalDepth.LIS.core.' + m
        path = os.path.join(out, m + SUFFIX)
        loader = importlib.machinery.ExtensionFileLoader(name, path)
        spec = importlib.util.spec_from_file_location(name, path, loader=loader)
        mod = importlib.util.module_from_spec(spec)
        spec.loader.exec_module(mod)
        sys.modules[name] = mod
        setattr(sys.modules['TotalDepth.LIS.core'], m, mod)
        loaded[m] = path
    return loaded
