"""DAT mud-log text generator: a line model, its strict evaluation (the expected channels and values) and single-line
corruptions.  Shares no code with TotalDepth; values are computed with Fraction / datetime arithmetic.

Format (informal, as found in the wild)
---------------------------------------
section 1   declarations   NAME <ws> free text description <ws> UNITS        NAME is [A-Z0-9]+, UNITS one word
section 2   header         UTIM <ws> DATE <ws> TIME <ws> other declared names (at least one)
section 3   data rows      one token per header name; UTIM = integer seconds since 1970-01-01 UTC, DATE = 09Dec06 or
                           09-Dec-06 (two digit year), TIME = 11-50-17, everything else a decimal number
A column is a time column only when the channel is declared as (UTIM, sec), (DATE, ddmmyy) or (TIME, hhmmss);
any other (name, units) is numeric.

API
---
generate(rng, **opts) -> (text, DatModel)              random well-formed file;  opts: see random_model
random_model(rng, n_decl=(4, 30), n_rows=(0, 50), ...) -> DatModel
DatModel.text() -> str ; DatModel.bytes() -> bytes ; DatModel.columns() -> [Column] (raises Malformed) ; DatModel.lines -> [Line] ; .copy()
Column: name, desc_words, units, kind ('utim'|'date'|'time'|'float'), values (datetime / date / time / float)
corrupt(rng, model, kind=None) -> Corruption | None     kind in CORRUPTIONS (None: a random applicable one)
Corruption: kind, text, model (the corrupted line model), expect ('raise' | 'model' | 'either'), columns (expected
            columns when expect != 'raise'), where ('decl' | 'header' | 'row'), row (data row index or None),
            first_row_affected (bool), detail (dict: token, column kind, ...)
number_value / utim_value / date_value / time_value (token) -> value, raise Malformed on anything outside the strict grammar
"""
import datetime
import re
from fractions import Fraction

MONTHS = ['Jan', 'Feb', 'Mar', 'Apr', 'May', 'Jun', 'Jul', 'Aug', 'Sep', 'Oct', 'Nov', 'Dec']
TIME_KINDS = {('UTIM', 'sec'): 'utim', ('DATE', 'ddmmyy'): 'date', ('TIME', 'hhmmss'): 'time'}
EPOCH = datetime.datetime(1970, 1, 1)
UTIM_MAX = 2 ** 31 - 1          # generated well-formed UTIM stay in 1970..2038

DESC_WORDS = ['Bit', 'Diameter', 'Measured', 'Depth', 'Hole', 'Vertical', 'Pulling', 'Speed', 'Swab', 'Pressure', 'Gradient',
              'ROP', 'Block', 'Position', 'Hookload', 'Weight', 'on', 'Torque', 'String', 'RPM', 'Rotation', 'Time', 'Total',
              'Revolutions', 'Pump', 'Flow', 'Out', 'In', 'Fluid', 'Density', 'Tank', 'Volume', 'Active', 'Mud', 'Temp',
              'ECD', 'at', 'TD', 'Gas', 'Methane', 'iso-Butane', 'n-Pentane', '(avg)', 'Eff.', 'Circ', '#2', 'H2S', 'C1/C2', '%']
UNITS = ['m', 'm/hr', 'm/sec', 'g/cc', 'unitless', '%', 'ppm', 'degC', 'l/min', 'kNm', 'tons', 'bar', 'rpm', 'hr', 'm3', 'inch',
         'sec', 'ddmmyy', 'hhmmss', 'kPa/m', '1/min']
RE_NUMBER = re.compile(r'^([+-]?)(\d*)(?:\.(\d*))?(?:[eE]([+-]?\d{1,3}))?$')
RE_UTIM = re.compile(r'^\d{1,18}$')
RE_DATE_A = re.compile(r'^(\d{1,2})([A-Z][a-z]{2})(\d{2})$')
RE_DATE_B = re.compile(r'^(\d{1,2})-([A-Z][a-z]{2})-(\d{2})$')
RE_TIME = re.compile(r'^(\d{2})-(\d{2})-(\d{2})$')
RE_NAME = re.compile(r'^[A-Z0-9]+$')


class Malformed(Exception):
    """The text is not a well-formed DAT file under the strict grammar of this module."""


# ---------------------------------------------------------------------------------------------- token values
def number_value(tok):
    m = RE_NUMBER.match(tok)
    if not m or not (m.group(2) or m.group(3)):
        raise Malformed('number %r' % tok)
    digits = (m.group(2) or '') + (m.group(3) or '')
    v = Fraction(int(digits), 10 ** len(m.group(3) or ''))
    if m.group(4):
        e = int(m.group(4))
        if abs(e) > 300:
            raise Malformed('number %r' % tok)
        v *= Fraction(10) ** e
    if m.group(1) == '-':
        v = -v
    if abs(v) >= Fraction(10) ** 300:
        raise Malformed('number %r' % tok)
    return float(v)          # correctly rounded


def utim_value(tok):
    if not RE_UTIM.match(tok):
        raise Malformed('utim %r' % tok)
    try:
        return EPOCH + datetime.timedelta(seconds=int(tok))
    except OverflowError:
        raise Malformed('utim %r' % tok)


def date_value(tok):
    m = RE_DATE_A.match(tok) or RE_DATE_B.match(tok)
    if not m or m.group(2) not in MONTHS:
        raise Malformed('date %r' % tok)
    yy = int(m.group(3))
    if 39 <= yy <= 69:
        raise Malformed('date %r: two digit year outside 1970..2038' % tok)
    try:
        return datetime.date(1900 + yy if yy >= 70 else 2000 + yy, MONTHS.index(m.group(2)) + 1, int(m.group(1)))
    except ValueError:
        raise Malformed('date %r' % tok)


def time_value(tok):
    m = RE_TIME.match(tok)
    if not m:
        raise Malformed('time %r' % tok)
    try:
        return datetime.time(int(m.group(1)), int(m.group(2)), int(m.group(3)))
    except ValueError:
        raise Malformed('time %r' % tok)


VALUE_FN = {'utim': utim_value, 'date': date_value, 'time': time_value, 'float': number_value}


# ---------------------------------------------------------------------------------------------- line model
class Line:
    """kind: 'decl' (tokens = name, description words..., units), 'header', 'row', 'raw' (tokens = [text])."""
    __slots__ = ('kind', 'tokens', 'seps', 'lead', 'trail')

    def __init__(self, kind, tokens, seps=None, lead='', trail=''):
        self.kind, self.tokens = kind, list(tokens)
        self.seps = list(seps) if seps is not None else [' '] * (len(self.tokens) - 1)
        self.lead, self.trail = lead, trail

    def copy(self):
        return Line(self.kind, self.tokens, self.seps, self.lead, self.trail)

    def text(self):
        seps = (self.seps + [' '] * len(self.tokens))[:max(0, len(self.tokens) - 1)]
        out = [self.lead]
        for i, t in enumerate(self.tokens):
            out.append(t)
            if i < len(seps):
                out.append(seps[i])
        out.append(self.trail)
        return ''.join(out)


class Column:
    __slots__ = ('name', 'desc_words', 'units', 'kind', 'values')

    def __init__(self, name, desc_words, units, kind, values):
        self.name, self.desc_words, self.units, self.kind, self.values = name, desc_words, units, kind, values

    def key(self):
        return (self.name, tuple(self.desc_words), self.units, self.kind, tuple(repr(v) for v in self.values))


class DatModel:
    def __init__(self, lines, final_newline=True, eol='\n'):
        self.lines = list(lines)
        self.final_newline = final_newline
        self.eol = eol                  # line terminator: '\n' or '\r\n' (not part of the content)

    def copy(self):
        return DatModel([ln.copy() for ln in self.lines], self.final_newline, self.eol)

    def text(self):
        s = self.eol.join(ln.text() for ln in self.lines)
        return s + self.eol if self.final_newline and self.lines else s

    def bytes(self):
        """The text as ASCII bytes (for binary file-type detection)."""
        return self.text().encode('ascii')

    def index_of(self, kind):
        return [i for i, ln in enumerate(self.lines) if ln.kind == kind]

    @property
    def header_index(self):
        return self.index_of('header')[0]

    @property
    def header(self):
        return self.lines[self.header_index].tokens

    @property
    def rows(self):
        return [ln.tokens for ln in self.lines if ln.kind == 'row']

    @property
    def declared(self):
        return [(ln.tokens[0], ln.tokens[1:-1], ln.tokens[-1]) for ln in self.lines if ln.kind == 'decl']

    def columns(self):
        """Strict evaluation of the lines (from their text): the expected channels in header order with their values."""
        declared = {}
        cols = None
        for ln in self.lines:
            toks = ln.text().split()
            if cols is None:
                if toks[:3] == ['UTIM', 'DATE', 'TIME'] and len(toks) > 3:
                    cols = []
                    for name in toks:
                        if name not in declared:
                            raise Malformed('undeclared channel %r in the header' % name)
                        if any(c.name == name for c in cols):
                            raise Malformed('duplicate channel %r in the header' % name)
                        desc, units = declared[name]
                        cols.append(Column(name, desc, units, TIME_KINDS.get((name, units), 'float'), []))
                else:
                    if len(toks) < 3 or not RE_NAME.match(toks[0]):
                        raise Malformed('not a declaration: %r' % ln.text())
                    if toks[0] in declared:
                        raise Malformed('channel %r declared twice' % toks[0])
                    declared[toks[0]] = (toks[1:-1], toks[-1])
            else:
                if len(toks) != len(cols):
                    raise Malformed('row of %d values for %d channels' % (len(toks), len(cols)))
                for c, t in zip(cols, toks):
                    c.values.append(VALUE_FN[c.kind](t))
        if cols is None:
            raise Malformed('no header line')
        return cols

    def nontrivial(self):
        """>= 1 data row and a header whose other channels are a proper subset of the declared ones in a different order."""
        others = self.header[3:]
        decl_order = [n for n, _, _ in self.declared if n not in ('UTIM', 'DATE', 'TIME')]
        same_order = [n for n in decl_order if n in others] == others
        return bool(self.rows) and len(others) < len(decl_order) and not same_order


# ---------------------------------------------------------------------------------------------- random content
def _sep(rng):
    r = rng.random()
    return ' ' if r < 0.6 else '\t' if r < 0.8 else rng.choice(['  ', '   ', ' \t', '\t\t', '\t '])


def _seps(rng, n, style):
    if style == 'space':
        return [' '] * n
    if style == 'tab':
        return ['\t'] * n
    return [_sep(rng) for _ in range(n)]


def random_name(rng, taken, wide=False):
    """wide: the whole [A-Z0-9]+ name space - one to eight characters, digits anywhere (also first), names that extend
    or abbreviate the three time names (UTIM2, DATE1, TIM, TIMES).  At least one letter (an all-digit name reads like a number)."""
    while True:
        if wide and rng.random() < 0.5:
            r = rng.random()
            if r < 0.2:
                n = rng.choice(['UTIM', 'DATE', 'TIME']) + rng.choice(['2', '1', 'S', 'X', '0'])
            elif r < 0.3:
                n = rng.choice(['UTI', 'DAT', 'TIM', 'T', 'D', 'U', 'TIMEUTIM', 'DATETIME'])
            else:
                k = rng.choice([1, 1, 2, 3, 6, 7, 8])
                n = ''.join(rng.choice('ABCDEFGHIJKLMNOPQRSTUVWXYZ0123456789') for _ in range(k))
                if not any(c.isalpha() for c in n):
                    continue
        else:
            k = rng.choice([2, 3, 3, 4, 4, 4, 5])
            n = ''.join(rng.choice('ABCDEFGHIJKLMNOPQRSTUVWXYZ') for _ in range(k))
            if rng.random() < 0.15:
                n = n[:-1] + rng.choice('0123456789')
        if n not in taken and n not in ('UTIM', 'DATE', 'TIME'):
            return n


def random_number_token(rng):
    r = rng.random()
    if r < 0.04:
        # the numbers other formats reserve for "absent": in a DAT file they are numbers like any other
        return rng.choice(['-999.25', '-999.250', '-999.2500', '-999', '-9999', '-999.0', '-9999.25', '-32768', '1e30', '-1e30'])
    if r < 0.2:
        return str(rng.choice([0, 0, 1, rng.randrange(0, 100000)]))
    if r < 0.75:
        return '%.*f' % (rng.randrange(1, 7), rng.uniform(-1, 1) * 10 ** rng.randrange(0, 7))
    if r < 0.85:
        return '%.*e' % (rng.randrange(0, 9), rng.uniform(-10, 10) * 10.0 ** rng.randrange(-30, 30))
    if r < 0.9:
        return '%.*E' % (rng.randrange(0, 5), rng.uniform(-10, 10))
    if r < 0.94:
        return '+%.3f' % rng.uniform(0, 500)
    if r < 0.97:
        return '.%d' % rng.randrange(0, 1000)
    return '%d.' % rng.randrange(-999, 1000)


def date_token(d, style, pad):
    day = '%02d' % d.day if pad else '%d' % d.day
    j = '-' if style == 'B' else ''
    return day + j + MONTHS[d.month - 1] + j + '%02d' % (d.year % 100)


def time_token(t):
    return '%02d-%02d-%02d' % (t.hour, t.minute, t.second)


WIDE_UNITS = ['SEC', 'Sec', 'DDMMYY', 'HHMMSS', 'sec.', 'secs', '1', 'M3', 'UTIM', 'm/s2', 'ddmmyy.', '-', '%vol', 'DATE']
WIDE_TRAILS = [' ', '  ', '\t', ' \t', '   ']


def _trail(rng, p, wide):
    if rng.random() >= p * (2 if wide else 1):
        return ''
    return rng.choice(WIDE_TRAILS) if wide else ' '


def random_model(rng, n_decl=(4, 30), n_rows=(0, 50), sep_style=None, date_style=None, time_like_channels=True, wide=False):
    """A well-formed random file.  n_decl includes UTIM, DATE, TIME (so >= 4).
    wide (used by C14): the wider name space of random_name, more one-word units (upper-case spellings of the time units,
    numeric-looking units), any run of blanks/tabs at the end of a line, and CRLF line ends for some files."""
    sep_style = sep_style or rng.choice(['space', 'space', 'tab', 'mixed', 'mixed'])
    nd = max(4, rng.randrange(n_decl[0], n_decl[1] + 1))
    decl = [('UTIM', ['Unix', 'Time'], 'sec'), ('DATE', ['Date'], 'ddmmyy'), ('TIME', ['Time'], 'hhmmss')]
    if rng.random() < 0.3:
        decl[0] = ('UTIM', rng.choice([['Unix', 'time', 'stamp'], ['UTC'], ['Time', '(Unix)']]), 'sec')
    taken = set()
    others = []
    for _ in range(nd - 3):
        name = random_name(rng, taken, wide)
        taken.add(name)
        desc = [rng.choice(DESC_WORDS) for _ in range(rng.choice([1, 1, 2, 2, 3, 4, 6]))]
        units = rng.choice(UNITS)
        if wide and rng.random() < 0.12:
            units = rng.choice(WIDE_UNITS)
        if not time_like_channels and units in ('sec', 'ddmmyy', 'hhmmss'):
            units = 'm'
        others.append((name, desc, units))
    decl += others
    if rng.random() < 0.8:
        rng.shuffle(decl)
    lines = []
    for name, desc, units in decl:
        toks = [name] + desc + [units]
        lines.append(Line('decl', toks, _seps(rng, len(toks) - 1, sep_style), trail=_trail(rng, 0.05, wide)))
    # header: non-empty subset of the other channels in any order
    k = rng.choice([1, len(others), rng.randrange(1, len(others) + 1), rng.randrange(1, len(others) + 1)])
    chosen = rng.sample(others, k)
    if rng.random() < 0.25:
        chosen = [o for o in others if o in chosen]        # declaration order
    header = ['UTIM', 'DATE', 'TIME'] + [c[0] for c in chosen]
    lines.append(Line('header', header, _seps(rng, len(header) - 1, sep_style), trail=_trail(rng, 0.05, wide) if wide else ''))
    nrows = rng.choice([0, 1, 2, rng.randrange(n_rows[0], n_rows[1] + 1), rng.randrange(n_rows[0], n_rows[1] + 1)])
    nrows = min(max(nrows, n_rows[0]), n_rows[1])
    style = date_style or rng.choice(['A', 'B', 'mixed'])
    pad = rng.random() < 0.7
    t0 = rng.randrange(0, UTIM_MAX - 10 ** 6) if rng.random() < 0.9 else rng.choice([0, 1, 86400])
    # a counter / second time stamp channel: a numeric column whose cell texts also occur in the UTIM column of this file
    mirror = rng.randrange(len(chosen)) if (chosen and rng.random() < 0.12) else None
    step = rng.choice([1, 5, 10, 60, rng.randrange(1, 5000)])
    for r in range(nrows):
        ut = t0 + r * step
        if rng.random() < 0.8:
            dt = EPOCH + datetime.timedelta(seconds=ut)
            d, t = dt.date(), dt.time()
        else:
            d = datetime.date(1970, 1, 1) + datetime.timedelta(days=rng.randrange(0, 25000))
            t = datetime.time(rng.randrange(24), rng.randrange(60), rng.randrange(60))
        st = style if style != 'mixed' else rng.choice(['A', 'B'])
        toks = [str(ut), date_token(d, st, pad if style != 'mixed' else rng.random() < 0.5), time_token(t)]
        toks += [random_number_token(rng) for _ in chosen]
        if mirror is not None and nrows:
            toks[3 + mirror] = str(t0 + rng.randrange(nrows) * step)
        lines.append(Line('row', toks, _seps(rng, len(toks) - 1, sep_style), trail=_trail(rng, 0.03, wide)))
    final_newline = rng.random() < 0.9
    eol = '\r\n' if (wide and rng.random() < 0.15) else '\n'
    return DatModel(lines, final_newline=final_newline, eol=eol)


def generate(rng, **opts):
    m = random_model(rng, **opts)
    return m.text(), m


# ---------------------------------------------------------------------------------------------- corruptions
class Corruption:
    def __init__(self, kind, model, expect, where, row=None, first_row_affected=False, detail=None, alt=None):
        self.kind, self.model, self.expect, self.where, self.row = kind, model, expect, where, row
        self.first_row_affected = first_row_affected
        self.detail = detail or {}
        self.text = model.text()
        self.columns = None
        if expect not in ('raise', 'model', 'either'):
            raise ValueError(expect)
        try:
            cols = model.columns()
        except Malformed as e:
            if expect == 'model':
                raise AssertionError('generator: corruption %s promised a well-formed file: %s' % (kind, e))
            self.strict = 'malformed: %s' % e
        else:
            self.strict = 'well-formed'
            if expect == 'raise':
                raise AssertionError('generator: corruption %s produced a well-formed file' % kind)
            self.columns = cols
        if expect == 'either':
            # the acceptable parse when a reader tolerates the corruption
            self.columns = alt.columns()


NON_NUMERIC = ['abc', '--', '1.2.3', '12:30', '1,5', '#N/A', 'NULL', '0x1F', '1e', 'e5', '-', '3..4', '1.5f', '12-50-17', '09Dec06', '$5']
BAD_DATES = ['09Dex06', '09/12/06', '2006-12-09', 'Dec0906', '9Dec', 'Dec06', '09DEC06', '09dec06', '09-Dec06', '09Dec-06', '09--Dec--06',
             '1165665017', '11-50-17', '9.Dec.06', 'xxDec06', '09Decyy', '']
RANGE_DATES = ['32Jan06', '31Apr06', '29Feb07', '00Mar06', '30-Feb-04', '31-Jun-99', '0Dec06', '99Dec06', '31Sep00']
HUGE_DATES = ['99999999999999999999Dec06', '09Dec99999999999999999999', '4294967296-Jan-06', '09-Dec-9223372036854775808',
              '2147483648Mar01', '1Jan18446744073709551616']
BAD_TIMES = ['11:50:17', '115017', 'ab-cd-ef', '11-50', '11-50-17-03', '11-50-17.5', '11.50.17', '-11-50-17', '11--50-17', '09Dec06',
             '1165665017', 'noon']
RANGE_TIMES = ['24-00-00', '25-10-10', '12-60-00', '23-59-62', '99-99-99', '12-00-75']
HUGE_TIMES = ['99999999999-50-17', '11-99999999999999999999-17', '11-50-4294967296', '18446744073709551616-00-00']
BAD_UTIMS = ['1165665017.5', '1e9', 'abc', '0x4579C0F9', '11-50-17', '09Dec06', '1165665017s', '--5', '1,165,665,017', '12e', 'NaN']
RANGE_UTIMS = ['253402300800', '999999999999', '10000000000000', '-62135596801', '-99999999999', '31556889864403199']
HUGE_UTIMS = ['99999999999999999999999', '-99999999999999999', '9223372036854775808', '-9223372036854775809', '67768036191676800',
              '67768036191676799', '-67768040609740801', '18446744073709551616', '100000000000000000', '-100000000000000000',
              '340282366920938463463374607431768211456']


def _row_lines(model):
    return [i for i, ln in enumerate(model.lines) if ln.kind == 'row']


def _pick_row(rng, model):
    rows = _row_lines(model)
    if not rows:
        return None, None
    k = rng.randrange(len(rows)) if rng.random() < 0.6 else rng.choice([0, len(rows) - 1])
    return rows[k], k


def _token_corruption(kind, column_kind, pool, expect='raise'):
    def fn(rng, m):
        li, k = _pick_row(rng, m)
        if li is None:
            return None
        cols = m.columns()
        js = [j for j, c in enumerate(cols) if c.kind == column_kind]
        if not js:
            return None
        j = rng.choice(js)
        old = m.lines[li].tokens[j]
        if not callable(pool):
            tok = rng.choice(pool)
        elif getattr(pool, 'wants_old', False):
            tok = pool(rng, old)
        else:
            tok = pool(rng)
        if tok == '' or tok is None:
            return None
        if tok == old:
            return None
        m.lines[li].tokens[j] = tok
        if getattr(pool, 'wants_old', False):
            try:
                VALUE_FN[column_kind](tok)
            except Malformed:
                pass
            else:
                return None          # the damage left a token that a strict reader still accepts: not a corruption
            # spellings that Python's own int()/float() accept (sign, digit separators, 'e' exponents, inf/nan) are a
            # reader's legitimate latitude, not corruption the property speaks of
            try:
                if column_kind == 'utim':
                    int(tok)
                    return None
                if column_kind == 'float':
                    float(tok)
                    return None
            except ValueError:
                pass
        return Corruption(kind, m, expect, 'row', k, k == 0,
                          {'token': tok, 'was': old, 'column': cols[j].name, 'column_kind': column_kind, 'column_index': j})
    return fn


def _c_row_drop_column(rng, m):
    li, k = _pick_row(rng, m)
    if li is None:
        return None
    ln = m.lines[li]
    j = rng.randrange(len(ln.tokens)) if rng.random() < 0.7 else len(ln.tokens) - 1
    tok = ln.tokens.pop(j)
    if ln.seps:
        ln.seps.pop(min(j, len(ln.seps) - 1))
    return Corruption('row-drop-column', m, 'raise', 'row', k, k == 0, {'dropped_index': j, 'token': tok})


def _c_row_add_column(rng, m):
    li, k = _pick_row(rng, m)
    if li is None:
        return None
    ln = m.lines[li]
    j = rng.randrange(len(ln.tokens) + 1) if rng.random() < 0.6 else len(ln.tokens)
    tok = random_number_token(rng)
    ln.tokens.insert(j, tok)
    ln.seps.insert(min(j, len(ln.seps)), ' ')
    return Corruption('row-add-column', m, 'raise', 'row', k, k == 0, {'inserted_index': j, 'token': tok})


def _c_row_blank(rng, m):
    li, k = _pick_row(rng, m)
    if li is None:
        return None
    m.lines[li] = Line('raw', [rng.choice(['', ' ', '\t', '   '])])
    # a parser may reject the blank line or skip it; if it skips, the remaining rows are the model
    alt = m.copy()
    del alt.lines[li]
    return Corruption('row-blank', m, 'either', 'row', k, k == 0, alt=alt)


def _c_row_swap_date_time(rng, m):
    li, k = _pick_row(rng, m)
    if li is None:
        return None
    t = m.lines[li].tokens
    t[1], t[2] = t[2], t[1]
    return Corruption('row-swap-date-time', m, 'raise', 'row', k, k == 0, {'tokens': t[:3]})


def _c_row_duplicate(rng, m):
    li, k = _pick_row(rng, m)
    if li is None:
        return None
    m.lines.insert(li, m.lines[li].copy())
    return Corruption('row-duplicate', m, 'model', 'row', k, False)


def _c_row_delete(rng, m):
    li, k = _pick_row(rng, m)
    if li is None:
        return None
    del m.lines[li]
    return Corruption('row-delete', m, 'model', 'row', k, k == 0)


def _c_header_undeclared(rng, m):
    h = m.lines[m.header_index]
    declared = {n for n, _, _ in m.declared}
    name = random_name(rng, declared)
    j = rng.randrange(3, len(h.tokens))
    was = h.tokens[j]
    h.tokens[j] = name
    return Corruption('header-undeclared', m, 'raise', 'header', None, True, {'name': name, 'was': was, 'index': j})


def _c_header_undeclared_appended(rng, m):
    h = m.lines[m.header_index]
    declared = {n for n, _, _ in m.declared}
    name = random_name(rng, declared)
    h.tokens.append(name)
    h.seps.append(' ')
    return Corruption('header-undeclared-appended', m, 'raise', 'header', None, True, {'name': name})


def _c_header_duplicate_name(rng, m):
    h = m.lines[m.header_index]
    if len(h.tokens) < 5:
        return None
    j = rng.randrange(3, len(h.tokens))
    src = rng.choice([i for i in range(len(h.tokens)) if i != j])
    h.tokens[j] = h.tokens[src]
    return Corruption('header-duplicate-name', m, 'raise', 'header', None, True, {'name': h.tokens[j], 'index': j})


def _c_header_drop_name(rng, m):
    h = m.lines[m.header_index]
    j = rng.randrange(3, len(h.tokens))
    name = h.tokens.pop(j)
    h.seps.pop(min(j, len(h.seps)) - 1)
    if len(h.tokens) == 3:
        # 'UTIM DATE TIME' alone is no header: the file has no header line at all
        return Corruption('header-drop-name', m, 'raise', 'header', None, True, {'name': name, 'header_gone': True})
    expect = 'raise' if m.rows else 'model'
    return Corruption('header-drop-name', m, expect, 'header', None, True, {'name': name})


def _c_header_add_declared(rng, m):
    h = m.lines[m.header_index]
    unused = [n for n, _, _ in m.declared if n not in h.tokens]
    if not unused:
        return None
    name = rng.choice(unused)
    j = rng.randrange(3, len(h.tokens) + 1)
    h.tokens.insert(j, name)
    h.seps.insert(min(j, len(h.seps)), ' ')
    expect = 'raise' if m.rows else 'model'
    return Corruption('header-add-declared', m, expect, 'header', None, True, {'name': name, 'index': j})


def _c_header_swap(rng, m):
    h = m.lines[m.header_index]
    if len(h.tokens) < 5:
        return None
    a, b = rng.sample(range(3, len(h.tokens)), 2)
    h.tokens[a], h.tokens[b] = h.tokens[b], h.tokens[a]
    return Corruption('header-swap', m, 'model', 'header', None, True, {'swapped': [a, b]})


def _c_header_duplicated_line(rng, m):
    hi = m.header_index
    rows = _row_lines(m)
    at = hi + 1 if (not rows or rng.random() < 0.5) else rng.choice(rows) + 1
    dup = m.lines[hi].copy()
    dup.kind = 'row'
    m.lines.insert(at, dup)
    k = at - hi - 1
    return Corruption('header-duplicated-line', m, 'raise', 'row', k, k == 0, {'data_row_index': k})


def _c_header_moved_time(rng, m):
    """DATE and TIME exchanged in the header: no longer the UTIM DATE TIME header, so the file has no header."""
    h = m.lines[m.header_index]
    h.tokens[1], h.tokens[2] = h.tokens[2], h.tokens[1]
    return Corruption('header-time-names-exchanged', m, 'raise', 'header', None, True, {})


def _c_header_deleted(rng, m):
    """The header line is lost: the data rows follow the declarations directly and nothing names the columns."""
    hi = m.header_index
    was = m.lines[hi].text()
    del m.lines[hi]
    return Corruption('header-deleted', m, 'raise', 'header', None, True, {'was': was[:80]})


def _c_header_lowercase(rng, m):
    """The header line in lower / mixed case is not the UTIM DATE TIME header (and no declaration either)."""
    h = m.lines[m.header_index]
    how = rng.choice(['lower', 'title', 'first-three'])
    if how == 'lower':
        h.tokens = [t.lower() for t in h.tokens]
    elif how == 'title':
        h.tokens = [t.title() for t in h.tokens]
    else:
        h.tokens[:3] = [t.lower() for t in h.tokens[:3]]
    return Corruption('header-lowercase', m, 'raise', 'header', None, True, {'how': how})


def _c_decl_garbage(rng, m):
    di = rng.choice(m.index_of('decl'))
    ln = m.lines[di]
    how = rng.choice(['lower', 'two-tokens', 'one-token', 'punct-name'])
    if how == 'lower':
        ln.tokens[0] = ln.tokens[0].lower()
    elif how == 'two-tokens':
        ln.tokens = [ln.tokens[0], ln.tokens[-1]]
        ln.seps = [' ']
    elif how == 'one-token':
        ln.tokens = [ln.tokens[0]]
        ln.seps = []
    else:
        ln.tokens[0] = ln.tokens[0][:1] + rng.choice('_-.#') + ln.tokens[0][1:]
    ln.kind = 'raw'
    ln.tokens = [ln.text()]
    ln.seps, ln.lead, ln.trail = [], '', ''
    return Corruption('decl-garbage', m, 'raise', 'decl', None, True, {'how': how, 'line': ln.tokens[0]})


def _c_decl_blank(rng, m):
    di = rng.choice(m.index_of('decl'))
    name = m.lines[di].tokens[0]
    m.lines[di] = Line('raw', [''])
    # a reader may reject the blank line or skip it (then the declaration is simply missing)
    alt = m.copy()
    del alt.lines[di]
    used = name in m.header
    return Corruption('decl-blank', m, 'raise' if used else 'either', 'decl', None, True, {'name': name, 'used': used}, alt=alt)


def _c_decl_remove(rng, m):
    di = rng.choice(m.index_of('decl'))
    name = m.lines[di].tokens[0]
    used = name in m.header
    del m.lines[di]
    return Corruption('decl-remove-used' if used else 'decl-remove-unused', m, 'raise' if used else 'model', 'decl', None, True,
                      {'name': name})


def _c_decl_change_units(rng, m):
    used = [i for i in m.index_of('decl') if m.lines[i].tokens[0] in m.header[3:]]
    di = rng.choice(used)
    ln = m.lines[di]
    new = rng.choice([u for u in UNITS + ['ft', 'psi', 'Ohm.m'] if u != ln.tokens[-1]])
    was = ln.tokens[-1]
    ln.tokens[-1] = new
    return Corruption('decl-change-units', m, 'model', 'decl', None, True, {'name': ln.tokens[0], 'units': new, 'was': was})


def _c_decl_change_description(rng, m):
    used = [i for i in m.index_of('decl') if m.lines[i].tokens[0] in m.header[3:]]
    di = rng.choice(used)
    ln = m.lines[di]
    ln.tokens[1:-1] = [rng.choice(DESC_WORDS) for _ in range(rng.randrange(1, 5))]
    ln.seps = [' '] * (len(ln.tokens) - 1)
    return Corruption('decl-change-description', m, 'model', 'decl', None, True, {'name': ln.tokens[0]})


def _c_decl_time_units(rng, m):
    """A time channel declared with other units is numeric: UTIM integers then read as numbers, date / time text is rejected."""
    name = rng.choice(['UTIM', 'DATE', 'TIME'])
    di = [i for i in m.index_of('decl') if m.lines[i].tokens[0] == name][0]
    ln = m.lines[di]
    ln.tokens[-1] = rng.choice(['s', 'seconds', 'unitless', 'yymmdd', 'hh-mm-ss', 'SEC', 'date', 'time'])
    if name == 'UTIM' or not m.rows:
        expect = 'model'
    else:
        expect = 'raise'
    return Corruption('decl-time-units', m, expect, 'decl', None, True, {'name': name, 'units': ln.tokens[-1]})


def _other_number(rng):
    return random_number_token(rng)


def _damage_valid_token(rng, old):
    """Damage a *valid* token so that a readable prefix (or suffix) survives: junk appended, prepended or inserted.
    A reader that matches without anchoring, or that parses only the part it understands, accepts these."""
    junk = rng.choice(['x', 'X', '-', '.', '.0', '_', '/', ':', ',', '+', 'e', 'Z9', '-1', '/11-50-17', '%', ')', '#'])
    r = rng.random()
    if r < 0.5:
        return old + junk
    if r < 0.65:
        return junk + old
    i = rng.randrange(1, max(2, len(old)))
    return old[:i] + rng.choice(['x', '_', ' ', '..', '--', 'O', 'l']).strip() + old[i:] if r < 0.9 else old[:i] + old[i:] + old[-1] * 0 + junk


_damage_valid_token.wants_old = True


CORRUPTION_TABLE = [
    ('row-drop-column', _c_row_drop_column),
    ('row-add-column', _c_row_add_column),
    ('row-blank', _c_row_blank),
    ('row-swap-date-time', _c_row_swap_date_time),
    ('row-duplicate', _c_row_duplicate),
    ('row-delete', _c_row_delete),
    ('header-undeclared', _c_header_undeclared),
    ('header-undeclared-appended', _c_header_undeclared_appended),
    ('header-duplicate-name', _c_header_duplicate_name),
    ('header-drop-name', _c_header_drop_name),
    ('header-add-declared', _c_header_add_declared),
    ('header-swap', _c_header_swap),
    ('header-duplicated-line', _c_header_duplicated_line),
    ('header-time-names-exchanged', _c_header_moved_time),
    ('header-deleted', _c_header_deleted),
    ('header-lowercase', _c_header_lowercase),
    ('decl-garbage', _c_decl_garbage),
    ('decl-blank', _c_decl_blank),
    ('decl-remove', _c_decl_remove),
    ('decl-change-units', _c_decl_change_units),
    ('decl-change-description', _c_decl_change_description),
    ('decl-time-units', _c_decl_time_units),
    ('numeric-garbage', _token_corruption('numeric-garbage', 'float', NON_NUMERIC)),
    ('numeric-other', _token_corruption('numeric-other', 'float', _other_number, expect='model')),
    ('numeric-damaged', _token_corruption('numeric-damaged', 'float', _damage_valid_token)),
    ('date-damaged', _token_corruption('date-damaged', 'date', _damage_valid_token)),
    ('time-damaged', _token_corruption('time-damaged', 'time', _damage_valid_token)),
    ('utim-damaged', _token_corruption('utim-damaged', 'utim', _damage_valid_token)),
    ('date-malformed', _token_corruption('date-malformed', 'date', BAD_DATES)),
    ('date-out-of-range', _token_corruption('date-out-of-range', 'date', RANGE_DATES)),
    ('date-huge', _token_corruption('date-huge', 'date', HUGE_DATES)),
    ('time-malformed', _token_corruption('time-malformed', 'time', BAD_TIMES)),
    ('time-out-of-range', _token_corruption('time-out-of-range', 'time', RANGE_TIMES)),
    ('time-huge', _token_corruption('time-huge', 'time', HUGE_TIMES)),
    ('utim-malformed', _token_corruption('utim-malformed', 'utim', BAD_UTIMS)),
    ('utim-out-of-range', _token_corruption('utim-out-of-range', 'utim', RANGE_UTIMS)),
    ('utim-huge', _token_corruption('utim-huge', 'utim', HUGE_UTIMS)),
]
CORRUPTIONS = [k for k, _ in CORRUPTION_TABLE]
_CORRUPTION_FN = dict(CORRUPTION_TABLE)


def corrupt(rng, model, kind=None):
    """Apply one corruption to a copy of a well-formed model.  Returns None when the kind does not apply to this model
    (e.g. a row corruption of a file without rows)."""
    if kind is None:
        for _ in range(20):
            c = corrupt(rng, model, rng.choice(CORRUPTIONS))
            if c is not None:
                return c
        return None
    return _CORRUPTION_FN[kind](rng, model.copy())
