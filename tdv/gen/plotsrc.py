"""Plot sources for C19 (and the SVG part of C18): LIS files with FILM / PRES tables, a data format specification and
frame data whose curves have chosen shapes; LAS text with the same curves.  Independent of TotalDepth: written from the
LIS-79 description (physical record header = length + attributes; logical record header = type + attribute; component
blocks 73 / 0 / 69; entry blocks; 40 byte datum specification blocks; representation code 68) - struct / math only.

    data, model = lis_plot_file(rng, spec)      spec from random_plot_spec(rng) or xml_format_spec(rng, names)
    text, model = las_plot_text(rng, names)

model (PlotModel): .up (bool) .x_units .x (list of exact floats) .channels {name: [exact float per frame]} .absent
                   .films {film id bytes: FilmModel(scale, tracks)}  .curves [CurveModel]  .null
CurveModel: .mnem .outp .trac .dest .mode .ledg .redg .log  and .track(film) -> (left_in, right_in) in inches from the
            left margin (own table of the FILM track layouts below, not TotalDepth's).
"""
import math
import struct
from fractions import Fraction

NULL = -999.25

# ------------------------------------------------------------------------------------------------ representation code 68


def enc68(x):
    """(4 bytes, exact float value of the code word) nearest to x.  Code 68: sign bit, 8 bit excess-128 exponent, 23 bit
    fraction; negative numbers are the two's complement of the 32 bit word of the magnitude."""
    if x == 0:
        return b'\x00\x00\x00\x00', 0.0
    m, e = math.frexp(abs(x))            # abs(x) = m * 2**e, 0.5 <= m < 1
    mant = int(round(m * (1 << 23)))
    if mant == 1 << 23:
        mant >>= 1
        e += 1
    E = e + 128
    if E > 255:
        E, mant = 255, (1 << 23) - 1
    while E < 0:                         # denormalise
        mant >>= 1
        E += 1
    if mant == 0:
        return b'\x00\x00\x00\x00', 0.0
    w = (E << 23) | mant
    val = math.ldexp(mant, E - 128 - 23)
    if x < 0:
        w = (-w) & 0xFFFFFFFF
        val = -val
    return struct.pack('>I', w), val


def q68(x):
    return enc68(x)[1]


# ------------------------------------------------------------------------------------------------ records
def physical(lrs, pr_len=1024):
    """Logical records -> physical records without trailers (attribute bit 0x1 successor, 0x2 predecessor)."""
    out = bytearray()
    cap = pr_len - 4
    for lr in lrs:
        ofs = 0
        while True:
            pay = lr[ofs:ofs + cap]
            attr = (1 if ofs + cap < len(lr) else 0) | (2 if ofs > 0 else 0)
            out += struct.pack('>HH', 4 + len(pay), attr) + pay
            ofs += len(pay)
            if ofs >= len(lr):
                break
    return bytes(out)


def _fix(b, n):
    return (bytes(b) + b' ' * n)[:n]


def file_head_tail(lr_type, name=b'PLOTGN.001'):
    # name(10) 2 blanks service-sub-level(6) version(8) date(8) blank max-pr-len(5) 2 blanks file-type(2) 2 blanks other-name(10)
    return bytes([lr_type, 0]) + _fix(name, 10) + b'  ' + _fix(b'SUBLEV', 6) + _fix(b'VERS 1.0', 8) + _fix(b'26/10/03', 8) + b' ' + \
        _fix(b' 1024', 5) + b'  ' + _fix(b'LO', 2) + b'  ' + _fix(b'', 10)


def cblock(cb_type, mnem, value, units=b'    '):
    if isinstance(value, bytes):
        rc, vb = 65, value
    else:
        rc, vb = 68, enc68(value)[0]
    return bytes([cb_type, rc, len(vb), 0]) + _fix(mnem, 4) + _fix(units, 4) + vb


def table(name, rows):
    """rows: [[(mnem, value[, units]) ...]]; the first cell of a row is the row name (component block type 0)."""
    b = bytearray([34, 0]) + cblock(73, b'TYPE', name)
    for row in rows:
        for k, cell in enumerate(row):
            b += cblock(0 if k == 0 else 69, *cell)
    return bytes(b)


def dfsr(channels, up, spacing, x_units, absent=NULL):
    """channels: [(mnem, units)] all representation code 68, one sample, first one is the X axis."""
    def eb(t, rc, vb):
        return bytes([t, len(vb), rc]) + vb
    b = bytearray([64, 0])
    b += eb(1, 66, b'\x00')                          # data record type
    b += eb(2, 66, b'\x00')                          # datum spec block type
    b += eb(3, 79, struct.pack('>h', 4 * len(channels)))   # frame size
    b += eb(4, 66, bytes([1 if up else 255]))       # up/down
    b += eb(5, 66, bytes([1 if x_units in (b'FEET', b'.1IN') else 255]))    # optical log scale
    b += eb(8, 68, enc68(abs(spacing))[0])
    b += eb(9, 65, _fix(x_units, 4))
    b += eb(12, 68, enc68(absent)[0])
    b += eb(13, 66, b'\x00')                        # depth recorded in the frame
    b += eb(0, 66, b'')                             # terminator
    if len(b) % 2:
        b = b[:-3] + eb(0, 66, b'\x00')
    for mnem, units in channels:
        b += _fix(mnem, 4) + _fix(b'SRVID', 6) + _fix(b'SRVORD', 8) + _fix(units, 4) + struct.pack('>I', 45310011) + \
            struct.pack('>hh', 1, 4) + b'\x00\x00\x00' + bytes([1, 68]) + b'\x00' * 5
    return bytes(b)


def data_records(frames_bytes, per_record):
    out = []
    for i in range(0, len(frames_bytes), per_record):
        out.append(bytes([0, 0]) + b''.join(frames_bytes[i:i + per_record]))
    return out


# ------------------------------------------------------------------------------------------------ FILM layouts (own table)
# left/right of the tracks in inches from the left plot margin, from the LIS FILM conventions: three-track films have
# T1 0-2.4, depth track 2.4-3.2, T2 3.2-5.6, T3 5.6-8; the four track film LLLL/1111 has a 1 in depth track then 4 x 1.75 in.
THREE = {'T1': (0.0, 2.4), 'TD': (2.4, 3.2), 'T2': (3.2, 5.6), 'T3': (5.6, 8.0), 'T23': (3.2, 8.0), 'T12': (0.0, 5.6), 'T13': (0.0, 8.0),
         'LHT1': (0.0, 1.2), 'RHT1': (1.2, 2.4), 'LHT2': (3.2, 4.4), 'RHT2': (4.4, 5.6), 'LHT3': (5.6, 6.8), 'RHT3': (6.8, 8.0)}
FOUR = {'FD': (0.0, 1.0), 'F1': (1.0, 2.75), 'F2': (2.75, 4.5), 'F3': (4.5, 6.25), 'F4': (6.25, 8.0), 'F12': (1.0, 4.5), 'F23': (2.75, 6.25),
        'F34': (4.5, 8.0), 'F14': (1.0, 8.0)}
# a track name addresses a track by its position, whatever the letter: on the four track film 'T1' is its first track (FD), 'T2' and
# 'T3' its third and fourth (F2, F3) - the same names as on a three track film, but another geometry
FOUR.update({'T1': FOUR['FD'], 'T2': FOUR['F2'], 'T3': FOUR['F3'], 'T23': (FOUR['F2'][0], FOUR['F3'][1]), 'T12': (FOUR['FD'][0], FOUR['F2'][1]),
             'T13': (FOUR['FD'][0], FOUR['F3'][1]),
             'LHT2': (FOUR['F2'][0], sum(FOUR['F2']) / 2), 'RHT2': (sum(FOUR['F2']) / 2, FOUR['F2'][1]),
             'LHT3': (FOUR['F3'][0], sum(FOUR['F3']) / 2), 'RHT3': (sum(FOUR['F3']) / 2, FOUR['F3'][1])})
GCODS = [(b'EEE ', b'----', THREE), (b'E20 ', b'-4--', THREE), (b'E2E ', b'-2--', THREE), (b'E3E ', b'-3--', THREE), (b'E4E ', b'-4--', THREE),
         (b'EEB ', b'----', THREE), (b'BBB ', b'----', THREE), (b'E2E ', b'-1--', THREE), (b'E1E ', b'-4--', THREE), (b'LLLL', b'1111', FOUR)]
# spellings seen on field tapes that the reader documents as equivalents (its "alternate" table; a GDEC whose last
# character is a blank instead of '-'); all of them are three track films of the same geometry
GCODS_ALT = [(b'EBE ', b'----', THREE), (b'EEE ', b'EEE-', THREE), (b'EEB ', b'EEE-', THREE), (b'EB0 ', b'----', THREE), (b'E40 ', b'-4--', THREE),
             (b'EEE ', b'--- ', THREE), (b'E20 ', b'-4- ', THREE), (b'E2E ', b'-2- ', THREE)]
NULLS = [-999.25, -999.25, -999.25, -9999.0, -32768.0, -999.0, 1e30, 0.0]
DSCA = {b'D200': 200, b'D500': 500, b'DM  ': 1000, b'D20 ': 20, b'D40 ': 40, b'S5  ': 240, b'S2  ': 600}
MODES = {b'SHIF': (-1, 1), b'GRAD': 'none', b'NB  ': 'none', b'WRAP': 'all', b'X10 ': 'all'}
MARGIN_IN = 0.25
PAPER_IN = 8.5
UNITS_PER_IN = 96.0


class FilmModel:
    def __init__(self, ident, gcod, gdec, tracks, dsca):
        self.ident, self.gcod, self.gdec, self.tracks, self.dsca, self.scale = ident, gcod, gdec, tracks, dsca, DSCA[dsca]


class CurveModel:
    def __init__(self, mnem, outp, trac, dest, mode, ledg, redg):
        self.mnem, self.outp, self.trac, self.dest, self.mode, self.ledg, self.redg = mnem, outp, trac, dest, mode, ledg, redg
        self.log = mode == b'GRAD'

    def backup(self):
        m = MODES.get(self.mode, 'all')
        return m

    def on_scale(self, w):
        """Back-up semantics: 'none' plots only the unwrapped position, (-1, 1) one back-up either side, 'all' everything."""
        b = self.backup()
        if b == 'all':
            return True
        if b == 'none':
            return w == 0
        return b[0] <= w <= b[1]

    def films(self, model):
        return dest_films(self.dest, model.films)

    def track(self, film):
        return film.tracks[self.trac.strip().decode('ascii')]


def dest_films(dest, films):
    """Film identifiers a PRES destination names: a film identifier itself; BOTH when there are exactly two films; ALL;
    otherwise each character that is a film identifier (destination '12' = films 1 and 2)."""
    d = dest.strip()
    ids = sorted(films)
    exact = [f for f in ids if f.strip() == d]
    if exact:
        return exact
    if d == b'BOTH' and len(ids) == 2:
        return ids
    if d == b'ALL':
        return ids
    out = []
    for byte in d:
        for f in ids:
            if f.strip() == bytes([byte]) and f not in out:
                out.append(f)
    return sorted(out)


class PlotModel:
    def __init__(self):
        self.up = True
        self.x_units = b'FEET'
        self.x = []
        self.channels = {}
        self.shapes = {}
        self.absent = {}
        self.films = {}
        self.curves = []
        self.null = NULL
        self.frames_per_record = 1
        self.spacing = 0.5
        self.dropped_columns = []


# ------------------------------------------------------------------------------------------------ curve shapes
SHAPES = ('constant', 'edge', 'ramp', 'sine', 'spiky', 'huge', 'tiny', 'negative', 'absent-runs', 'all-absent', 'steps', 'zero')


def shape_values(rng, shape, n, lo, hi):
    """n values for a scale lo..hi (lo may be > hi; for log scales both > 0)."""
    a, b = min(lo, hi), max(lo, hi)
    span = b - a
    mid = (a + b) / 2
    out = []
    if shape == 'constant':
        v = rng.uniform(a, b)
        out = [v] * n
    elif shape == 'edge':
        ch = [lo, hi, math.nextafter(lo, hi), math.nextafter(hi, lo), lo - span, hi + span, mid]
        out = [rng.choice(ch) for _ in range(n)]
    elif shape == 'ramp':
        k = rng.choice([1, 2, 3, 5, 12, 40])
        out = [a - span * 0.5 + (k * span) * i / max(n - 1, 1) for i in range(n)]
        if rng.random() < 0.5:
            out.reverse()
    elif shape == 'sine':
        amp = span * rng.choice([0.3, 0.5, 0.7, 1.5, 4.0])
        wl = rng.choice([5, 9, 20, 50])
        out = [mid + amp * math.sin(2 * math.pi * i / wl) for i in range(n)]
    elif shape == 'spiky':
        base = rng.uniform(a, b)
        out = [base] * n
        for _ in range(max(1, n // 8)):
            out[rng.randrange(n)] = base + span * rng.choice([-1e6, 1e6, 137166.0, -3.5, 2.5, 9.0, -9.0, 1e3])
        # a spike on the very first / very last frame (nothing follows it: whatever the wrap lines do must stay inside the plot),
        # of 5 to 14 track widths (the plotter limits the crossing lines it draws from 8 up, in groups of 4)
        r = rng.random()
        if r < 0.6:
            out[n - 1 if r < 0.4 else 0] = base + span * rng.choice([-1, 1]) * rng.choice([5, 7, 8, 9, 10, 11, 12, 13, 14, 10.5, 40])
    elif shape == 'end-spike':
        # an in-scale constant with one far excursion on the very last (or first) frame: nothing follows the excursion
        base = rng.uniform(a + span * 0.1, b - span * 0.1)
        out = [base] * n
        out[-1 if rng.random() < 0.75 else 0] = base + span * rng.choice([-1, 1]) * rng.choice([5, 7, 9, 10, 11, 13, 14, 10.5, 17, 41, 1e3])
    elif shape == 'huge':
        out = [rng.choice([1e30, -1e30, 1.6e38, -1.6e38, 1e12, 1.5163e6, 2.42385e8]) if rng.random() < 0.5 else rng.uniform(a, b) for _ in range(n)]
    elif shape == 'tiny':
        out = [rng.choice([1e-30, -1e-30, 2e-39, 1e-12, -1e-12, 0.0]) for _ in range(n)]
    elif shape == 'negative':
        out = [rng.choice([-1.0, 0.0, -mid, -1e-30, mid, a, b]) for _ in range(n)]
    elif shape == 'steps':
        lv = [rng.uniform(a - 2 * span, b + 2 * span) for _ in range(4)]
        out = [lv[(i * 4) // max(n, 1)] for i in range(n)]
    elif shape == 'zero':
        out = [0.0] * n
    elif shape in ('absent-runs', 'all-absent'):
        out = [mid + span * 0.45 * math.sin(i / 3.0) + (span * 1.2 if (i // 7) % 2 else 0.0) for i in range(n)]
    else:
        raise ValueError(shape)
    return out


def absent_runs(rng, n, all_absent=False):
    """Indices of absent frames: runs of even length (2 or 4) with a present frame on either side, never frame 0 or n-1."""
    if all_absent:
        return set(range(n))
    s = set()
    i = rng.randrange(1, 6)
    while i + 5 < n:
        ln = rng.choice([2, 2, 4])
        s.update(range(i, i + ln))
        i += ln + rng.randrange(1, 9)
    return s


# ------------------------------------------------------------------------------------------------ specs
def _rand_edges(rng, log):
    if log:
        lo = rng.choice([0.2, 0.2, 1.0, 2.0, 0.02, 1e-3, 10.0])
        hi = lo * rng.choice([10.0, 100.0, 1e4, 1e4, 7.5, 2000.0 / 0.2])
        return (lo, hi) if rng.random() < 0.8 else (hi, lo)
    kind = rng.random()
    if kind < 0.3:
        return rng.choice([(0.0, 150.0), (-80.0, 20.0), (6.0, 16.0), (0.45, -0.15), (1.95, 2.95), (140.0, 40.0), (-0.25, 0.25), (2000.0, 7000.0)])
    a = rng.choice([0.0, -1.0, 1e-6, 1e6, -273.15, 8.5, 1e-20, 1e20]) * rng.choice([1.0, 1.0, -1.0])
    w = abs(a) * rng.choice([0.5, 2.0, 1e-3]) if a and rng.random() < 0.5 else rng.choice([1.0, 10.0, 150.0, 1e-3, 1e5])
    b = a + w if rng.random() < 0.6 else a - w
    if b == a:
        b = a + 1.0
    return a, b


def random_plot_spec(rng, nframes=None):
    """Random FILM / PRES tables over random channels."""
    spec = {}
    nfilm = rng.choice([1, 2, 2, 2, 3])
    films = []
    idents = rng.sample([b'1   ', b'2   ', b'A   ', b'D   ', b'E   '], nfilm)
    mixed = nfilm >= 2 and rng.random() < 0.3      # a three track film and the four track film in one table, in either order
    four_at = rng.randrange(2)
    for i in range(nfilm):
        g = rng.choice(GCODS) if rng.random() < 0.75 else rng.choice(GCODS_ALT)
        if mixed and i < 2:
            g = GCODS[-1] if i == four_at else rng.choice(GCODS[:-1])
        films.append((idents[i], g, rng.choice([b'D200', b'D200', b'D500', b'DM  ', b'D40 ', b'S5  ', b'D20 ', b'S2  '])))
    spec['films'] = films
    nch = rng.randrange(1, 7)
    names = rng.sample([b'GR  ', b'SP  ', b'CALI', b'ILD ', b'ILM ', b'RHOB', b'NPHI', b'DT  ', b'TENS', b'X1  ', b'A<&B', b'C"\'D', b'Q>  '], nch)
    spec['channels'] = [b'REF '] + names
    curves = []
    # the reference curves: channel REF is always present, constant, in scale, never wraps -> exactly one point per plotted
    # frame; one curve per film so that films with different track layouts both have it
    for i, (fid, g, dsca) in enumerate(films):
        curves.append({'mnem': b'RF%d ' % i, 'outp': b'REF ', 'trac': None, 'dest': fid, 'mode': b'NB  ', 'ledg': 0.0, 'redg': 10.0, 'shape': 'ref'})
    used = {b'REF ', b'RF0 ', b'RF1 '}
    for nm in names:
        for k in range(rng.choice([1, 1, 1, 2])):
            mn = nm if k == 0 else (nm[:3] + b'B')
            if mn in used:
                continue
            used.add(mn)
            mode = rng.choice([b'SHIF', b'SHIF', b'GRAD', b'NB  ', b'WRAP', b'WRAP', b'X10 '])
            lo, hi = _rand_edges(rng, mode == b'GRAD')
            dest = rng.choice([b'ALL ', b'BOTH' if nfilm == 2 else b'ALL ', films[rng.randrange(nfilm)][0]])
            if nfilm >= 2 and rng.random() < 0.25:
                # several films named one character each ('12', 'A1D'); rarely BOTH although there are three films (names none)
                sub = rng.sample([f[0].strip() for f in films], rng.randrange(2, nfilm + 1))
                dest = _fix(b''.join(sub), 4) if rng.random() < 0.9 or nfilm == 2 else b'BOTH'
            lo, hi = q68(lo), q68(hi)
            if lo == hi or (mode == b'GRAD' and (lo <= 0 or hi <= 0)):     # quantifier: left != right, both > 0 for log
                lo, hi = (0.2, 2000.0) if mode == b'GRAD' else (q68(lo), q68(lo + max(abs(lo), 1.0)))
                lo, hi = q68(lo), q68(hi)
            curves.append({'mnem': mn, 'outp': nm, 'trac': None, 'dest': dest, 'mode': mode, 'ledg': lo, 'redg': hi, 'shape': None})
    spec['curves'] = curves
    spec['up'] = rng.random() < 0.6
    spec['x_units'] = rng.choice([b'FEET', b'FEET', b'M   ', b'.1IN'])
    spec['nframes'] = nframes or rng.choice([12, 40, 80, 150])
    spec['x0'] = rng.choice([1000.0, 9900.0, 120.5, 3000.0])
    spec['null'] = rng.choice(NULLS)
    return spec


def lis_plot_file(rng, spec):
    """Build the LIS file of a spec.  Returns (bytes, PlotModel)."""
    m = PlotModel()
    m.up = spec['up']
    m.x_units = spec['x_units']
    m.null = null = q68(spec.get('null', NULL))          # the absent value the data format specification declares
    n = spec['nframes']
    for ident, (gcod, gdec, layout), dsca in spec['films']:
        m.films[ident] = FilmModel(ident, gcod, gdec, layout, dsca)
    # frame spacing: at least ~2.9 view box units between frames at the smallest film scale (see C19: absent-value check)
    maxscale = max(f.scale for f in m.films.values()) if m.films else 200
    per_ft = {b'FEET': 1.0, b'M   ': 1 / 0.3048, b'.1IN': 120.0}[m.x_units]
    spacing_ft = 0.5 * maxscale / 200.0
    spacing = q68(spacing_ft * (1.0 if m.x_units == b'FEET' else 0.3048 if m.x_units == b'M   ' else 120.0))
    m.spacing = spacing
    x0 = spec['x0'] * (1.0 if m.x_units == b'FEET' else 0.3048 if m.x_units == b'M   ' else 120.0)
    xs = [q68(x0 - spacing * i if m.up else x0 + spacing * i) for i in range(n)]
    m.x = xs
    layouts = [f.tracks for f in m.films.values()]
    rows_pres = []
    chan_shape = {}
    chan_edges = {}
    # PRES tables in the field lack some columns; the reader documents fall-backs for OUTP (the curve name names the channel),
    # FILT (0.5) and MODE (WRAP): a quarter of the files drop a non-empty subset of them from every row
    drop = set()
    if spec['curves'] and not spec.get('no_drop') and rng.random() < 0.25:
        drop = set(rng.sample([b'OUTP', b'FILT', b'MODE'], rng.randrange(1, 4)))
        if b'OUTP' in drop and len({c['outp'] for c in spec['curves']}) != len(spec['curves']):
            if rng.random() < 0.6:
                # one curve per channel, so that the curve name can name the channel
                seen, kept = set(), []
                for c in spec['curves']:
                    if c['outp'] not in seen:
                        seen.add(c['outp'])
                        kept.append(c)
                spec['curves'] = kept
            else:
                drop.discard(b'OUTP')
    m.dropped_columns = sorted(d.decode() for d in drop)
    for c in spec['curves']:
        if b'OUTP' in drop:
            c['mnem'] = c['outp']
        if b'MODE' in drop:
            c['mode'] = b'WRAP'
        if c['trac'] is None:
            # a track name valid in every destination film
            common = set(layouts[0])
            for lay in layouts[1:]:
                common &= set(lay)
            dests = [m.films[f] for f in dest_films(c['dest'], m.films)]
            names = sorted(set.intersection(*[set(f.tracks) for f in dests])) if dests else sorted(common)
            names = [t for t in names if t not in ('TD', 'FD')] or names
            if not names:
                c['dest'] = dests[0].ident if dests else sorted(m.films)[0]
                names = [t for t in sorted(m.films[c['dest']].tracks) if t not in ('TD', 'FD')]
            c['trac'] = rng.choice(names).encode('ascii')
        cm = CurveModel(c['mnem'], c['outp'], _fix(c['trac'], 4), c['dest'], c['mode'], c['ledg'], c['redg'])
        m.curves.append(cm)
        chan_edges.setdefault(c['outp'], (c['ledg'], c['redg'], cm.log))
        rows_pres.append([(b'MNEM', c['mnem']), (b'OUTP', c['outp']), (b'STAT', rng.choice([b'ALLO', b'ALLO', b'DISA'])), (b'TRAC', _fix(c['trac'], 4)),
                          (b'CODI', rng.choice([b'LLIN', b'LDAS', b'LSPO', b'HLIN', b'LGAP', b'????'])), (b'DEST', c['dest']), (b'MODE', c['mode']),
                          (b'FILT', 0.5), (b'LEDG', c['ledg']), (b'REDG', c['redg'])])
        rows_pres[-1] = [cell for cell in rows_pres[-1] if cell[0] not in drop]
    for nm in spec['channels']:
        lo, hi, log = chan_edges.get(nm, (0.0, 1.0, False))
        if nm == b'REF ':
            shape = 'ref'
            vals = [5.0] * n
            ab = set()
        else:
            shape = (spec.get('shapes') or {}).get(nm) or rng.choice(SHAPES)
            vals = shape_values(rng, shape, n, lo, hi)
            ab = absent_runs(rng, n, shape == 'all-absent') if shape in ('absent-runs', 'all-absent') or rng.random() < 0.2 else set()
        vals = [q68(v) for v in vals]
        vals = [null if i in ab else (v if v != null else q68(null + 1 if abs(null) < 1e6 else null / 2)) for i, v in enumerate(vals)]
        m.channels[nm] = vals
        m.shapes[nm] = shape
        m.absent[nm] = ab
    rows_film = [[(b'MNEM', f.ident), (b'GCOD', f.gcod), (b'GDEC', f.gdec), (b'DEST', b'PF%d ' % (i + 1)), (b'DSCA', f.dsca)]
                 for i, f in enumerate(m.films.values())]
    chans = [(b'DEPT', m.x_units)] + [(nm, rng.choice([b'GAPI', b'MV  ', b'IN  ', b'OHMM', b'V/V ', b'<&> ', b'    '])) for nm in spec['channels']]
    frames = []
    for i in range(n):
        frames.append(enc68(xs[i])[0] + b''.join(enc68(m.channels[nm][i])[0] for nm in spec['channels']))
    per = rng.choice([1, 3, 8, 20])
    per = max(1, min(per, (1024 - 6) // max(len(frames[0]), 1)))
    if spec.get('single_record'):
        per = n                          # the whole log pass in one data record (may span physical records)
    elif per >= n:
        per = max(1, (n + 1) // 2)       # at least two data records
    m.frames_per_record = per
    lrs = [file_head_tail(128), table(b'FILM', rows_film), table(b'PRES', rows_pres), dfsr(chans, m.up, spacing, m.x_units, absent=null)]
    lrs += data_records(frames, per)
    lrs.append(file_head_tail(129))
    return physical(lrs), m


# ------------------------------------------------------------------------------------------------ XML plot formats
def xml_format_channels(formats_dir):
    """{UniqueId: [channel names]} read from the LgFormat XML files with the standard library (data files, not code)."""
    import os
    import xml.etree.ElementTree as ET
    out = {}
    for fn in sorted(os.listdir(formats_dir)):
        if not fn.endswith('.xml'):
            continue
        root = ET.parse(os.path.join(formats_dir, fn)).getroot()
        uid = root.get('UniqueId')
        names = []
        for e in root.iter():
            if e.tag.endswith('}ChannelName') and e.text:
                names.append(e.text.strip())
        out[uid] = names
    return out


def xml_format_spec(rng, names, nframes=None):
    """A spec without FILM/PRES (they are written but unused): channels named as an XML plot format expects."""
    spec = {'films': [(b'1   ', GCODS[0], b'D200')], 'curves': [], 'up': rng.random() < 0.6, 'x_units': rng.choice([b'FEET', b'M   ']),
            'nframes': nframes or rng.choice([12, 40, 80]), 'x0': rng.choice([1000.0, 9900.0])}
    spec['channels'] = [_fix(nm.encode('ascii'), 4) for nm in names]
    spec['curves'].append({'mnem': spec['channels'][0], 'outp': spec['channels'][0], 'trac': b'T1  ', 'dest': b'1   ', 'mode': b'SHIF',
                           'ledg': 0.0, 'redg': 150.0, 'shape': None})
    return spec


def las_plot_text(rng, names, nframes=40, shapes=None, step=0.5, up=False, null=NULL, units='FT'):
    """LAS 2.0 text with the given curve names; returns (text, PlotModel).  units: the depth units written (FT, F, M)."""
    m = PlotModel()
    m.up = up
    m.null = null
    m.x_units = b'M   ' if units == 'M' else b'FEET'
    x0 = 1000.0
    m.x = [x0 - step * i if up else x0 + step * i for i in range(nframes)]
    L = ['~Version Information', ' VERS.   2.0 : CWLS LOG ASCII STANDARD - VERSION 2.0', ' WRAP.   NO : One line per depth step',
         '~Well Information', ' STRT.%s  %.4f : START' % (units, m.x[0]), ' STOP.%s  %.4f : STOP' % (units, m.x[-1]),
         ' STEP.%s  %.4f : STEP' % (units, -step if up else step),
         ' NULL.   %s : NULL' % ('%.2f' % null if null != int(null) else '%d' % null), ' COMP.   ACME : COMPANY', ' WELL.   W-1 : WELL', '~Curve Information', ' DEPT.%s   : depth' % units]
    for nm in names:
        L.append(' %s.%s   : curve %s' % (nm, rng.choice(['GAPI', 'MV', 'IN', 'OHMM', '']), nm))
        shape = (shapes or {}).get(nm) or rng.choice(['constant', 'sine', 'ramp', 'spiky', 'absent-runs'])
        vals = shape_values(rng, shape, nframes, 0.0, 150.0)
        ab = absent_runs(rng, nframes) if shape == 'absent-runs' else set()
        vals = [null if i in ab else (float('%.4f' % v) if float('%.4f' % v) != null else null + 1.0) for i, v in enumerate(vals)]
        m.channels[nm] = vals
        m.shapes[nm] = shape
        m.absent[nm] = ab
    L.append('~A  DEPT ' + ' '.join(names))
    for i in range(nframes):
        L.append(' %.4f ' % m.x[i] + ' '.join('%.4f' % m.channels[nm][i] for nm in names))
    return '\n'.join(L) + '\n', m


# ------------------------------------------------------------------------------------------------ exact scale arithmetic
def exact_wrap(v, lo, hi, log):
    """(wrap, fraction in [0,1)) of value v on the scale lo..hi, exactly (log scales: by comparison of exact powers is not
    possible in general, so the log case uses the correctly rounded double log10 and the caller allows for the boundary)."""
    if log:
        if v <= 0:
            return None
        p = Fraction(math.log10(v / lo)) / Fraction(math.log10(hi / lo))
    else:
        p = (Fraction(v) - Fraction(lo)) / (Fraction(hi) - Fraction(lo))
    w = p.numerator // p.denominator
    return w, p - w
