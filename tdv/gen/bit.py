"""Independent Western Atlas (Dresser Atlas) BIT file encoder / strict decoder and IBM System/360 single floats.

Written from the layout description of the format (TIF framing, 276 byte first block, channel-major data blocks)
and the definition of IBM hexadecimal floating point; shares no code with TotalDepth.

Layout produced
---------------
file   := pass+  TIF(type 1)            # every pass ends with a type-1 marker, the file with a second one
pass   := TIF(type 0) header(276 bytes)  { TIF(type 0) data-block }*  TIF(type 1)
TIF    := three little-endian uint32: type, position of the previous marker, position of the next marker
header := 4 bytes unknown | 160 bytes description area | >H channel count | >H zero | 20 x 4 byte names (blank padded)
          | 5 IBM floats (start, stop, spacing, unknown a, unknown b) | 8 bytes tail
          description area = 72 printable | 5 binary | 75 printable | 8 binary
data   := for each channel: the IBM floats of that channel for the frames of this block (channel-major)

IBM single: byte 0 = sign bit + 7 bit excess-64 power of 16, bytes 1..3 = 24 bit fraction;
            value = (-1)^s * (fraction / 2^24) * 16^(e - 64).  The value is always exactly a double.

API
---
ibm_fields(word) -> (sign, exponent, fraction)
ibm_exact(word) -> Fraction                      exact rational value of four bytes
ibm_to_float(word) -> float                      the same number as a double (exact; no rounding happens)
ibm_encode(x, rounding='nearest'|'truncate', normalise=True) -> bytes      x: int | float | Fraction
tif_marker(type, prev, next) -> 12 bytes
header_block(names, range_words, description=..., head=..., bin_a=..., text_b=..., bin_c=..., tail=..., null=0) -> 276 bytes
PassModel / FileModel                             see the classes
write_file(passes, end_markers=2, trailing=b'') -> (bytes, FileModel)
random_word(rng) / random_words(rng, n, unique_values=True) -> 4-byte words
random_pass(rng, ...) -> PassModel ; random_file(rng, ...) -> (bytes, FileModel)
decode_file(bytes) -> FileModel                   strict independent reader (raises BitFormatError)
"""
import math
import struct
from fractions import Fraction

HEADER_LEN = 276
TIF_LEN = 12
MAX_CHANNELS = 20
PRINTABLE = bytes(range(0x20, 0x7f))
NAME_ALPHABET = b'ABCDEFGHIJKLMNOPQRSTUVWXYZ0123456789'
DEFAULT_TAIL = b'MN239J 1'
DEFAULT_HEAD = b'\x00\x02\x00\x00'


class BitFormatError(Exception):
    pass


# ---------------------------------------------------------------------------------------------- IBM floats
def ibm_fields(word):
    """(sign 0|1, excess-64 exponent 0..127, 24 bit fraction) of the first four bytes."""
    if len(word) < 4:
        raise ValueError('need four bytes')
    return word[0] >> 7, word[0] & 0x7F, (word[1] << 16) | (word[2] << 8) | word[3]


def ibm_exact(word):
    """Exact rational value of an IBM System/360 single precision number."""
    s, e, f = ibm_fields(word)
    v = Fraction(f, 1 << 24) * Fraction(16) ** (e - 64)
    return -v if s else v


def ibm_to_float(word):
    """The value as a double.  24 significant bits and a binary exponent in [-280, 252]: always exact.
    A zero fraction with the sign bit set gives -0.0 (equal to 0.0)."""
    s, e, f = ibm_fields(word)
    v = math.ldexp(float(f), 4 * (e - 64) - 24)
    return -v if s else v


def ibm_encode(x, rounding='nearest', normalise=True):
    """Nearest (ties to even) or truncated IBM single for x.  Saturates at the largest magnitude, flushes to zero
    below the smallest.  normalise=False keeps one leading zero hex digit where the exponent allows it."""
    x = Fraction(x)
    if x == 0:
        return b'\x00\x00\x00\x00'
    s = 0x80 if x < 0 else 0
    a = abs(x)
    # smallest e with a < 16^(e-64)
    e = 64
    while a >= Fraction(16) ** (e - 64):
        e += 1
    while a < Fraction(16) ** (e - 65):
        e -= 1
    if not normalise and e < 127:
        e += 1
    if e > 127:
        return bytes([s | 0x7F, 0xFF, 0xFF, 0xFF])
    if e < 0:
        # denormalise towards exponent 0
        e = 0
    scaled = a * (1 << 24) / Fraction(16) ** (e - 64)
    f = scaled.numerator // scaled.denominator
    rem = scaled - f
    if rounding == 'nearest':
        if rem > Fraction(1, 2) or (rem == Fraction(1, 2) and f & 1):
            f += 1
    elif rounding != 'truncate':
        raise ValueError(rounding)
    if f >= 1 << 24:
        f >>= 4
        e += 1
        if e > 127:
            return bytes([s | 0x7F, 0xFF, 0xFF, 0xFF])
    if f == 0:
        return b'\x00\x00\x00\x00'
    return bytes([s | e, (f >> 16) & 0xFF, (f >> 8) & 0xFF, f & 0xFF])


# ---------------------------------------------------------------------------------------------- framing
def tif_marker(tif_type, prev, nxt):
    return struct.pack('<3L', tif_type, prev, nxt)


def _printable(rng, n):
    return bytes(rng.choice(PRINTABLE) for _ in range(n))


def random_description(rng, n=72):
    """Printable text, blank padded to n bytes (like 'SHELL EXPRO U.K.      24 OCT 84 ...')."""
    words = []
    while sum(len(w) + 1 for w in words) < n:
        words.append(bytes(rng.choice(b'ABCDEFGHIJKLMNOPQRSTUVWXYZ0123456789./-') for _ in range(rng.randrange(1, 9))))
    text = b' '.join(words)[:rng.randrange(1, n + 1)]
    return text.ljust(n, b' ')


def header_block(names, range_words, description=None, head=DEFAULT_HEAD, bin_a=b'\x00\x0a\x00\x18\x00',
                 text_b=None, bin_c=b'\x00\x12\x00\x0b\x00\x06  ', tail=DEFAULT_TAIL, null=0, name_fill=None):
    """The 276 byte first block of a pass.  names: 4-byte names (<= 20); range_words: five 4-byte IBM words."""
    if len(names) > MAX_CHANNELS:
        raise ValueError('at most 20 channels')
    if description is None:
        description = b'TDV'.ljust(72)
    if text_b is None:
        text_b = b'T'.ljust(75)
    if not (len(head) == 4 and len(description) == 72 and len(bin_a) == 5 and len(text_b) == 75 and len(bin_c) == 8 and len(tail) == 8):
        raise ValueError('bad field length')
    if len(range_words) != 5 or any(len(w) != 4 for w in range_words) or any(len(n) != 4 for n in names):
        raise ValueError('bad names / range words')
    b = head + description + bin_a + text_b + bin_c + struct.pack('>HH', len(names), null)
    table = b''.join(names)
    if name_fill is None:
        table = table.ljust(4 * MAX_CHANNELS, b' ')
    else:
        # the slots of the name table beyond the channel count carry no information: whatever the writer left there
        table += (name_fill * (4 * MAX_CHANNELS))[:4 * MAX_CHANNELS - len(table)]
    b += table + b''.join(range_words) + tail
    assert len(b) == HEADER_LEN, len(b)
    return b


class PassModel:
    """One log pass.

    names        : list of 4-byte channel names (bytes), names_str the same as str
    description  : 72 bytes
    range_words  : five 4-byte IBM words (start, stop, spacing, unknown a, unknown b)
    start, stop, spacing, unknown_a, unknown_b : their exact values as floats
    block_frames : frames held by each data block, in file order
    words        : words[channel][frame] = 4 bytes
    frames       : number of frames = sum(block_frames)
    header       : the 276 byte block (built on demand or as decoded)
    header_fields: dict of the remaining header bytes (head, bin_a, text_b, bin_c, tail, null)
    """

    def __init__(self, names, range_words, block_frames, words, description=None, header_fields=None):
        self.names = [bytes(n) for n in names]
        self.range_words = [bytes(w) for w in range_words]
        self.block_frames = list(block_frames)
        self.words = words
        self.description = description if description is not None else b'TDV'.ljust(72)
        self.header_fields = dict(header_fields or {})
        if any(len(ch) != self.frames for ch in words) or len(words) != len(self.names):
            raise ValueError('words must be [channel][frame] with sum(block_frames) frames per channel')

    names_str = property(lambda self: [n.decode('ascii') for n in self.names])
    frames = property(lambda self: sum(self.block_frames))
    channels = property(lambda self: len(self.names))
    start = property(lambda self: ibm_to_float(self.range_words[0]))
    stop = property(lambda self: ibm_to_float(self.range_words[1]))
    spacing = property(lambda self: ibm_to_float(self.range_words[2]))
    unknown_a = property(lambda self: ibm_to_float(self.range_words[3]))
    unknown_b = property(lambda self: ibm_to_float(self.range_words[4]))

    @property
    def header(self):
        return header_block(self.names, self.range_words, self.description, **self.header_fields)

    @property
    def increasing(self):
        return ibm_exact(self.range_words[1]) > ibm_exact(self.range_words[0])

    def x_exact(self, i):
        """Exact X of frame i: start depth moved i spacings towards the stop depth."""
        st, sp = ibm_exact(self.range_words[0]), ibm_exact(self.range_words[2])
        return st + i * sp if self.increasing else st - i * sp

    def values(self, channel):
        """Exact values of one channel as floats."""
        return [ibm_to_float(w) for w in self.words[channel]]

    def data_blocks(self):
        """The channel-major payload of every data block."""
        out, at = [], 0
        for n in self.block_frames:
            out.append(b''.join(b''.join(ch[at:at + n]) for ch in self.words))
            at += n
        return out

    def short_last_block(self):
        return len(self.block_frames) >= 2 and self.block_frames[-1] < max(self.block_frames[:-1])


class FileModel:
    """passes: [PassModel]; markers: [(position, type, prev, next)]; blocks: [(pass index, 'header'|'data'|'end'|'eof',
    marker position, payload length)]; length: file length; end_markers: trailing type-1 markers after the last pass end."""

    def __init__(self):
        self.passes, self.markers, self.blocks = [], [], []
        self.length = 0
        self.end_markers = 0
        self.trailing = b''


def write_file(passes, end_markers=2, trailing=b''):
    """Encode passes.  end_markers: number of type-1 markers after the last pass (2 = well formed: one ends the
    pass, one ends the file; 1 = file end marker missing; 0 = not even the pass end)."""
    model = FileModel()
    model.passes = list(passes)
    model.end_markers = end_markers
    model.trailing = bytes(trailing)
    chunks = []   # (pass index, kind, type, payload)
    for pi, p in enumerate(passes):
        chunks.append((pi, 'header', 0, p.header))
        for blk in p.data_blocks():
            chunks.append((pi, 'data', 0, blk))
        last = pi == len(passes) - 1
        if not last or end_markers >= 1:
            chunks.append((pi, 'end', 1, b''))
    for _ in range(max(0, end_markers - 1)):
        chunks.append((len(passes) - 1, 'eof', 1, b''))
    out = bytearray()
    prev = 0
    for pi, kind, typ, payload in chunks:
        pos = len(out)
        nxt = pos + TIF_LEN + len(payload)
        out += tif_marker(typ, prev, nxt) + payload
        model.markers.append((pos, typ, prev, nxt))
        model.blocks.append((pi, kind, pos, len(payload)))
        prev = pos
    out += trailing
    model.length = len(out)
    return bytes(out), model


# ---------------------------------------------------------------------------------------------- random content
def random_word(rng, kind=None):
    """A four byte word.  kinds: 'any' (32 random bits), 'zero' (zero fraction, any sign/exponent),
    'unnormalised' (leading hex digit(s) zero), 'extreme' (exponent 0 or 127), 'ones' (fraction 0xffffff), 'small-int'."""
    if kind is None:
        r = rng.random()
        kind = ('any' if r < 0.86 else 'zero' if r < 0.89 else 'unnormalised' if r < 0.94 else
                'extreme' if r < 0.97 else 'ones' if r < 0.98 else 'small-int')
    if kind == 'any':
        return rng.getrandbits(32).to_bytes(4, 'big')
    if kind == 'zero':
        return bytes([rng.getrandbits(8), 0, 0, 0])
    if kind == 'unnormalised':
        f = rng.getrandbits(24) >> (4 * rng.randrange(1, 6))
        return bytes([rng.getrandbits(8)]) + f.to_bytes(3, 'big')
    if kind == 'extreme':
        return bytes([rng.choice([0x00, 0x80, 0x7F, 0xFF])]) + rng.getrandbits(24).to_bytes(3, 'big')
    if kind == 'ones':
        return bytes([rng.getrandbits(8), 0xFF, 0xFF, 0xFF])
    if kind == 'small-int':
        return ibm_encode(rng.randrange(-1000, 1000))
    raise ValueError(kind)


def random_words(rng, n, unique_values=True, seen=None):
    """n words; with unique_values no two non-zero words of the result (and of `seen`) have the same value."""
    seen = set() if seen is None else seen
    out = []
    while len(out) < n:
        w = random_word(rng)
        if unique_values:
            s, e, f = ibm_fields(w)
            if f:
                while not f & 0xF and f:      # canonical key of the value: strip trailing zero hex digits
                    f >>= 4
                    e += 1
                key = (s, e, f)
                if key in seen:
                    continue
                seen.add(key)
        out.append(w)
    return out


# any printable ASCII may sit in a name slot: lower case, punctuation, blanks inside or in front (right-justified names)
WIDE_NAME_ALPHABET = NAME_ALPHABET + b'abcdefghijklmnopqrstuvwxyz' + b'/-_.+#%()*&<>=?@[]^~!$,:;|{}' + b"'" + b'"`\\'


def random_names(rng, n, forbidden=(b'X   ',), alphabet=None):
    """alphabet=None: the classic [A-Z0-9] left-justified names (same random stream as ever); otherwise names over the given
    alphabet, sometimes right-justified or with a blank inside."""
    names = []
    while len(names) < n:
        k = rng.randrange(1, 5)
        if alphabet is None:
            nm = bytes(rng.choice(NAME_ALPHABET) for _ in range(k)).ljust(4, b' ')
        else:
            raw = bytes(rng.choice(alphabet) for _ in range(k))
            r = rng.random()
            if r < 0.1:
                nm = raw.rjust(4, b' ')
            elif r < 0.2 and k == 3:
                nm = raw[:1] + b' ' + raw[1:]
            else:
                nm = raw.ljust(4, b' ')
        if nm not in names and nm not in forbidden:
            names.append(nm)
    if alphabet is not None and n >= 2 and rng.random() < 0.15:
        # one channel whose name slot is all blanks (printable ASCII like any other: an unnamed auxiliary curve); it still counts
        names[rng.randrange(n)] = b'    '
    return names


def random_range(rng, frames=None):
    """Five IBM words: start, stop (!= start), spacing (> 0), unknown a (0), unknown b.
    With `frames` the stop depth is made consistent with start, spacing and the frame count half of the time."""
    while True:
        spacing = ibm_encode(Fraction(rng.choice([1, 1, 1, 3, 5, rng.randrange(1, 4000)]), rng.choice([1, 2, 4, 8, 10, 100, 1000])))
        if rng.random() < 0.3:
            spacing = bytes([rng.randrange(0x3D, 0x44)]) + rng.getrandbits(24).to_bytes(3, 'big')
        if rng.random() < 0.7:
            start = ibm_encode(Fraction(rng.randrange(-200000, 3000000), rng.choice([1, 2, 4, 10, 100])))
        else:
            start = bytes([rng.choice([0, 0x80]) | rng.randrange(0x3E, 0x47)]) + rng.getrandbits(24).to_bytes(3, 'big')
        up = rng.random() < 0.5
        sp, st = ibm_exact(spacing), ibm_exact(start)
        if sp <= 0:
            continue
        if frames and rng.random() < 0.5:
            stop = ibm_encode(st + (-1 if up else 1) * sp * max(1, frames - 1))
        else:
            stop = ibm_encode(st + (-1 if up else 1) * sp * rng.randrange(1, 5000))
        if ibm_exact(stop) == st:
            continue
        if (ibm_exact(stop) < st) != up:
            continue
        unknown_b = ibm_encode(rng.choice([16, 16, 1, 64, rng.randrange(0, 1000)]))
        return [start, stop, spacing, b'\x00\x00\x00\x00', unknown_b]


def random_block_frames(rng, max_block=64, max_blocks=8, allow_empty=True):
    """Frames per data block: mostly a constant block size with a short last block."""
    r = rng.random()
    if allow_empty and r < 0.02:
        return []
    full = rng.randrange(1, max_block + 1)
    if r < 0.12:
        return [full]
    if r < 0.24:
        return [rng.randrange(1, max_block + 1) for _ in range(rng.randrange(2, max_blocks + 1))]
    nfull = rng.randrange(1, max_blocks)
    if full == 1 or r < 0.34:
        return [full] * (nfull + 1)
    return [full] * nfull + [rng.randrange(1, full)]


def random_pass(rng, channels=None, block_frames=None, max_block=64, max_blocks=8, unique_values=True, name_alphabet=None, unused_slot_fill_p=0.0):
    nch = channels if channels is not None else rng.choice([1, 2, 3, rng.randrange(1, MAX_CHANNELS + 1), rng.randrange(2, MAX_CHANNELS + 1), MAX_CHANNELS])
    bf = block_frames if block_frames is not None else random_block_frames(rng, max_block, max_blocks)
    n = sum(bf)
    flat = random_words(rng, nch * n, unique_values)
    words = [flat[c * n:(c + 1) * n] for c in range(nch)]
    fields = {'head': bytes([0, rng.randrange(0, 4), 0, 0]), 'text_b': _printable(rng, 75) if rng.random() < 0.5 else b'T  2 9 / 1 0 - 3'.ljust(75),
              'bin_a': bytes(rng.getrandbits(8) for _ in range(5)), 'bin_c': bytes(rng.getrandbits(8) for _ in range(6)) + b'  ',
              'tail': _printable(rng, 8)}
    if unused_slot_fill_p and nch < MAX_CHANNELS and rng.random() < unused_slot_fill_p:
        fields['name_fill'] = rng.choice([b'\x00', b'\xff', b'\x80\x81\xfe', bytes(rng.getrandbits(8) for _ in range(rng.randrange(1, 80)))])
    return PassModel(random_names(rng, nch, alphabet=name_alphabet), random_range(rng, n), bf, words, random_description(rng), fields)


def random_file(rng, passes=None, **kw):
    """(bytes, FileModel) of 1..4 random passes."""
    npass = passes if passes is not None else rng.choice([1, 1, 2, 2, 3, 4])
    return write_file([random_pass(rng, **kw) for _ in range(npass)])


# ---------------------------------------------------------------------------------------------- strict reader
def decode_file(data):
    """Independent strict reader: bytes -> FileModel (words, names, ranges as stored).  The file must be a sequence of
    passes each closed by a type-1 marker and the last followed by a second type-1 marker."""
    model = FileModel()
    pos, prev_type, cur = 0, None, None
    pi = -1
    while True:
        if pos + TIF_LEN > len(data):
            raise BitFormatError('file ends without a doubled type-1 marker at %d' % pos)
        typ, prev, nxt = struct.unpack_from('<3L', data, pos)
        if nxt < pos + TIF_LEN or nxt > len(data):
            raise BitFormatError('TIF next pointer %d at %d outside the file' % (nxt, pos))
        payload = data[pos + TIF_LEN:nxt]
        model.markers.append((pos, typ, prev, nxt))
        if typ == 0:
            if cur is None:
                if len(payload) != HEADER_LEN:
                    raise BitFormatError('first block of a pass is %d bytes' % len(payload))
                pi += 1
                count, null = struct.unpack_from('>HH', payload, 164)
                if count > MAX_CHANNELS:
                    raise BitFormatError('channel count %d' % count)
                names = [payload[168 + 4 * i:172 + 4 * i] for i in range(count)]
                rw = [payload[248 + 4 * i:252 + 4 * i] for i in range(5)]
                cur = {'names': names, 'range': rw, 'desc': payload[4:76], 'bf': [], 'words': [[] for _ in names],
                       'fields': {'head': payload[:4], 'bin_a': payload[76:81], 'text_b': payload[81:156], 'bin_c': payload[156:164],
                                  'tail': payload[268:276], 'null': null}}
                model.blocks.append((pi, 'header', pos, len(payload)))
            else:
                nch = len(cur['names'])
                if nch == 0 or len(payload) % (4 * nch):
                    raise BitFormatError('data block of %d bytes for %d channels' % (len(payload), nch))
                n = len(payload) // (4 * nch)
                for c in range(nch):
                    base = 4 * n * c
                    cur['words'][c].extend(payload[base + 4 * k:base + 4 * k + 4] for k in range(n))
                cur['bf'].append(n)
                model.blocks.append((pi, 'data', pos, len(payload)))
        elif typ == 1:
            if payload:
                raise BitFormatError('type-1 marker with payload')
            if cur is not None:
                model.passes.append(PassModel(cur['names'], cur['range'], cur['bf'], cur['words'], cur['desc'], cur['fields']))
                model.blocks.append((pi, 'end', pos, 0))
                cur = None
            elif prev_type == 1:
                model.blocks.append((pi, 'eof', pos, 0))
                model.end_markers = 2
                model.trailing = data[nxt:]
                model.length = len(data)
                return model
            else:
                raise BitFormatError('type-1 marker before any pass')
        else:
            raise BitFormatError('TIF type %d' % typ)
        prev_type = typ
        pos = nxt
