"""Independent LIS-79 physical layer encoder (physical records, trailers, TIF markers).

Written from the format description (LIS-79 section 2.3.1 "Physical Record" and the TIF "tape image
format" convention); shares no code with TotalDepth.  Returns bytes plus a model that says where every
logical byte was put - the model never passes through TotalDepth code and is the oracle's ground truth.

Format, as encoded here
-----------------------
Physical record (PR) = header (4 bytes) + logical data + optional trailer.

* header: 16 bit big-endian *physical record length* (header + data + trailer, in bytes), then 16 bit
  big-endian *attributes*.  Attribute bits (value masks): 0x0001 a successor PR continues this logical
  record, 0x0002 this PR has a predecessor, 0x0200 trailer has a record number, 0x0400 trailer has a file
  number, 0x1000 trailer has a 16 bit checksum (checksum type 01).  All other bits zero (PR type 0).
* trailer: [record number][file number][checksum], each 16 bit big-endian, each present iff its bit is set.
  The record number counts physical records from ``record_number_start`` modulo 2**16.
* a logical record (LR) longer than the payload capacity ``pr_len - 4 - trailer length`` is split over
  consecutive PRs; all but the last are full and carry the successor bit, all but the first the predecessor bit.

TIF markers (optional): 12 bytes = three 32 bit words (type, back, next) before every PR; type 0 for data,
``back`` = file position of the previous marker (0 for the first), ``next`` = file position of the next marker.
The file ends with two EOF markers of type 1 (each ``next`` = its own position + 12).  Words are little-endian
in a normal TIF file (``tif='le'``); ``tif='be'`` writes the byte-reversed variant that readers must tolerate.

API
---
    data, model = frame_file([b'lr0', b'lr1', ...], pr_len=1024,
                             trailer=Trailer(record_number=True, file_number=7, checksum=False), tif='le')

    model.records[i]  -> LogicalRec(index, position, data, phys=[PhysRec...])    position = where to seek to read LR i
    model.phys[j]     -> PhysRec(position, tif_position, header_position, length, attributes, payload_position,
                                 payload_length, lr_index, lr_offset, trailer_position, record_number, file_number,
                                 checksum_position, end)
    model.starts      -> [records[i].position]
    model.tif_markers -> [TifMarker(position, type, back, next)]   (data markers then the two EOF markers)
    model.checksum_ranges -> [(start, stop)] of the checksum value bytes (for masking)
    mask_checksums(data, model)         -> data with the checksum value bytes zeroed
    rewrite_tif(data, model, 'be'|'le') -> same file with every TIF marker in the other byte order
    strip_tif(data, model)              -> the file without markers (by the model's marker positions)
    tif_byte_order_ambiguous(first_next)-> True iff a first marker cannot tell the two byte orders apart
    capacity(pr_len, trailer)           -> payload bytes per full PR;  min_pr_len(trailer)
"""
import struct

PRH_LENGTH = 4
TIF_LENGTH = 12
PR_LEN_MAX = 0xFFFF

ATTR_SUCCESSOR = 0x0001
ATTR_PREDECESSOR = 0x0002
ATTR_RECORD_NUMBER = 0x0200
ATTR_FILE_NUMBER = 0x0400
ATTR_CHECKSUM = 0x1000

_U16 = struct.Struct('>H')
_PRH = struct.Struct('>HH')
_TIF = {'le': struct.Struct('<3L'), 'be': struct.Struct('>3L')}


class Trailer:
    """Which physical record trailer fields are present."""
    __slots__ = ('record_number', 'file_number', 'checksum')

    def __init__(self, record_number=False, file_number=None, checksum=False):
        if file_number is not None and not 0 <= file_number <= 0xFFFF:
            raise ValueError('file number is a 16 bit unsigned field: %r' % (file_number,))
        self.record_number = bool(record_number)
        self.file_number = file_number
        self.checksum = bool(checksum)

    @property
    def length(self):
        return 2 * (int(self.record_number) + int(self.file_number is not None) + int(self.checksum))

    @property
    def attributes(self):
        return ((ATTR_RECORD_NUMBER if self.record_number else 0) | (ATTR_FILE_NUMBER if self.file_number is not None else 0)
                | (ATTR_CHECKSUM if self.checksum else 0))

    def as_dict(self):
        return {'record_number': self.record_number, 'file_number': self.file_number, 'checksum': self.checksum}

    def __repr__(self):
        return 'Trailer(record_number=%r, file_number=%r, checksum=%r)' % (self.record_number, self.file_number, self.checksum)


def min_pr_len(trailer=None):
    """Smallest physical record length that still carries one byte of logical data."""
    return PRH_LENGTH + (trailer.length if trailer else 0) + 1


def capacity(pr_len, trailer=None):
    """Logical data bytes in a full physical record."""
    return pr_len - PRH_LENGTH - (trailer.length if trailer else 0)


class PhysRec:
    """Extent of one physical record.  All positions are absolute file positions."""
    __slots__ = ('position', 'tif_position', 'header_position', 'length', 'attributes', 'payload_position', 'payload_length',
                 'lr_index', 'lr_offset', 'trailer_position', 'record_number', 'file_number', 'checksum_position', 'end')

    @property
    def payload_end(self):
        return self.payload_position + self.payload_length

    @property
    def has_successor(self):
        return bool(self.attributes & ATTR_SUCCESSOR)

    @property
    def has_predecessor(self):
        return bool(self.attributes & ATTR_PREDECESSOR)

    def as_dict(self):
        return {k: getattr(self, k) for k in self.__slots__}


class LogicalRec:
    """One logical record: ``position`` is where a reader seeks to (the TIF marker when markers are present,
    otherwise the first physical record header)."""
    __slots__ = ('index', 'position', 'data', 'phys')

    def __init__(self, index, position, data):
        self.index, self.position, self.data, self.phys = index, position, data, []

    @property
    def end(self):
        return self.phys[-1].end if self.phys else self.position

    def physical_position(self, offset):
        """File position of logical byte ``offset`` (0 <= offset < len(data))."""
        for p in self.phys:
            if p.lr_offset <= offset < p.lr_offset + p.payload_length:
                return p.payload_position + offset - p.lr_offset
        raise IndexError(offset)


class TifMarker:
    __slots__ = ('position', 'type', 'back', 'next')

    def __init__(self, position, type_, back, next_):
        self.position, self.type, self.back, self.next = position, type_, back, next_

    def as_tuple(self):
        return (self.position, self.type, self.back, self.next)


class FileModel:
    def __init__(self, pr_len, trailer, tif):
        self.pr_len = pr_len
        self.trailer = trailer
        self.tif = tif                # None | 'le' | 'be'
        self.records = []             # [LogicalRec]
        self.phys = []                # [PhysRec] in file order
        self.tif_markers = []         # [TifMarker] in file order, EOF markers last
        self.checksum_ranges = []     # [(start, stop)]
        self.size = 0

    @property
    def starts(self):
        return [r.position for r in self.records]

    @property
    def capacity(self):
        return capacity(self.pr_len, self.trailer)

    def describe(self):
        return {'pr_len': self.pr_len, 'trailer': self.trailer.as_dict(), 'tif': self.tif, 'size': self.size,
                'lr_lengths': [len(r.data) for r in self.records][:60], 'lr_starts': self.starts[:60],
                'physical_records': len(self.phys)}


def _chunks(n, cap, split):
    """Payload lengths of the physical records of an n byte logical record."""
    if split is not None:
        split = [int(x) for x in split]
        if sum(split) != n or any(x < 0 or x > cap for x in split) or not split:
            raise ValueError('split %r does not partition %d bytes into chunks of at most %d' % (split, n, cap))
        return split
    if n == 0:
        return [0]
    out = [cap] * (n // cap)
    if n % cap:
        out.append(n % cap)
    return out


def frame_file(logical_records, pr_len=PR_LEN_MAX, trailer=None, tif=None, *, record_number_start=0,
               checksum=None, splits=None, allow_empty=False):
    """Frame logical records into a LIS-79 physical file.

    logical_records : list of bytes (logical record header + body, opaque here).
    pr_len          : maximum physical record length, min_pr_len(trailer)..65535.
    trailer         : Trailer or None (no trailer).
    tif             : None/False (no markers), True/'le' (normal, little-endian words), 'be' (byte-reversed words).
    record_number_start : first trailer record number.
    checksum        : callable(bytes of header+data+preceding trailer fields) -> int for the checksum value;
                      default writes 0 (see model.checksum_ranges / mask_checksums).
    splits          : optional per record list of payload lengths (or None entries) overriding the greedy split;
                      every chunk must fit the capacity.
    allow_empty     : a zero length logical record becomes one physical record without data instead of an error.
    Returns (bytes, FileModel).
    """
    trailer = trailer or Trailer()
    if tif is True:
        tif = 'le'
    elif not tif:
        tif = None
    if tif not in (None, 'le', 'be'):
        raise ValueError('tif must be None, "le" or "be": %r' % (tif,))
    if not min_pr_len(trailer) <= pr_len <= PR_LEN_MAX:
        raise ValueError('physical record length %r outside %d..%d' % (pr_len, min_pr_len(trailer), PR_LEN_MAX))
    cap = capacity(pr_len, trailer)
    tlen = trailer.length
    model = FileModel(pr_len, trailer, tif)
    out = bytearray()
    recno = record_number_start
    prev_marker = 0
    for i, lr in enumerate(logical_records):
        lr = bytes(lr)
        if not lr and not allow_empty:
            raise ValueError('logical record %d is empty' % i)
        sizes = _chunks(len(lr), cap, splits[i] if splits is not None else None)
        rec = LogicalRec(i, len(out), lr)
        ofs = 0
        for j, n in enumerate(sizes):
            p = PhysRec()
            p.position = len(out)
            p.lr_index, p.lr_offset, p.payload_length = i, ofs, n
            p.length = PRH_LENGTH + n + tlen
            p.attributes = trailer.attributes | (ATTR_SUCCESSOR if j + 1 < len(sizes) else 0) | (ATTR_PREDECESSOR if j else 0)
            if tif:
                p.tif_position = p.position
                m = TifMarker(p.position, 0, prev_marker, p.position + TIF_LENGTH + p.length)
                out += _TIF[tif].pack(m.type, m.back, m.next)
                model.tif_markers.append(m)
                prev_marker = p.position
            else:
                p.tif_position = None
            p.header_position = len(out)
            body = bytearray(_PRH.pack(p.length, p.attributes))
            p.payload_position = p.header_position + PRH_LENGTH
            body += lr[ofs:ofs + n]
            p.trailer_position = p.header_position + len(body)
            p.record_number = p.file_number = p.checksum_position = None
            if trailer.record_number:
                p.record_number = recno & 0xFFFF
                body += _U16.pack(p.record_number)
                recno += 1
            if trailer.file_number is not None:
                p.file_number = trailer.file_number
                body += _U16.pack(p.file_number)
            if trailer.checksum:
                p.checksum_position = p.header_position + len(body)
                body += _U16.pack((checksum(bytes(body)) & 0xFFFF) if checksum else 0)
                model.checksum_ranges.append((p.checksum_position, p.checksum_position + 2))
            assert len(body) == p.length
            out += body
            p.end = len(out)
            ofs += n
            rec.phys.append(p)
            model.phys.append(p)
        model.records.append(rec)
    if tif:
        for _ in range(2):
            pos = len(out)
            m = TifMarker(pos, 1, prev_marker, pos + TIF_LENGTH)
            out += _TIF[tif].pack(m.type, m.back, m.next)
            model.tif_markers.append(m)
            prev_marker = pos
    model.size = len(out)
    return bytes(out), model


def mask_checksums(data, model, fill=b'\x00\x00'):
    """The file with every checksum value replaced by ``fill``."""
    if not model.checksum_ranges:
        return bytes(data)
    b = bytearray(data)
    for s, e in model.checksum_ranges:
        if e <= len(b):
            b[s:e] = fill
    return bytes(b)


def rewrite_tif(data, model, order):
    """The same file with all TIF markers written in byte order ``order`` ('le' or 'be').  ``data`` may be the bytes of
    any file with the model's layout (e.g. the output of the writer under test); only marker bytes are replaced."""
    if model.tif is None:
        raise ValueError('file has no TIF markers')
    b = bytearray(data)
    for m in model.tif_markers:
        b[m.position:m.position + TIF_LENGTH] = _TIF[order].pack(m.type, m.back, m.next)
    return bytes(b)


def strip_tif(data, model):
    """The file without its TIF markers, by the model's marker positions."""
    if model.tif is None:
        return bytes(data)
    out = bytearray()
    pos = 0
    for m in model.tif_markers:
        out += data[pos:m.position]
        pos = m.position + TIF_LENGTH
    out += data[pos:]
    return bytes(out)


def tif_byte_order_ambiguous(first_next):
    """True iff the first marker (0, 0, first_next) reads as a plausible first marker in *both* byte orders, i.e. the
    byte-swapped ``next`` is also a possible position of a second marker (<= 65535 + 12).  For such files the byte
    order cannot be decided from the first marker; 0x100 and 0x10000 are the only such values above 12."""
    swapped = int.from_bytes(int(first_next).to_bytes(4, 'big'), 'little')
    return swapped <= PR_LEN_MAX + TIF_LENGTH
