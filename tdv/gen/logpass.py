"""Independent generator of RP66V1 log passes: CHANNEL and FRAME sets (RP66V1 5.5, 5.7) plus the frame data records
(IFLR type 0, RP66V1 3.3 / 5.6) with position-identifying values.  Shares no code with TotalDepth.

    lrs, model = random_logpass_file(rng, ...)      # lrs: [dlis.LR]; model: FileModel (below)
    data, phys = dlis.write_file_safe(rng, lrs)     # physical layout is the caller's business

model.logical_files[i].frame_types[j] : FrameType(name, channels=[Channel], frames=[Frame(number, lr_index, values=[ndarray per channel])])
A channel value of one frame is an ndarray of the channel's dimensions (C order = order of recording, see ASSUMPTIONS of C04)
in the numeric type of the representation code (table DTYPE below, written here, not taken from the code under test).
"""
import struct
from fractions import Fraction

import numpy as np

from . import eflr as E
from .dlis import LR

DTYPE = {E.FSINGL: 'float32', E.ISINGL: 'float32', E.VSINGL: 'float32', E.FDOUBL: 'float64', E.SSHORT: 'int8', E.SNORM: 'int16',
         E.SLONG: 'int32', E.USHORT: 'uint8', E.UNORM: 'uint16', E.ULONG: 'uint32'}
FRAME_CODES = tuple(sorted(DTYPE))
WIDE = (E.FSINGL, E.ISINGL, E.FDOUBL, E.SLONG, E.ULONG)     # codes in which every element of a file can be made unique


class Channel:
    def __init__(self, name, rc, dims, units, long_name):
        self.name, self.rc, self.dims, self.units, self.long_name = name, rc, tuple(dims), units, long_name
        self.count = 1
        for d in self.dims:
            self.count *= d
        self.ident = name[2].decode('ascii')
        self.dtype = DTYPE[rc]
        self.nbytes = self.count * E.FIXED_SIZE[rc]


class Frame:
    __slots__ = ('number', 'lr_index', 'values')

    def __init__(self, number, lr_index, values):
        self.number, self.lr_index, self.values = number, lr_index, values


class FrameType:
    def __init__(self, name, channels, description):
        self.name, self.channels, self.description = name, channels, description
        self.frames = []
        self.empty_records = 0


class LogicalFileModel:
    def __init__(self):
        self.frame_types = []
        self.tables = []          # (lr_index, eflr.Table) of every plain EFLR, in file order
        self.first_lr = None


class FileModel:
    def __init__(self):
        self.logical_files = []
        self.encrypted = []       # lr indexes
        self.other_iflrs = 0      # indirectly formatted records that are not frame data


def encode_element(rc, uid):
    """A value for representation code rc derived from the file-wide element counter uid -> (bytes, python number).
    Unique per uid for the wide codes (uid < 2**22), a position-dependent pattern for the narrow ones."""
    if rc == E.FDOUBL:
        v = float(uid) + 0.25
        if uid % 5 == 0:
            v = -v
        return struct.pack('>d', v), v
    if rc == E.FSINGL:
        v = float(uid) + (0.5 if uid < (1 << 22) else 0.0)
        if uid % 7 == 0:
            v = -v
        return struct.pack('>f', v), v          # exact: fewer than 24 significant bits
    if rc == E.ISINGL:
        # IBM word with fraction = uid (24 bits) and exponent 16**(e-64): value uid * 16**(e-70), kept inside float32 range
        e = 70 + (uid % 5) - 2
        by, fr = E.enc_isingl(1 if uid % 3 == 0 else 0, e, uid & 0xffffff)
        return by, float(fr)
    if rc == E.VSINGL:
        e = 1 + (uid % 254)
        by, fr = E.enc_vsingl_zero_mantissa(uid & 1, e)
        return by, float(fr)
    if rc == E.SSHORT:
        v = ((uid * 37) % 256) - 128
        return struct.pack('>b', v), v
    if rc == E.SNORM:
        v = ((uid * 40503) % 65536) - 32768
        return struct.pack('>h', v), v
    if rc == E.SLONG:
        v = ((uid * 2654435761) % (1 << 32)) - (1 << 31)
        return struct.pack('>i', v), v
    if rc == E.USHORT:
        v = (uid * 37) % 256
        return bytes([v]), v
    if rc == E.UNORM:
        v = (uid * 40503) % 65536
        return struct.pack('>H', v), v
    if rc == E.ULONG:
        v = (uid * 2654435761) % (1 << 32)
        return struct.pack('>I', v), v
    raise ValueError(rc)


def _channel_table(rng, channels):
    """CHANNEL set (5.5.1).  Attribute order and the optional attributes vary; LONG-NAME / UNITS are sometimes absent."""
    labels = [b'LONG-NAME', b'REPRESENTATION-CODE', b'UNITS', b'DIMENSION']
    extra = [lab for lab in (b'PROPERTIES', b'AXIS', b'ELEMENT-LIMIT', b'SOURCE') if rng.random() < 0.4]
    labels += extra
    rng.shuffle(labels)
    rcs = {b'LONG-NAME': E.ASCII, b'REPRESENTATION-CODE': E.USHORT, b'UNITS': E.UNITS, b'DIMENSION': E.UVARI, b'PROPERTIES': E.IDENT,
           b'AXIS': E.OBNAME, b'ELEMENT-LIMIT': E.UVARI, b'SOURCE': E.OBJREF}
    template = [E.TAttr(lab, False, None, rcs[lab]) for lab in labels]
    # a template default for the representation code, used by objects that leave the component out at the end
    default_rc = None
    if labels[-1] == b'REPRESENTATION-CODE' and rng.random() < 0.7:
        default_rc = rng.choice([c.rc for c in channels])
        template[-1] = E.TAttr(b'REPRESENTATION-CODE', False, None, E.USHORT, None, bytes([default_rc]), [default_rc])
    objects = []
    for ch in channels:
        cells = []
        for lab in labels:
            if lab == b'LONG-NAME':
                if ch.long_name is None:
                    cells.append(E.Cell('absent'))
                else:
                    cells.append(E.Cell('attrib', value_bytes=E.enc_ascii(ch.long_name), value=[E.cb(ch.long_name)]))
            elif lab == b'REPRESENTATION-CODE':
                if default_rc == ch.rc and rng.random() < 0.7:
                    cells.append(E.Cell('omitted'))
                else:
                    cells.append(E.Cell('attrib', value_bytes=bytes([ch.rc]), value=[ch.rc]))
            elif lab == b'UNITS':
                if ch.units is None:
                    cells.append(E.Cell('absent'))
                else:
                    cells.append(E.Cell('attrib', value_bytes=E.enc_ident(ch.units), value=[E.cb(ch.units)]))
            elif lab == b'DIMENSION':
                vb = b''.join(E.enc_uvari(d) for d in ch.dims)
                cells.append(E.Cell('attrib', count=None if len(ch.dims) == 1 else len(ch.dims), value_bytes=vb, value=list(ch.dims)))
            elif lab == b'ELEMENT-LIMIT':
                vb = b''.join(E.enc_uvari(d) for d in ch.dims)
                cells.append(E.Cell('attrib', count=None if len(ch.dims) == 1 else len(ch.dims), value_bytes=vb, value=list(ch.dims)))
            elif rng.random() < 0.5:
                cells.append(E.Cell('absent'))
            else:
                n = rng.randrange(1, 3)
                vb, vv = E.gen_values(rng, rcs[lab], n)
                cells.append(E.Cell('attrib', count=None if n == 1 else n, value_bytes=vb, value=vv))
        # trailing 'omitted' cells are legal only at the end: everything after the last real component must be omitted
        last = max((i for i, c in enumerate(cells) if c.kind != 'omitted'), default=-1)
        for i, c in enumerate(cells):
            if c.kind == 'omitted' and i < last:
                cells[i] = E.Cell('attrib', value_bytes=bytes([ch.rc]), value=[ch.rc])
        objects.append(E.Obj(ch.name, cells))
    return E.Table(3, b'CHANNEL', None if rng.random() < 0.5 else E.rand_ident(rng, 6), template, objects)


def _frame_table(rng, frame_types):
    """FRAME set (5.7.1)."""
    labels = [b'CHANNELS']
    if rng.random() < 0.8:
        labels.append(b'DESCRIPTION')
    labels += [lab for lab in (b'INDEX-TYPE', b'DIRECTION', b'SPACING', b'ENCRYPTED', b'INDEX-MIN', b'INDEX-MAX') if rng.random() < 0.4]
    rng.shuffle(labels)
    rcs = {b'CHANNELS': E.OBNAME, b'DESCRIPTION': E.ASCII, b'INDEX-TYPE': E.IDENT, b'DIRECTION': E.IDENT, b'SPACING': E.FDOUBL,
           b'ENCRYPTED': E.USHORT, b'INDEX-MIN': E.FDOUBL, b'INDEX-MAX': E.FDOUBL}
    template = [E.TAttr(lab, False, None, rcs[lab]) for lab in labels]
    objects = []
    for ft in frame_types:
        cells = []
        for lab in labels:
            if lab == b'CHANNELS':
                vb = b''.join(E.enc_obname(*c.name) for c in ft.channels)
                n = len(ft.channels)
                cells.append(E.Cell('attrib', count=None if n == 1 else n, value_bytes=vb, value=[E.c_obname(*c.name) for c in ft.channels]))
            elif lab == b'DESCRIPTION':
                if ft.description is None:
                    cells.append(E.Cell('absent'))
                else:
                    cells.append(E.Cell('attrib', value_bytes=E.enc_ascii(ft.description), value=[E.cb(ft.description)]))
            elif rng.random() < 0.4:
                cells.append(E.Cell('absent'))
            else:
                vb, vv = E.gen_values(rng, rcs[lab], 1)
                cells.append(E.Cell('attrib', value_bytes=vb, value=vv))
        objects.append(E.Obj(ft.name, cells))
    return E.Table(4, b'FRAME', None if rng.random() < 0.5 else E.rand_ident(rng, 6), template, objects)


NAME_POOL = None      # optional list of identifiers to draw channel / frame names from (so that different files share names)
NAME_POOL_OC = None   # optional (origin, copy) given to most names drawn while NAME_POOL is set, so that whole object names
                      # (not only the identifier text) repeat between logical files and between files, as they do in practice


FRAME_NAME_POOL = None      # as NAME_POOL, for the names of the frame types only


def _names(rng, n, taken, pool=None):
    out = []
    while len(out) < n:
        free = [nm for nm in (pool or NAME_POOL or []) if nm not in taken]
        if free:
            i = rng.choice(free)
        else:
            i = bytes(rng.choice(b'ABCDEFGHIJKLMNOPQRSTUVWXYZ0123456789_') for _ in range(rng.randrange(1, 9)))
        if i in taken:
            continue
        taken.add(i)
        if NAME_POOL_OC is not None and rng.random() < 0.8:
            out.append((NAME_POOL_OC[0], NAME_POOL_OC[1], i))
        else:
            out.append((rng.choice([0, 1, 2, 41, 200, 20000]), rng.choice([0, 0, 1, 3]), i))
    return out


FIRST_CHANNEL_ARRAY_P = 0.0      # share of frame types whose first channel is an array (an unindexed frame type, RP66V1 5.7.1)
# ---- further knobs, all off by default (the default random stream is unchanged); a check that wants the wider space sets them
BIG_DIMS_P = 0.0                 # share of non-first channels with a large / high-rank / degenerate dimension list
BIG_DIMS = ((300,), (1024,), (4, 128), (2, 3, 50), (2, 2, 2, 2), (3, 1), (1, 1), (1, 7, 1))
SPECIAL_VALUES_P = 0.0           # share of elements (IEEE and integer codes) that hold an extreme value instead of the counter pattern
SHARE_IDENT_P = 0.0              # share of channels of a 2nd+ frame type whose identifier repeats one of an earlier frame type
                                 # (another origin / copy number: a different channel object with the same identifier text)
NUMBERING_STARTS = (1, 1, 1, 1, 100, 127, 16000)      # first frame number of a frame type
WIDE_TYPE_P = 0.0                # share of frame types with 100..140 scalar channels (and few frames)
LONG_TYPE_P = 0.0                # share of frame types with 300..600 frames (and one or two scalar channels)
FRAME_SHARE_IDENT_P = 0.0         # chance that the second frame type of a logical file repeats the identifier of the first (other copy number / origin)
OTHER_IFLR_P = 0.0               # chance, after each frame, of an indirectly formatted record that is not frame data (types 1, 127, 128..255)

_SPECIAL_F32 = (0x00000000, 0x80000000, 0x00000001, 0x807fffff, 0x00800000, 0x7f7fffff, 0xff7fffff, 0x7f800000, 0xff800000, 0x3eaaaaab,
                0x4b7fffff, 0xcb800000)
_SPECIAL_F64 = (0x0000000000000000, 0x8000000000000000, 0x0000000000000001, 0x800fffffffffffff, 0x0010000000000000, 0x7fefffffffffffff,
                0xffefffffffffffff, 0x7ff0000000000000, 0xfff0000000000000, 0x3fd5555555555555, 0x433fffffffffffff, 0xc340000000000000)
_INT_BITS = {E.SSHORT: (8, True), E.SNORM: (16, True), E.SLONG: (32, True), E.USHORT: (8, False), E.UNORM: (16, False), E.ULONG: (32, False)}


def special_element(rng, rc):
    """An extreme value of representation code rc -> (bytes, python number), or None when the code has none here.
    The value of an IEEE word is taken with struct (Python's own IEEE decoding), integers are two's complement big-endian."""
    if rc == E.FSINGL:
        by = struct.pack('>I', rng.choice(_SPECIAL_F32))
        return by, struct.unpack('>f', by)[0]
    if rc == E.FDOUBL:
        by = struct.pack('>Q', rng.choice(_SPECIAL_F64))
        return by, struct.unpack('>d', by)[0]
    if rc in _INT_BITS:
        bits, signed = _INT_BITS[rc]
        lo, hi = (-(1 << (bits - 1)), (1 << (bits - 1)) - 1) if signed else (0, (1 << bits) - 1)
        v = rng.choice([lo, hi, 0, -1 if signed else hi - 1, lo + 1, hi >> 1])
        return (v & ((1 << bits) - 1)).to_bytes(bits // 8, 'big'), v
    return None


def random_dims(rng, first):
    if first:
        if FIRST_CHANNEL_ARRAY_P and rng.random() < FIRST_CHANNEL_ARRAY_P:
            return (rng.choice([2, 3, 40, 48, 70, 150]),)
        return (1,)
    if BIG_DIMS_P and rng.random() < BIG_DIMS_P:
        return rng.choice(BIG_DIMS)
    k = rng.random()
    if k < 0.4:
        return (1,)
    if k < 0.7:
        return (rng.choice([2, 3, 4, 5, 8, 16]),)
    if k < 0.95:
        return (rng.choice([1, 2, 3, 4]), rng.choice([2, 3, 5]))
    return (2, rng.choice([1, 2]), 3)


def random_logpass_file(rng, max_frames=60, max_logical_files=2, max_types=3, max_channels=6, encrypted=True, other_tables=True):
    """-> (lrs, FileModel).  Every logical file: FILE-HEADER, ORIGIN, [other sets], CHANNEL, [other sets], FRAME, then the frame data of
    its frame types interleaved, with empty data records, encrypted records and sometimes a further set in between."""
    lrs = []
    model = FileModel()
    uid = rng.randrange(1, 1000)
    nlf = 1 if rng.random() < 0.7 else rng.randrange(1, max_logical_files + 1)

    def add_table(lf, t):
        lf.tables.append((len(lrs), t))
        lrs.append(LR(True, t.lr_type, t.encode(), False))

    def add_encrypted():
        if encrypted and rng.random() < 0.25:
            model.encrypted.append(len(lrs))
            lrs.append(LR(rng.random() < 0.5, rng.choice([0, 0, 3, 4, 5, 127]), E.random_encrypted_payload(rng), True))

    def add_other(lf):
        if other_tables and rng.random() < 0.3:
            add_table(lf, E.random_table(rng, max_attrs=4, max_objects=3, allow_invariant=False, allow_all_omitted=False, allow_absent=False))

    for lfi in range(nlf):
        lf = LogicalFileModel()
        lf.first_lr = len(lrs)
        model.logical_files.append(lf)
        add_table(lf, E.file_header_table(rng, lfi + 1))
        add_table(lf, E.random_table(rng, set_type=b'ORIGIN', lr_type=1, labels=sorted(E.ORIGIN_LABELS), label_codes=E.ORIGIN_LABELS,
                                     max_objects=2, allow_invariant=False, allow_all_omitted=False, allow_absent=False))
        add_encrypted()
        add_other(lf)
        taken = set()
        ntypes = rng.choice([1, 1, 2, rng.randrange(1, max_types + 1)])
        all_channels = []
        shapes = {}                # frame type index -> 'wide' | 'long'
        ft_names = _names(rng, ntypes, taken, FRAME_NAME_POOL)
        if FRAME_SHARE_IDENT_P and len(ft_names) >= 2 and rng.random() < FRAME_SHARE_IDENT_P:
            # two frame types whose object names differ in the copy number or the origin only (a re-recorded frame type)
            o, c, i = ft_names[0]
            ft_names[1] = (o, (c + 1 + rng.randrange(3)) % 256, i) if rng.random() < 0.6 else (o + 1 + rng.randrange(3), c, i)
        for ti, name in enumerate(ft_names):
            nch = rng.choice([1, 2, 3, rng.randrange(1, max_channels + 1)])
            if WIDE_TYPE_P and rng.random() < WIDE_TYPE_P:
                shapes[ti], nch = 'wide', rng.randrange(100, 141)
            elif LONG_TYPE_P and rng.random() < LONG_TYPE_P:
                shapes[ti], nch = 'long', rng.choice([1, 2])
            chans = []
            cnames = _names(rng, nch, taken)
            if SHARE_IDENT_P and all_channels:
                used_names = {c.name for c in all_channels}
                mine = set()
                for k in range(len(cnames)):
                    if rng.random() < SHARE_IDENT_P:
                        o, c, i = rng.choice(all_channels).name
                        nm = (o + 1 + rng.randrange(3), c, i) if rng.random() < 0.5 else (o, (c + 1 + rng.randrange(3)) % 256, i)
                        if nm not in used_names and i not in mine:
                            cnames[k] = nm
                    mine.add(cnames[k][2])
                    used_names.add(cnames[k])
            for ci, cname in enumerate(cnames):
                rc = rng.choice(FRAME_CODES if rng.random() < 0.6 else WIDE)
                units = None if rng.random() < 0.3 else rng.choice([b'm', b'ft', b's', b'0.1 in', b'ohm.m', b'g/cm3', b'', b'api'])
                long_name = None if rng.random() < 0.2 else bytes(rng.randrange(32, 127) for _ in range(rng.randrange(0, 20)))
                chans.append(Channel(cname, rc, (1,) if ti in shapes else random_dims(rng, ci == 0), units, long_name))
            desc = None if rng.random() < 0.3 else bytes(rng.randrange(32, 127) for _ in range(rng.randrange(0, 16)))
            lf.frame_types.append(FrameType(name, chans, desc))
            all_channels += chans
        rng.shuffle(all_channels)        # order in the CHANNEL set is independent of the order in the frames
        add_table(lf, _channel_table(rng, all_channels))
        add_encrypted()
        add_other(lf)
        add_table(lf, _frame_table(rng, lf.frame_types))
        # ---- frame data, interleaved
        pending = []
        for ti, ft in enumerate(lf.frame_types):
            k = rng.random()
            n = 1 if k < 0.08 else rng.randrange(2, 8) if k < 0.4 else rng.randrange(2, max_frames + 1)
            if shapes.get(ti) == 'wide':
                n = min(n, 6)
            elif shapes.get(ti) == 'long':
                n = rng.randrange(300, 601)
            pending += [ti] * n
        rng.shuffle(pending)
        numbering = [rng.choice(NUMBERING_STARTS) for _ in lf.frame_types]
        gap = [rng.random() < 0.2 for _ in lf.frame_types]
        for ti in pending:
            ft = lf.frame_types[ti]
            if rng.random() < 0.08:     # an empty data record (no frame): as seen in practice with frame number 0, or a consumed number
                ft.empty_records += 1
                if rng.random() < 0.5:
                    num = 0
                else:
                    num = numbering[ti]
                    numbering[ti] += 1
                lrs.append(LR(False, 0, E.enc_obname(*ft.name) + E.enc_uvari(num), False))
            add_encrypted()
            if gap[ti] and rng.random() < 0.15:
                numbering[ti] += rng.randrange(1, 4)
            body = bytearray(E.enc_obname(*ft.name) + E.enc_uvari(numbering[ti]))
            values = []
            for ch in ft.channels:
                nums = []
                for _ in range(ch.count):
                    by, v = encode_element(ch.rc, uid)
                    if SPECIAL_VALUES_P and rng.random() < SPECIAL_VALUES_P:
                        by, v = special_element(rng, ch.rc) or (by, v)
                    uid += 1
                    body += by
                    nums.append(v)
                values.append(np.array(nums, dtype=ch.dtype).reshape(ch.dims))
            ft.frames.append(Frame(numbering[ti], len(lrs), values))
            numbering[ti] += 1
            lrs.append(LR(False, 0, bytes(body), False))
            if OTHER_IFLR_P and rng.random() < OTHER_IFLR_P:
                # indirectly formatted records that are not frame data [RP66V1 3.3, Appendix A]: unformatted data (type 1, the
                # descriptor is a NO-FORMAT object, any bytes follow), end of data (type 127, the descriptor only) and private types
                k = rng.random()
                if k < 0.45:
                    lrs.append(LR(False, 1, E.enc_obname(rng.randrange(0, 3), 0, b'NOFMT-%d' % rng.randrange(3)) + bytes(rng.getrandbits(8) for _ in range(rng.randrange(0, 40))), False))
                elif k < 0.75:
                    lrs.append(LR(False, 127, E.enc_obname(*ft.name), False))
                else:
                    lrs.append(LR(False, rng.randrange(128, 256), E.enc_obname(*ft.name) + bytes(rng.getrandbits(8) for _ in range(rng.randrange(0, 24))), False))
                model.other_iflrs += 1
            if other_tables and rng.random() < 0.02:
                add_table(lf, E.random_table(rng, max_attrs=3, max_objects=2, allow_invariant=False, allow_all_omitted=False, allow_absent=False))
        add_encrypted()
    return lrs, model
