"""Directories for the batch-conversion checks (C12): valid sources + damaged variants + foreign files."""
import os

from . import corrupt, providers

EXT = {'rp66v1': '.dlis', 'lis': '.lis', 'lis_tif': '.lis', 'bit': '.bit', 'las12': '.las', 'las20': '.las', 'dat': '.dat'}
FAMILY = {'rp66v1': ['rp66v1'], 'lis': ['lis', 'lis_tif'], 'bit': ['bit']}
_example_cache = {}


def _example(repo, rel):
    key = (repo, rel)
    if key not in _example_cache:
        with open(os.path.join(repo, 'example_data', rel), 'rb') as f:
            _example_cache[key] = f.read()
    return _example_cache[key]


NAME_POOL = [b'DEPT', b'TIME', b'GR', b'TENS', b'CALI', b'RHOB', b'NPHI', b'SP', b'ILD', b'DT', b'TDEP', b'ETIM']


def valid_sources(rng, fmt, n, small=True):
    """n Valid objects of the given provider format (convertible=True providers give log passes)."""
    provs = providers.available()
    if fmt not in provs:
        return None
    out = []
    for _ in range(n):
        try:
            v = provs[fmt](rng, convertible=True, name_pool=NAME_POOL) if fmt == 'rp66v1' else provs[fmt](rng, convertible=True)
        except TypeError:
            v = provs[fmt](rng)
        out.append(v)
    return out


def make_directory(rng, conv, tier):
    provs = providers.available()
    fams = [f for f in FAMILY[conv] if f in provs]
    if not fams:
        return None
    nvalid = rng.randrange(2, 5)
    ndam = rng.randrange(2, 6)
    nforeign = rng.randrange(0, 4)
    files = []
    valids = []
    for i in range(nvalid):
        fmt = rng.choice(fams)
        v = valid_sources(rng, fmt, 1)[0]
        valids.append((fmt, v))
        files.append({'data': v.data, 'kind': 'valid:%s:%s' % (conv, fmt), 'ext': EXT[fmt], 'expect_las': getattr(v, 'expect_las', None),
                      'facts': {'frames_per_log_pass': (v.describe or {}).get('logpasses')} if isinstance(v.describe, dict) else {}})
    others = [f for f in sorted(provs) if f not in fams]
    for i in range(ndam):
        if rng.random() < 0.75 or not others:
            fmt, v = rng.choice(valids)
        else:
            fmt = rng.choice(others)
            v = valid_sources(rng, fmt, 1)[0]
        r = rng.random()
        if i == 0 and conv == 'rp66v1' and valids[0][1].corruptor is not None:
            # always one convertible "twin" of a valid file of the directory (same size and layout, one letter of a text value changed)
            fmt, v = valids[0]
            r = 0.2
        if r < 0.08:
            op, data = 'empty', b''
        elif v.corruptor is not None and r < (0.6 if conv == 'lis' else 0.4):
            op, data = v.corruptor(rng)
        else:
            op, data = corrupt.mutate(rng, v.data, other=rng.choice(valids)[1].data, boundaries=v.boundaries)
        files.append({'data': data, 'kind': 'damaged:%s:op=%s' % (fmt, op), 'ext': EXT[fmt], 'expect_las': None})
    for i in range(nforeign):
        r = rng.random()
        if others and r < 0.6:
            fmt = rng.choice(others)
            v = valid_sources(rng, fmt, 1)[0]
            files.append({'data': v.data, 'kind': 'foreign:' + fmt, 'ext': EXT[fmt], 'expect_las': None})
        elif r < 0.8:
            files.append({'data': corrupt.random_bytes(rng), 'kind': 'foreign:noise', 'ext': rng.choice(['.bin', '.dlis', '.lis', '.bit']), 'expect_las': None})
        else:
            files.append({'data': corrupt.near_miss(rng), 'kind': 'foreign:near-miss', 'ext': rng.choice(['.dat', '.dlis', '.lis', '.bit', '.txt']), 'expect_las': None})
    # placement of bad files in the processing orders: sequential = alphabetical, pool = biggest first
    placement = rng.choice(['bad-first', 'bad-last', 'mixed', 'bad-biggest', 'bad-smallest'])
    bad = [f for f in files if not f['kind'].startswith('valid')]
    good = [f for f in files if f['kind'].startswith('valid')]
    if placement == 'bad-first':
        ordered = bad + good
    elif placement == 'bad-last':
        ordered = good + bad
    else:
        ordered = files[:]
        rng.shuffle(ordered)
    if placement == 'bad-biggest' and bad:
        big = max(len(f['data']) for f in files) + 1
        victim = rng.choice(bad)
        if victim['data']:
            victim['data'] = victim['data'] + bytes(rng.getrandbits(8) for _ in range(max(0, big - len(victim['data']))))
            victim['kind'] += '+grown'
    if placement == 'bad-smallest' and bad:
        victim = rng.choice(bad)
        victim['data'] = victim['data'][:max(0, min(len(f['data']) for f in files) - 1)]
        victim['kind'] += '+shrunk'
    if bad and rng.random() < 0.3:
        # a file whose size is exactly a power of two (a copy cut at 64 KiB, a tape block): thresholds on the size must put it somewhere
        victim = rng.choice(bad)
        target = rng.choice([65536, 65536, 65536, 32768, 131072, 4096, 8192, 16384])
        if victim['data']:
            d = victim['data']
            victim['data'] = d[:target] if len(d) >= target else d + bytes(rng.getrandbits(8) for _ in range(target - len(d)))
            victim['kind'] += '+size-%d' % target
    for f in ordered:
        if rng.random() < 0.15:
            f['ext'] = f['ext'].upper()        # WELL.DLIS / TAPE.LIS: the type gate reads the content, not the extension
    naming = rng.choice(['indexed', 'indexed', 'prefix-stems', 'prefix-stems', 'dotted-stems', 'dotted-stems'])
    if naming == 'indexed':
        for i, f in enumerate(ordered):
            f['name'] = 'f%02d_%s%s' % (i, f['kind'].split(':')[0], f['ext'])
    elif naming == 'dotted-stems':
        # stems with dots in them, equal up to the last dot (WELL.run1, WELL.run2, WELL.2024.01 ...): the stem is not a suffix
        base = rng.choice(['WELL', 'w.x', '25_6', 'A'])
        tails = ['.run1', '.run2', '.run3', '.2024.01', '.2024.02', '.a', '.b', '.main', '.repeat', '.1', '.2', '.v1.final', '.v2.final', '.x.y.z']
        rng.shuffle(tails)
        chosen = sorted(tails[:len(ordered)]) if placement in ('bad-first', 'bad-last') else tails[:len(ordered)]
        for f, sfx in zip(ordered, chosen):
            f['name'] = base + sfx + f['ext']
    else:
        # distinct stems that are prefixes of one another (WELL, WELL-1, WELL 2, WELL1, WELL10 ...): still one output set per input
        base = rng.choice(['WELL', 'W', 'log.run', 'A_b'])
        sufs = ['', '-1', ' 2', '(3)', '+x', ',y', '#4', '1', '10', '100', '_a', '_a1', '~z', 'A', 'a', '=5', '.v2', '-1-1', '11']
        # names that are shell / glob / format patterns (legal file names): WELL[1] as a pattern matches WELL1, WELL* matches all
        sufs += ['[1]', '*', '?', '[a-z]', '%s', '{0}']
        rng.shuffle(sufs)
        if placement in ('bad-first', 'bad-last'):
            # keep the intended alphabetical placement: sort the chosen suffixes, deal them in order
            chosen = sorted(sufs[:len(ordered)], key=lambda x: base + x + '.')
        else:
            chosen = sufs[:len(ordered)]
        if rng.random() < 0.7 and len(ordered) >= 3:
            # a family of stems each a prefix of the next (WELL, WELL1, WELL10); the shorter ones go to damaged files of the
            # converter's own format when there are any: whatever is done about a failed file must not reach the files whose
            # names merely start like its name
            family = rng.choice([['', '1', '10'], ['', '_a', '_a1'], ['', '-1', '-1-1'], ['', 'A', 'a'], ['', '1', '11']])
            rest = [x for x in chosen if x not in family] + [x for x in sufs if x not in family and x not in chosen]
            own = [i for i, f in enumerate(ordered) if f['kind'].startswith('damaged:' + FAMILY[conv][0])]
            others = [i for i in range(len(ordered)) if i not in own]
            rng.shuffle(own)
            own.sort(key=lambda i: 'twin' in ordered[i]['kind'] or 'empty' in ordered[i]['kind'])     # files likely to fail first
            rng.shuffle(others)
            order_idx = own[:2] + others + own[2:]
            new_chosen = [None] * len(ordered)
            for k, i in enumerate(order_idx):
                new_chosen[i] = family[k] if k < len(family) else rest[k - len(family)]
            chosen = new_chosen
            naming += '+prefix-family'
        for f, sfx in zip(ordered, chosen):
            f['name'] = base + sfx + f['ext']
        if '.' not in base and rng.random() < 0.35:
            # one file without any extension (tape images are often named FILE001): its stem is still distinct from the others'
            cand = [f for f, sfx in zip(ordered, chosen) if '.' not in sfx]
            if cand:
                f = rng.choice(cand)
                f['name'] = f['name'][:len(f['name']) - len(f['ext'])]
                naming += '+no-extension'
    if rng.random() < 0.15:
        # a hidden file (leading dot): an input like any other
        f = rng.choice(ordered)
        f['name'] = '.' + f['name']
        naming += '+hidden'
    placement = placement + '/' + naming
    # nested directories (recursive conversion): some files one and two levels down
    recurse = rng.random() < 0.4
    if recurse:
        subs = ['', '', 'run_1', 'run_1/pass_2', 'run_1/pass_2/x', 'b']
        if rng.random() < 0.4:
            # directory names that are glob / format patterns (legal names): 'RUN [2]' as a pattern matches 'RUN 2' only
            subs = ['', '', 'RUN [2]', 'RUN [2]/pass*', 'RUN [2]/pass*/x?', 'b{0}', '%s']
        for f in ordered:
            d = rng.choice(subs)
            if d:
                f['name'] = d + '/' + f['name']
        if not any('/' in f['name'] and f['name'].count('/') >= 2 for f in ordered):
            ordered[-1]['name'] = subs[3] + '/' + ordered[-1]['name'].split('/')[-1]
        placement += '/nested'
        # the same file name in two directories of the tree (every run directory has its 'main.dlis'): inputs are told apart by
        # their path only, and their outputs go to different output directories
        by_dir = {}
        for f in ordered:
            by_dir.setdefault(os.path.dirname(f['name']), []).append(f)
        if len(by_dir) >= 2 and rng.random() < 0.6:
            d1, d2 = rng.sample(sorted(by_dir), 2)
            a, b = rng.choice(by_dir[d1]), rng.choice(by_dir[d2])
            newname = (d2 + '/' if d2 else '') + os.path.basename(a['name'])
            if all(f['name'] != newname for f in ordered):
                b['name'] = newname
                placement += '/same-basename-in-two-directories'
    # a valid file whose stem starts with the whole stem of a damaged file of the same directory (WELL and WELL-1, f03_damaged
    # and f03_damaged_a), whatever the naming scheme: what is done about a failed file must not reach its neighbour
    if rng.random() < 0.6:
        bad_own = [f for f in ordered if f['kind'].startswith('damaged:' + FAMILY[conv][0]) and 'twin' not in f['kind'] and f['data'] and f['name'].endswith(f['ext'])]
        rng.shuffle(bad_own)
        for dmg in bad_own:
            peers = [f for f in ordered if f['kind'].startswith('valid:') and os.path.dirname(f['name']) == os.path.dirname(dmg['name']) and f['name'].endswith(f['ext'])]
            if not peers:
                continue
            v = rng.choice(peers)
            stem = dmg['name'][:len(dmg['name']) - len(dmg['ext'])]
            newname = stem + rng.choice(['-1', '1', '_a', ' 2', 'x', '.b']) + v['ext']
            if all(f['name'] != newname for f in ordered):
                v['name'] = newname
                placement += '/valid-stem-extends-damaged-stem'
            break
    # two inputs in one directory that differ in the extension only (WELL.dlis and WELL.DLIS: a re-delivered copy)
    same_stem = []
    if conv == 'rp66v1' and rng.random() < 0.12:
        for a in rng.sample(ordered, len(ordered)):
            if a['ext'].lower() != '.dlis' or not a['name'].endswith(a['ext']):
                continue
            others = [b for b in ordered if b is not a and b['ext'].lower() == '.dlis' and b['name'].endswith(b['ext'])]
            if not others:
                continue
            b = rng.choice(others)
            stem = a['name'][:len(a['name']) - len(a['ext'])]
            newname = stem + ('.DLIS' if a['ext'] == '.dlis' else '.dlis')
            if all(f['name'] != newname for f in ordered):
                b['name'] = newname
                same_stem.append(sorted([a['name'], b['name']]))
                placement += '/same-stem-other-extension'
            break
    options = {
        'array_reduction': rng.choice(['first', 'first', 'mean', 'median', 'min', 'max']),
        'frame_slice': rng.choice([{}, {}, {'step': 2}, {'start': 0, 'stop': None, 'step': 3}, {'sample': 4}, {'stop': 5}]),
        # a non-empty subset is a *shared mutable set* inside the sequential driver: names come from the pool the RP66V1 files draw from
        'channels': [] if rng.random() < 0.4 else sorted({nm.decode('ascii') for nm in rng.sample(NAME_POOL, rng.randrange(1, 5))} | ({'NOSUCH'} if rng.random() < 0.2 else set())),
        'field_width': rng.choice([16, 16, 12, 20]),
        'float_format': rng.choice(['.3f', '.3f', '.1f', '.6f']),
    }
    if conv == 'lis':
        # a non-empty channel subset makes every LIS conversion fail (finding F9c of C11): not counted twice
        options['channels'] = []
    elif rng.random() < 0.2:
        # reversing / end-relative selections (they select at least one frame of any non-empty log pass); not for LIS, whose
        # converter is known (C11) to mis-handle them
        options['frame_slice'] = rng.choice([{'step': -1}, {'start': -3}, {'step': -2}])
    if rng.random() < 0.25:
        # some entries of the directory are symbolic links to files kept elsewhere (logs linked in from an archive)
        for f in rng.sample(ordered, min(len(ordered), rng.randrange(1, 3))):
            f['as_link'] = True
        placement += '/symbolic-links'
    return {'files': ordered, 'options': options, 'placement': placement, 'recurse': recurse, 'same_stem': same_stem}
