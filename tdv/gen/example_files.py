"""Real-world example files shipped with the repository, as an extra class of valid sources."""
import os
from ..core import env
from .providers import Valid

_cache = {}

FILES = {
    'rp66v1': [('RP66V1/data/MINIMAL_FILE.dlis', 1), ('RP66V1/data/BASIC_FILE.dlis', 1), ('RP66V1/data/BASIC_FILE_WITH_TWO_VISIBLE_RECORDS_NO_IFLRS.dlis', 1)],
    'lis': [('LIS/data/DILLSON-1_WELL_LOGS_FILE-013.LIS', None), ('LIS/data/DILLSON-1_WELL_LOGS_FILE-049.LIS', None)],
    'bit': [('BIT/data/29_10-_3Z_dwl_DWL_WIRE_1644659.bit', 2)],
    'las20': [('LAS/data/1000079714.las', None), ('LAS/data/BASIC_FILE_0_50.las', None)],
    'dat': [('DAT/data/example.dat', None)],
}
EXPECT = {'rp66v1': 'RP66V1', 'lis': 'LIS', 'bit': 'BIT', 'las20': 'LAS2.0', 'dat': 'DAT'}


def example(rng, fmt):
    rel, expect_las = rng.choice(FILES[fmt])
    if rel not in _cache:
        with open(os.path.join(env.REPO, 'example_data', rel), 'rb') as f:
            _cache[rel] = f.read()
    v = Valid(_cache[rel], EXPECT[fmt], {'example_file': rel}, nontrivial=True, classes=['example-file'])
    v.expect_las = expect_las
    return v
