"""Providers of valid LAS 1.2 / 2.0 files from the independent generator tdv.gen.las."""
from . import las as glas
from .providers import Valid


def _make(rng, version, scale=1):
    text, content = glas.generate(rng, version=version, max_frames=60 * scale, min_frames=1 if scale == 1 else 200,
                                  max_curves=12 if scale == 1 else 40)
    data = text.encode('ascii', 'replace') if isinstance(text, str) else text
    lay = content.last_layout
    return Valid(data, 'LAS' + version, {'version': version, 'layout': lay.as_json() if hasattr(lay, 'as_json') else repr(lay)[:200]},
                 nontrivial=True, classes=['v' + version], regen=lambda rng2: _make(rng2, version, scale=10))


def las12(rng, convertible=False):
    return _make(rng, '1.2')


def las20(rng, convertible=False):
    return _make(rng, '2.0')
