"""Sources whose names / units / long names / values contain hostile characters (markup, quotes, controls, non-ASCII).

Independent of TotalDepth (struct / random only; the RP66V1 physical layer is tdv.gen.dlis).  Used by C18 (documents
written from such sources must stay well-formed) and as a provider list that richer generators can be added to.

    xml_representable(s)                    -> True iff every character of s is an XML 1.0 Char
    hostile_text(rng, maxlen, classes)      -> str over the chosen character classes
    hostile_bytes(rng, maxlen, seven_bit)   -> (bytes, class label)
    rp66_file(rng, size='small')            -> (bytes, Rp66Model)     compact RP66V1 file: FILE-HEADER, ORIGIN, extra tables,
                                               CHANNEL, FRAME, frame data, 1-2 logical files
    las_text(rng)                           -> (str, LasModel)        LAS 2.0 text with hostile units / values / descriptions
    mutate_printable(rng, data, ...)        -> (bytes, n)             overwrite bytes inside runs of printable text
    PROVIDERS                               -> {'rp66v1': [fn(rng) -> Source], 'las': [...], 'lis': [...]}  (see bottom)
"""
import struct

from . import dlis

# ------------------------------------------------------------------------------------------------ characters
MARKUP = '<>&"\''
BLANKS = ' \t\n\r'
C0 = ''.join(chr(c) for c in range(1, 0x20) if chr(c) not in '\t\n\r')
NUL = '\x00'
DEL_C1 = '\x7f\x80\x85\x9f'
LATIN = '\xa0\xe9\xfc\xff\xd7'
BMP = '\u0394\u20ac\u2028\u4e2d\ufeff\ufffd\ud7ff\ue000'
ASTRAL = '\U0001d11e\U0001f600\U0010ffff\U00010000'
NONCHAR = '\ufffe\uffff'
SURROGATE = '\ud800\udbff\udc00\udfff'
SEQUENCES = [']]>', '-->', '<!--', '&amp;', '&#1;', '&#x0;', '&nbsp;', '<![CDATA[', '<?x ?>', '&lt', "'\"", '</a>', '<a b="c">', '--',
             '%s', '{0}', '\\', '&#65534;']
PLAIN = 'abcXYZ019 _.-:/()[]'


class _AnyXmlChar:
    """Every XML 1.0 Char from U+0020 up, as a virtual sequence for rng.choice(): the hand-picked classes above hold a few dozen
    characters, this one all 1.1 million (equal weight to ASCII..U+24FF, the rest of the BMP below the surrogates, the private
    use area..U+FFFD, and the astral planes)."""
    BANDS = ((0x20, 0x24FF), (0x2500, 0xD7FF), (0xE000, 0xFFFD), (0x10000, 0x10FFFF))
    N = 1 << 20

    def __len__(self):
        return len(self.BANDS) * self.N

    def __getitem__(self, i):
        band, k = divmod(i, self.N)
        lo, hi = self.BANDS[band]
        return chr(lo + (k * (hi - lo + 1)) // self.N)

    def __contains__(self, c):
        # for class labels only: a character that none of the hand-picked classes holds
        return ord(c) > 0x7f and c not in _PICKED and any(lo <= ord(c) <= hi for lo, hi in self.BANDS)


_PICKED = set(DEL_C1 + LATIN + BMP + ASTRAL + NONCHAR + SURROGATE)

CLASSES = {
    'plain': PLAIN, 'markup': MARKUP, 'blanks': BLANKS, 'c0': C0, 'nul': NUL, 'del_c1': DEL_C1, 'latin': LATIN, 'bmp': BMP,
    'astral': ASTRAL, 'nonchar': NONCHAR, 'surrogate': SURROGATE, 'anychar': _AnyXmlChar(),
}
REPRESENTABLE_CLASSES = ('plain', 'markup', 'blanks', 'del_c1', 'latin', 'bmp', 'astral', 'anychar')
UNREPRESENTABLE_CLASSES = ('c0', 'nul', 'nonchar', 'surrogate')


def xml_char(c):
    """XML 1.0 (fifth edition) production [2] Char."""
    o = ord(c)
    return o in (0x9, 0xA, 0xD) or 0x20 <= o <= 0xD7FF or 0xE000 <= o <= 0xFFFD or 0x10000 <= o <= 0x10FFFF


def xml_representable(s):
    return all(xml_char(c) for c in s)


def hostile_text(rng, maxlen=24, classes=None, sequences=True, length=None):
    """A string over the given character classes (default: a random non-empty subset of the representable ones).
    length: exactly that many characters (for strings longer than any buffer)."""
    if classes is None:
        k = rng.randrange(1, 4)
        classes = rng.sample(REPRESENTABLE_CLASSES, k)
    n = rng.choice([0, 1, 1, 2, 3, 5, 8, maxlen]) if maxlen else 0
    n = min(n, maxlen)
    if length is not None:
        n = length
    out = []
    while len(out) < n:
        if sequences and rng.random() < 0.15 and any(c in ('markup',) for c in classes):
            out.extend(rng.choice(SEQUENCES))
        else:
            out.append(rng.choice(CLASSES[rng.choice(classes)]))
    return ''.join(out[:max(n, 0)])


BYTE_CLASSES = ('plain', 'markup', 'ctrl', 'tabnl', 'nul', 'high', 'del')


def hostile_bytes(rng, maxlen=16, seven_bit=True, minlen=0, classes=None, tag=b''):
    """(bytes, label).  label names the most hostile class used.  tag (ASCII) is embedded so the value stays identifiable."""
    if classes is None:
        pool = ['plain', 'markup', 'ctrl', 'tabnl', 'del'] + ([] if seven_bit else ['high', 'high'])
        classes = rng.sample(pool, rng.randrange(1, 4))
    n = max(minlen, rng.choice([0, 1, 2, 3, 5, 8, maxlen]))
    n = min(n, maxlen)
    out = bytearray()
    while len(out) < n:
        c = rng.choice(classes)
        if c == 'plain':
            out.append(rng.choice(b'abcXYZ019 _.-/'))
        elif c == 'markup':
            if rng.random() < 0.2:
                out.extend(rng.choice(SEQUENCES).encode('ascii'))
            else:
                out.append(rng.choice(b'<>&"\''))
        elif c == 'ctrl':
            out.append(rng.choice([1, 2, 7, 8, 0x0b, 0x0c, 0x0e, 0x1b, 0x1f]))
        elif c == 'tabnl':
            out.append(rng.choice(b'\t\n\r'))
        elif c == 'nul':
            out.append(0)
        elif c == 'del':
            out.append(0x7f)
        elif rng.random() < 0.45 and len(out) + 4 <= n + 3:
            # bytes that happen to be well-formed UTF-8 (a producer that wrote UTF-8 into an 8 bit field): still just bytes
            out.extend(rng.choice(['\u00d8', '\u00b5', '\u00b0', '\u00e9', '\u20ac', '\u2126', '\U0001d11e', '\u00df', '\u0394']).encode('utf-8'))
            utf8 = True
        else:
            out.append(rng.choice([0x80, 0x85, 0xa0, 0xe9, 0xfe, 0xff]))
    out = bytes(out[:n]) if not locals().get('utf8') else bytes(out)
    if tag:
        k = rng.randrange(0, len(out) + 1)
        out = out[:k] + tag + out[k:]
    for lab in ('nul', 'ctrl', 'high', 'del', 'tabnl', 'markup'):
        if lab in classes:
            return out, lab
    return out, 'plain'


# ------------------------------------------------------------------------------------------------ RP66V1 logical layer
def uvari(n):
    if n < 0x80:
        return bytes([n])
    if n < 0x4000:
        return struct.pack('>H', n | 0x8000)
    return struct.pack('>I', n | 0xC0000000)


def ident(b):
    assert len(b) < 256
    return bytes([len(b)]) + bytes(b)


def ascii_(b):
    return uvari(len(b)) + bytes(b)


def obname(o, c, i):
    return uvari(o) + bytes([c]) + ident(i)


FSINGL, FDOUBL, SSHORT, SNORM, SLONG, USHORT, UNORM, ULONG, UVARI, IDENT, ASCII, DTIME, ORIGIN, OBNAME, STATUS, UNITS = \
    2, 7, 12, 13, 14, 15, 16, 17, 18, 19, 20, 21, 22, 23, 26, 27
FRAME_FMT = {FSINGL: '>f', FDOUBL: '>d', SSHORT: '>b', SNORM: '>h', SLONG: '>i', USHORT: '>B', UNORM: '>H', ULONG: '>I'}


def enc(rc, v):
    if rc in FRAME_FMT:
        return struct.pack(FRAME_FMT[rc], v)
    if rc in (UVARI, ORIGIN):
        return uvari(v)
    if rc in (IDENT, UNITS):
        return ident(v)
    if rc == ASCII:
        return ascii_(v)
    if rc == DTIME:
        y, tz, mo, d, h, mi, s, ms = v
        return bytes([y - 1900, (tz << 4) | mo, d, h, mi, s]) + struct.pack('>H', ms)
    if rc == OBNAME:
        return obname(*v)
    if rc == STATUS:
        return bytes([v])
    raise ValueError(rc)


def eflr_set(set_type, set_name, template, objects):
    """template: [(label, count, rc, units)]; objects: [(obname tuple, [list of values or None per template attribute])].
    RP66V1 3.2.2: SET component (type, optional name), template ATTRIB components with label/count/code/units, then
    OBJECT components each followed by ATTRIB components carrying count (when it differs) and value, or ABSATR."""
    b = bytearray([0xF8 if set_name is not None else 0xF0]) + ident(set_type)
    if set_name is not None:
        b += ident(set_name)
    for label, count, rc, units in template:
        d = 0x20 | 0x10 | 0x08 | 0x04 | (0x02 if units else 0)
        b += bytes([d]) + ident(label) + uvari(count) + bytes([rc]) + (ident(units) if units else b'')
    for name, vals in objects:
        b += bytes([0x70]) + obname(*name)
        for (label, count, rc, units), v in zip(template, vals):
            if v is None:
                b += bytes([0x00])
                continue
            d = 0x20 | 0x01
            body = b''
            if len(v) != count:
                d |= 0x08
                body += uvari(len(v))
            b += bytes([d]) + body + b''.join(enc(rc, x) for x in v)
    return bytes(b)


class TableModel:
    def __init__(self, lr_index, lr_type, set_type, set_name, objects, strings):
        self.lr_index, self.lr_type, self.set_type, self.set_name = lr_index, lr_type, set_type, set_name
        self.objects = objects            # [obname I bytes]
        self.strings = strings            # [(kind, bytes)] hostile strings placed in this table (kind: 'ascii-value', 'units', 'label', 'name')


class ChannelModel:
    def __init__(self, name, rc, dims, units, long_name):
        self.name, self.rc, self.dims, self.units, self.long_name = name, rc, dims, units, long_name


class FrameTypeModel:
    def __init__(self, name, description, channels):
        self.name, self.description, self.channels = name, description, channels
        self.frames = []                  # [(frame number, x value, lr_index)]


class LogicalFileModel:
    def __init__(self):
        self.tables = []
        self.frame_types = []


class Rp66Model:
    def __init__(self):
        self.logical_files = []
        self.phys = None                  # dlis.FileModel
        self.labels = set()

    def strings(self):
        for lf in self.logical_files:
            for t in lf.tables:
                for k, b in t.strings:
                    yield k, b


def _uniq(rng, taken, make):
    for _ in range(200):
        b = make()
        if b and b not in taken:
            taken.add(b)
            return b
    raise RuntimeError('cannot make a unique name')


def rp66_file(rng, size='small', seven_bit=True, hostile_names=True, layout=None, byte_classes=None):
    """A compact RP66V1 file whose strings are hostile.  seven_bit: keep IDENT/UNITS/ASCII strings below 0x80."""
    model = Rp66Model()
    lrs = []
    counter = [0]

    def hb(maxlen, kind, minlen=0, plain=False):
        counter[0] += 1
        tag = b'q%dz' % counter[0]
        if plain:
            b, lab = hostile_bytes(rng, maxlen, True, minlen, classes=['plain'], tag=tag)
        else:
            # seven_bit='values': names, labels and units stay below 0x80 (the index writes them as ASCII), ASCII *values* do not
            sb = seven_bit if isinstance(seven_bit, bool) else (kind not in ('ascii-value', 'value'))
            cl = None
            if byte_classes:
                pool = [c for c in byte_classes if c != 'high' or not sb]
                cl = rng.sample(pool, rng.randrange(1, min(3, len(pool)) + 1))
            b, lab = hostile_bytes(rng, maxlen, sb, minlen, classes=cl, tag=tag)
        model.labels.add(lab)
        return b

    n_lf = 1 if size == 'small' or rng.random() < 0.6 else 2
    for lfi in range(n_lf):
        lf = LogicalFileModel()
        model.logical_files.append(lf)
        org = 2 + lfi

        def add_table(lr_type, set_type, set_name, template, objects, strings):
            payload = eflr_set(set_type, set_name, template, objects)
            lf.tables.append(TableModel(len(lrs), lr_type, set_type, set_name, [o[0][2] for o in objects], strings))
            lrs.append(dlis.LR(True, lr_type, payload))

        # FILE-HEADER: SEQUENCE-NUMBER (10 chars) and ID (65 chars) are fixed-width ASCII (RP66V1 5.1)
        fid = hb(40, 'ascii-value')
        fid = (fid + b' ' * 65)[:65]
        add_table(0, b'FILE-HEADER', hb(8, 'name'), [(b'SEQUENCE-NUMBER', 1, ASCII, b''), (b'ID', 1, ASCII, b'')],
                  [((org, 0, b'%d' % (lfi + 1)), [[b'%10d' % (lfi + 1)], [fid]])], [('ascii-value', fid)])
        strs = []
        ovals = []
        otempl = []
        for lab in (b'FILE-ID', b'FILE-SET-NAME', b'WELL-NAME', b'COMPANY', b'FIELD-NAME', b'PRODUCER-NAME'):
            rc = IDENT if lab == b'FILE-SET-NAME' else ASCII
            v = hb(20, 'ascii-value')
            strs.append(('ascii-value' if rc == ASCII else 'ident-value', v))
            otempl.append((lab, 1, rc, b''))
            ovals.append([v])
        otempl.append((b'CREATION-TIME', 1, DTIME, b''))
        ovals.append([(2011, 0, 8, 20, 4, 38, 13, 0)])
        add_table(1, b'ORIGIN', None, otempl, [((org, 0, b'DLIS_DEFINING_ORIGIN'), ovals)], strs)
        # extra tables with hostile labels / units / values
        for _ in range(rng.randrange(0, 3 if size == 'small' else 5)):
            taken = set()
            nattr = rng.randrange(1, 5)
            strs = []
            templ = []
            for a in range(nattr):
                lab = _uniq(rng, taken, lambda: hb(10, 'label', 1)) if hostile_names else b'ATTR%d' % a
                rc = rng.choice([ASCII, ASCII, IDENT, FDOUBL, SLONG, UNITS])
                units = hb(8, 'units') if rng.random() < 0.5 else b''
                templ.append((lab, rng.choice([1, 1, 2]), rc, units))
                strs.append(('label', lab))
                if units:
                    strs.append(('units', units))
            objs = []
            taken_o = set()
            for o in range(rng.randrange(1, 5)):
                nm = _uniq(rng, taken_o, lambda: hb(10, 'name', 1)) if hostile_names else b'OBJ%d' % o
                strs.append(('name', nm))
                vals = []
                for (lab, count, rc, units) in templ:
                    if rng.random() < 0.15:
                        vals.append(None)
                        continue
                    cnt = rng.choice([count, count, 0, 3])
                    vs = []
                    for _k in range(cnt):
                        if rc in (ASCII, IDENT, UNITS):
                            v = hb(30 if rc == ASCII else 12, 'value')
                            strs.append(({ASCII: 'ascii-value', IDENT: 'ident-value', UNITS: 'units-value'}[rc], v))
                        elif rc == FDOUBL:
                            v = rng.choice([0.0, -1.5, 1e300, 5e-324, rng.uniform(-1e6, 1e6)])
                        else:
                            v = rng.randrange(-2 ** 31, 2 ** 31)
                        vs.append(v)
                    vals.append(vs)
                objs.append(((org, rng.randrange(0, 3), nm), vals))
            st = rng.choice([b'PARAMETER', b'TOOL', b'EQUIPMENT', b'COMMENT', b'MESSAGE'])
            lrt = {b'PARAMETER': 5, b'TOOL': 5, b'EQUIPMENT': 5, b'COMMENT': 7, b'MESSAGE': 7}[st]
            if rng.random() < 0.25:
                # a private table: logical record type 128..255, a set type of the producer's own
                st, lrt = rng.choice([b'280-FRAMESTEP-INFO', b'440-CHANNEL', b'PRIVATE-SET', b'X']), rng.randrange(128, 256)
            sname = hb(8, 'name') if rng.random() < 0.7 else None
            if sname is not None:
                strs.append(('set-name', sname))
            add_table(lrt, st, sname, templ, objs, strs)
        # channels and frames
        n_ft = rng.randrange(1, 3 if size == 'small' else 4)
        taken_c = set()
        taken_f = set()
        chan_models = []
        fts = []
        for fti in range(n_ft):
            chans = []
            for ci in range(rng.randrange(1, 5)):
                nm = _uniq(rng, taken_c, lambda: hb(8, 'name', 1)) if hostile_names else b'CH%d_%d' % (fti, ci)
                rc = rng.choice([FDOUBL, FSINGL, SLONG, UNORM]) if ci == 0 else rng.choice(list(FRAME_FMT))
                dims = [1] if ci == 0 else rng.choice([[1], [1], [2], [2, 3]])
                chans.append(ChannelModel((org, 0, nm), rc, dims, hb(8, 'units') if rng.random() < 0.8 else b'', hb(30, 'long-name')))
            chan_models.extend(chans)
            fnm = _uniq(rng, taken_f, lambda: hb(8, 'name', 1)) if hostile_names else b'FT%d' % fti
            fts.append(FrameTypeModel((org, 0, fnm), hb(30, 'description'), chans))
        strs = []
        for c in chan_models:
            strs += [('name', c.name[2]), ('ascii-value', c.long_name)] + ([('units-value', c.units)] if c.units else [])
        add_table(3, b'CHANNEL', hb(6, 'name') if rng.random() < 0.5 else None,
                  [(b'LONG-NAME', 1, ASCII, b''), (b'REPRESENTATION-CODE', 1, USHORT, b''), (b'UNITS', 1, UNITS, b''), (b'DIMENSION', 1, UVARI, b'')],
                  [(c.name, [[c.long_name], [c.rc], [c.units] if c.units else None, c.dims]) for c in chan_models], strs)
        strs = []
        for f in fts:
            strs += [('name', f.name[2]), ('ascii-value', f.description)]
        add_table(4, b'FRAME', None,
                  [(b'DESCRIPTION', 1, ASCII, b''), (b'CHANNELS', 1, OBNAME, b''), (b'INDEX-TYPE', 1, IDENT, b'')],
                  [(f.name, [[f.description], [c.name for c in f.channels], [b'BOREHOLE-DEPTH']]) for f in fts], strs)
        lf.frame_types = fts
        # frame data, interleaved over the frame types
        maxf = {'small': 12, 'medium': 60, 'large': 400}[size]
        plan = []
        for f in fts:
            nfr = rng.choice([1, 2, 3, maxf // 2, maxf]) if rng.random() < 0.5 else rng.randrange(1, maxf + 1)
            if rng.random() < 0.04:
                nfr = 0               # a frame type without frame data: outside the quantifier of C04 / C18, only counted
            x0 = rng.choice([0.0, 1000.0, -250.5, 1e6, 3.25] * 3 + [1e15, -1e-3, 4194304.5])
            style = rng.choice(['even', 'even', 'even', 'jitter', 'steps', 'constant', 'reverse'])
            if rng.random() < (0.4 if f.channels[0].rc == FDOUBL else 0.1):
                # an axis of small magnitude that steps through zero, each value the previous one plus the step (what a producer
                # that accumulates does): next to zero the rounding residue is as large as the value, and only a relative test
                # tells 2.8e-17 from the 5.6e-17 (or the 0.0) of the run's extrapolation
                x0 = rng.choice([-0.3, -0.5, -1.0, -0.2, -0.7, -0.1524 * 3, 0.3, 0.9])
                style = rng.choice(['accumulate', 'accumulate', 'accumulate-down'])
                if x0 > 0 and style == 'accumulate':
                    style = 'accumulate-down'
                nfr = max(nfr, min(maxf, 8)) if nfr else nfr
            xs = []
            x = x0
            step = rng.choice([0.5, 0.1, 1.0, 0.1524, 60.0])
            for k in range(nfr):
                if style == 'even':
                    x = x0 + step * k
                elif style == 'reverse':
                    x = x0 - step * k
                elif style == 'accumulate':
                    x = x0 if k == 0 else x + (step if step in (0.1, 0.1524) else 0.1)
                elif style == 'accumulate-down':
                    x = x0 if k == 0 else x - (step if step in (0.1, 0.1524) else 0.1)
                elif style == 'jitter':
                    x = x + step * rng.choice([1, 1, 1, 2, 0.5, 1.000001])
                elif style == 'steps':
                    x = x0 + step * k + (100.0 if k >= nfr // 2 else 0.0)
                else:
                    x = x0
                xs.append(x)
            # frame numbers usually count from 1; also from numbers whose UVARI encoding is 2 and 4 bytes long (or becomes so on the way)
            n0 = rng.choice([1] * 8 + [2, 100, 120, 16380, 2 ** 21, 2 ** 30 - 1 - nfr - 8])
            numbers = list(range(n0, n0 + nfr))
            if nfr > 4 and rng.random() < 0.3:      # a gap in the frame numbers
                g = rng.randrange(1, nfr)
                numbers = numbers[:g] + [n + 5 for n in numbers[g:]]
            if nfr > 5 and rng.random() < 0.12:
                # frame numbers that are not regular in between although they start at 1 and end at n: two exchanged, or a duplicate
                # and a skip that cancel out (the indexer accepts them; the XML index must then say the same)
                g = rng.randrange(1, nfr - 2)
                if rng.random() < 0.5:
                    numbers[g], numbers[g + 1] = numbers[g + 1], numbers[g]
                else:
                    numbers[g] = numbers[g + 1]
            plan.append((f, numbers, xs))
        cursors = [0] * len(plan)
        while any(cursors[i] < len(plan[i][1]) for i in range(len(plan))):
            i = rng.choice([i for i in range(len(plan)) if cursors[i] < len(plan[i][1])])
            f, numbers, xs = plan[i]
            burst = rng.choice([1, 1, 2, 5, 50])
            for _ in range(burst):
                k = cursors[i]
                if k >= len(numbers):
                    break
                cursors[i] += 1
                body = bytearray(obname(*f.name) + uvari(numbers[k]))
                xval = None
                for ci, c in enumerate(f.channels):
                    cnt = 1
                    for d in c.dims:
                        cnt *= d
                    for e in range(cnt):
                        if ci == 0:
                            if c.rc in (FDOUBL,):
                                v = xs[k]
                            elif c.rc == FSINGL:
                                v = struct.unpack('>f', struct.pack('>f', xs[k]))[0]
                            elif c.rc == UNORM:
                                v = int(abs(xs[k])) % 65536
                            else:
                                v = max(-2 ** 31, min(2 ** 31 - 1, int(xs[k] * 10)))
                            xval = v
                        elif c.rc in (FSINGL, FDOUBL):
                            v = struct.unpack('>f', struct.pack('>f', rng.uniform(-1e3, 1e3)))[0]
                        else:
                            lo, hi = {SSHORT: (-128, 127), SNORM: (-2 ** 15, 2 ** 15 - 1), SLONG: (-2 ** 31, 2 ** 31 - 1), USHORT: (0, 255),
                                      UNORM: (0, 65535), ULONG: (0, 2 ** 32 - 1)}[c.rc]
                            v = rng.randrange(lo, hi + 1)
                        body += struct.pack(FRAME_FMT[c.rc], v)
                f.frames.append((numbers[k], xval, len(lrs)))
                lrs.append(dlis.LR(False, 0, bytes(body)))
    lay = layout or dlis.random_layout(rng)
    data, phys = dlis.write_file(rng, lrs, layout=lay)
    model.phys = phys
    return data, model


# ------------------------------------------------------------------------------------------------ LAS
class LasModel:
    def __init__(self):
        self.curves = []          # [(mnem, unit, desc)]
        self.rows = []
        self.strings = []         # hostile strings placed in the text (str)
        self.wrap = False


def _las_safe(s, allow_colon=True, allow_dot=True):
    """LAS header fields are line oriented: strip the characters that would change the *line structure*."""
    for ch in '\n\r\x85\u2028\u2029\x0b\x0c':
        s = s.replace(ch, ' ')
    s = s.replace('\x1c', '').replace('\x1d', '').replace('\x1e', '')
    if not allow_colon:
        s = s.replace(':', ';')
    if not allow_dot:
        s = s.replace('.', ',')
    return s.replace('~', '-').replace('#', '+')


def las_text(rng, controls=True, nframes=None):
    """LAS 2.0 text whose units, values and descriptions are hostile; mnemonics stay plain (they key the sections)."""
    m = LasModel()
    classes = ['plain', 'markup', 'latin', 'bmp', 'astral', 'del_c1'] + (['c0'] if controls else [])

    def ht(maxlen, colon=True):
        s = _las_safe(hostile_text(rng, maxlen, rng.sample(classes, rng.randrange(1, 4))), allow_colon=colon).strip()
        m.strings.append(s)
        return s

    def unit():
        return _las_safe(hostile_text(rng, 6, rng.sample(['plain', 'markup', 'latin'], 2)), False).replace(' ', '').replace('\t', '')

    m.wrap = rng.random() < 0.3
    ncurves = rng.randrange(1, 7)
    names = ['DEPT'] + rng.sample(['GR', 'NPHI', 'RHOB', 'CALI', 'SP', 'ILD', 'ILM', 'DT', 'PEF', 'TENS', 'X1', 'Y_2'], ncurves)
    n = nframes if nframes is not None else rng.choice([0, 1, 2, 5, 30])
    step = rng.choice([0.5, 0.1524, -0.5])
    start = rng.choice([100.0, 2500.5])
    L = ['~Version Information', ' VERS.   2.0 : CWLS LOG ASCII STANDARD - VERSION 2.0', ' WRAP.   %s : wrap mode %s' % ('YES' if m.wrap else 'NO', ht(20, colon=False)),
         '~Well Information', ' STRT.M  %.4f : START' % start, ' STOP.M  %.4f : STOP' % (start + step * max(n - 1, 0)), ' STEP.M  %.4f : STEP' % step,
         ' NULL.   -999.25 : NULL']
    for k in ('COMP', 'WELL', 'FLD', 'LOC', 'SRVC', 'UWI'):
        L.append(' %s.%s  %s : %s' % (k, unit() if rng.random() < 0.3 else '', ht(24, colon=False), ht(24)))
    L.append('~Curve Information')
    for nm in names:
        u, d = (unit() if rng.random() < 0.7 else ''), ht(24)
        m.curves.append((nm, u, d))
        L.append(' %s.%s   : %s' % (nm, u, d))
    L.append('~Parameter Information')
    for k in range(rng.randrange(0, 5)):
        L.append(' P%d.%s  %s : %s' % (k, unit() if rng.random() < 0.5 else '', ht(16, colon=False), ht(24)))
    if rng.random() < 0.6:
        L.append('~Other Information')
        for k in range(rng.randrange(1, 4)):
            L.append(' ' + ht(40))
    L.append('~A  ' + '  '.join(names))
    for f in range(n):
        row = [start + step * f] + [rng.choice([-999.25, rng.uniform(-1e3, 1e3), 0.0, 1e6]) for _ in names[1:]]
        m.rows.append(row)
        if m.wrap:
            L.append(' %.4f' % row[0])
            vals = ['%.4f' % v for v in row[1:]]
            for i in range(0, len(vals), 3):
                L.append(' ' + ' '.join(vals[i:i + 3]))
        else:
            L.append(' ' + ' '.join('%.4f' % v for v in row))
    return '\n'.join(L) + '\n', m


# ------------------------------------------------------------------------------------------------ byte-level mutation
def printable_runs(data, minlen=4):
    runs = []
    i = 0
    n = len(data)
    while i < n:
        if 0x20 <= data[i] < 0x7f:
            j = i
            while j < n and 0x20 <= data[j] < 0x7f:
                j += 1
            if j - i >= minlen:
                runs.append((i, j))
            i = j
        else:
            i += 1
    return runs


def mutate_printable(rng, data, nmut=40, alphabet=None, keep=(), runs=None):
    """Overwrite single bytes inside runs of printable text with hostile bytes (length-preserving, so binary framing
    stays intact).  keep: byte strings that must not be touched (e.g. table-type mnemonics that steer the decoder)."""
    alphabet = alphabet or b'<>&"\'\x01\x07\x1b\x7f\t<&<&'
    b = bytearray(data)
    runs = runs if runs is not None else printable_runs(data)
    if not runs:
        return bytes(b), 0
    protected = []
    for k in keep:
        s = 0
        while True:
            i = data.find(k, s)
            if i < 0:
                break
            protected.append((i, i + len(k)))
            s = i + 1
    done = 0
    for _ in range(nmut * 3):
        if done >= nmut:
            break
        lo, hi = rng.choice(runs)
        p = rng.randrange(lo, hi)
        if any(a <= p < z for a, z in protected):
            continue
        b[p] = rng.choice(alphabet)
        done += 1
    return bytes(b), done


# ------------------------------------------------------------------------------------------------ providers
class Source:
    """One source file for the document writers: kind in ('rp66v1', 'las', 'lis'), data bytes/str, model or None."""
    def __init__(self, kind, name, data, model=None, classes=()):
        self.kind, self.name, self.data, self.model, self.classes = kind, name, data, model, list(classes)


def _prov_rp66_small(rng):
    d, m = rp66_file(rng, 'small')
    return Source('rp66v1', 'hostile-small', d, m, ['hostile-7bit'] + sorted(m.labels))


def _prov_rp66_medium(rng):
    d, m = rp66_file(rng, 'medium')
    return Source('rp66v1', 'hostile-medium', d, m, ['hostile-7bit'] + sorted(m.labels))


def _prov_rp66_high(rng):
    d, m = rp66_file(rng, 'small', seven_bit=False)
    return Source('rp66v1', 'hostile-8bit', d, m, ['hostile-8bit'] + sorted(m.labels))


def _prov_rp66_high_values(rng):
    # only bytes XML can represent (no C0 controls): the documents parse, so that every value can be compared
    d, m = rp66_file(rng, 'small', seven_bit='values', byte_classes=['plain', 'markup', 'tabnl', 'del', 'high', 'high'])
    return Source('rp66v1', 'hostile-8bit-values', d, m, ['hostile-8bit-values'] + sorted(m.labels))


def _prov_rp66_plain_names(rng):
    d, m = rp66_file(rng, 'small', hostile_names=False)
    return Source('rp66v1', 'hostile-values-only', d, m, ['hostile-values-only'] + sorted(m.labels))


def _prov_las(rng):
    t, m = las_text(rng)
    return Source('las', 'hostile-las', t, m, ['las-hostile', 'las-wrap' if m.wrap else 'las-nowrap'])


def _prov_las_nocontrols(rng):
    t, m = las_text(rng, controls=False)
    return Source('las', 'hostile-las-representable', t, m, ['las-representable'])


# Richer generators (tdv.gen.logpass / tdv.gen.lis / tdv.gen.las) can be appended here by a later integration step:
# each entry is fn(rng) -> Source.  A check iterates the list round-robin.
PROVIDERS = {
    'rp66v1': [_prov_rp66_small, _prov_rp66_medium, _prov_rp66_high, _prov_rp66_plain_names, _prov_rp66_high_values],
    'las': [_prov_las, _prov_las_nocontrols],
    'lis': [],            # LIS sources are example files + mutate_printable (see C18); generated LIS plot files live in tdv.gen.plotsrc
}
