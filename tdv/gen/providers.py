"""Valid-file providers per format, built on the independent generators.  Used by C20 (identification), C12 (batch) ...

A provider is fn(rng) -> Valid.  available() returns the providers whose generator modules exist.
"""
import importlib

FORMATS = ['rp66v1', 'lis', 'lis_tif', 'las12', 'las20', 'bit', 'dat']


class Valid:
    def __init__(self, data, expect, describe, nontrivial=True, classes=(), boundaries=None, regen=None, corruptor=None):
        self.data = data
        self.expect = expect
        self.describe = describe
        self.nontrivial = nontrivial
        self.classes = list(classes)
        self.boundaries = boundaries
        self.regen = regen
        self.corruptor = corruptor


def _try(name):
    try:
        return importlib.import_module('tdv.gen.' + name)
    except ImportError:
        return None


# ------------------------------------------------------------------ RP66V1
def rp66v1(rng, scale=1, layout=None, convertible=False, name_pool=None):
    """A valid RP66V1 file: FILE-HEADER, populated ORIGIN, CHANNEL/FRAME sets and frame data in a random physical layout
    (or, for a share of the non-convertible requests, opaque records / encrypted records / foreign sets)."""
    from . import dlis, dlis_convertible, example_files, logpass
    if convertible and scale == 1 and rng.random() < 0.05:
        return example_files.example(rng, 'rp66v1')
    lay = layout or dlis.random_layout(rng)
    model = None
    r = rng.random()
    if convertible or r < 0.5:
        lrs, model = dlis_convertible.convertible_file(rng, max_frames=20 * scale if scale > 1 else rng.choice([5, 20, 40]), name_pool=name_pool)
        desc = 'convertible log pass file'
    elif r < 0.8:
        lrs, model = logpass.random_logpass_file(rng, max_frames=20 * scale)
        desc = 'log pass file with encrypted records and foreign sets'
        model = None
    else:
        lrs, desc = dlis.random_records(rng, n=rng.randrange(1, 12) * scale, vr_cap=lay['vr_cap']), 'opaque records'
    data, phys = dlis.write_file_safe(rng, lrs, layout=lay)
    bounds = [dlis.SUL_SIZE] + [p for p, _ in phys.vrs] + [s.position for rm in phys.records for s in rm.segments]

    def regen(rng2):
        return rp66v1(rng2, scale=10, layout=lay, convertible=convertible)

    corruptor = None
    if model is not None:
        # model-aware damage that keeps the file convertible: one letter of a PARAMETER / ORIGIN text value changed (a "twin" of the
        # valid file: same size, same record positions, different content)
        texts = []
        for lf in model.logical_files:
            for _idx, t in lf.tables:
                if t.set_type in (b'PARAMETER', b'ORIGIN'):
                    for o in t.objects:
                        for c in o.cells:
                            if c is not None and c.value_bytes and len(c.value_bytes) >= 5:
                                texts.append((t.set_type, bytes(c.value_bytes[1:])))
        texts = [(st, t) for st, t in texts if t.replace(b' ', b'').isalnum()]

        def corruptor(rng2, _data=data, _texts=texts):
            rng2.shuffle(_texts)
            # PARAMETER values first (three times out of four): the defining origin then stays identical to the original's
            order = sorted(_texts, key=lambda x: x[0] != b'PARAMETER') if rng2.random() < 0.75 else _texts
            for _st, t in order:
                at = _data.find(t)
                if at >= 0:
                    k = at + rng2.randrange(len(t))
                    if chr(_data[k]).isalpha():
                        return 'twin-text-letter', _data[:k] + bytes([_data[k] ^ 0x01]) + _data[k + 1:]
            from . import corrupt as _c
            return 'bitflips', _c.bitflips(rng2, _data, 1)
    v = Valid(data, 'RP66V1', {'sul': phys.sul.as_bytes()[:20].decode('ascii'), 'vr_cap': lay['vr_cap'], 'records': len(lrs), 'content': desc},
              nontrivial=phys.is_nontrivial(), classes=phys.classes()[:4], boundaries=bounds, regen=regen, corruptor=corruptor)
    v.expect_las = sum(len(lf.frame_types) for lf in model.logical_files) if model is not None else None
    v.model = model
    return v


def available():
    provs = {'rp66v1': rp66v1}
    for modname, names in (('lis', ('lis', 'lis_tif')), ('las', ('las12', 'las20')), ('bit', ('bit',)), ('dat', ('dat',))):
        m = _try(modname + '_provider')
        if m is not None:
            for n in names:
                provs[n] = getattr(m, n)
    return provs
