"""Valid-file providers per format, built on the independent generators.  Used by C20 (identification), C12 (batch) ...

A provider is fn(rng) -> Valid.  available() returns the providers whose generator modules exist.
"""
import importlib

FORMATS = ['rp66v1', 'lis', 'lis_tif', 'las12', 'las20', 'bit', 'dat']


class Valid:
    def __init__(self, data, expect, describe, nontrivial=True, classes=(), boundaries=None, regen=None, corruptor=None):
        self.data = data
        self.expect = expect
        self.describe = describe
        self.nontrivial = nontrivial
        self.classes = list(classes)
        self.boundaries = boundaries
        self.regen = regen
        self.corruptor = corruptor


def _try(name):
    try:
        return importlib.import_module('tdv.gen.' + name)
    except ImportError:
        return None


# ------------------------------------------------------------------ RP66V1
def rp66v1(rng, scale=1, layout=None, convertible=False):
    from . import dlis
    if convertible and not hasattr(_try('logpass'), 'provider_records'):
        from . import example_files
        return example_files.example(rng, 'rp66v1')
    lay = layout or dlis.random_layout(rng)
    lp = _try('logpass')
    if lp is not None and hasattr(lp, 'provider_records'):
        lrs, desc = lp.provider_records(rng, scale)
    else:
        lrs, desc = dlis.random_records(rng, n=rng.randrange(1, 12) * scale, vr_cap=lay['vr_cap']), 'opaque records'
    data, model = dlis.write_file_safe(rng, lrs, layout=lay)
    bounds = [dlis.SUL_SIZE] + [p for p, _ in model.vrs] + [s.position for r in model.records for s in r.segments]

    def regen(rng2):
        return rp66v1(rng2, scale=10, layout=lay)

    return Valid(data, 'RP66V1', {'sul': model.sul.as_bytes()[:20].decode('ascii'), 'vr_cap': lay['vr_cap'], 'records': len(lrs), 'content': desc},
                 nontrivial=model.is_nontrivial(), classes=model.classes()[:4], boundaries=bounds, regen=regen)


def available():
    provs = {'rp66v1': rp66v1}
    for modname, names in (('lis', ('lis', 'lis_tif')), ('las', ('las12', 'las20')), ('bit', ('bit',)), ('dat', ('dat',))):
        m = _try(modname + '_provider')
        if m is not None:
            for n in names:
                provs[n] = getattr(m, n)
    return provs
