"""Independent LAS 1.2 / 2.0 content model, layout randomiser and tokenizer.

Written from the CWLS "LAS Version 2.0: A Digital Standard for Logs" (and the 1.2 predecessor); shares no code with
TotalDepth.  Line grammar used here (LAS 2.0 section 5.2):

    MNEM.UNITS   VALUE : DESCRIPTION

* the mnemonic ends at the *first* dot of the line and contains no blank, dot or colon;
* the units start directly after that dot and end at the first blank (they may be empty, then a blank follows the dot);
* the description starts after the *last* colon of the line; the value is whatever is between units and that colon;
* sections start with a line whose first character is ``~`` and whose second character names the section;
* lines whose first non-blank character is ``#`` are comments; blank lines are ignored anywhere;
* ``~A`` is the last section; unwrapped: one line per frame; wrapped: the index value alone on a line followed by the
  other values on any number of lines.

The model (``Content``) holds *typed* values decided by the generator - the oracle never re-parses text to decide a type.
Numbers are exact decimals ``m / 10**d`` (``fractions.Fraction``) so that every textual style of the same number
(trailing zeros, exponent form, leading ``+``) denotes the same rational, and the expected ``float`` is the correctly
rounded ``float(Fraction)``.

Public API
----------
Content model
    ``Val.int_(i) / Val.float_(m, d, text=None) / Val.yesno(b, text) / Val.text_(s) / Val.empty()``
    ``Line(mnem, unit, val, desc)``           one header line; ``.expected()`` -> (mnem, unit, python value, desc)
    ``Cell.num(m, d) / Cell.bad(token) / Cell.date(day, mon, yy) / Cell.time(h, m, s)``  one data token
    ``Content(version, null, well, curves, params, other, frames, order)``
Generation
    ``random_content(rng, **opts) -> Content``
    ``random_layout(rng, wrap=None, noise=None) -> Layout``     ``plain_layout(wrap=False, eol='\n') -> Layout``
    ``render(content, layout) -> str``        deterministic for a given (content, layout)
    ``generate(rng, **opts) -> (text, Content)``      one random file (the layout is in ``content.last_layout``)
    ``renderings(rng, content, k=4) -> [(text, Layout)]``   k layouts of one content, >= 1 wrapped and >= 1 unwrapped
    ``simple_content(curves, rows, ...) -> Content``  explicit content for other checks (plots, file type, ...)
    ``minimal_header(null='-999.25', wrap=False, version='2.0') -> str``   ~V/~W prefix for writer output
Oracle
    ``content.expected(wrap) -> dict``        {'V','W','C','P': [(mnem, unit, value, desc)], 'curves': [(mnem, unit)],
                                               'columns': [[value per frame] per curve], 'null': number}
Independent reader
    ``tokenize(text) -> dict``                {'order': 'VWCPA', 'V': [(mnem, unit, value_text, desc)], ..., 'O': [str],
                                               'A_title': '...', 'A_heading': [names], 'rows': [[token]], 'A_lines': n}
    ``unwrap(rows, ncurves) -> [[token]]``    joins wrapped data lines into frames
"""
import datetime
from fractions import Fraction

MONTHS = ('JAN', 'FEB', 'MAR', 'APR', 'MAY', 'JUN', 'JUL', 'AUG', 'SEP', 'OCT', 'NOV', 'DEC')


# ------------------------------------------------------------------------------------------------ model
def dec_text(m, d, extra_zeros=0):
    """Exact fixed-point text of m / 10**d with d (+ extra) decimals."""
    s = '-' if m < 0 else ''
    a = str(abs(m))
    if d > 0:
        a = a.rjust(d + 1, '0')
        a = a[:-d] + '.' + a[-d:] + '0' * extra_zeros
    elif extra_zeros:
        a = a + '.' + '0' * extra_zeros
    return s + a


def exp_text(m, d, upper=True, plus=True, width=2):
    """Exact exponent-form text of m / 10**d keeping every digit of m."""
    s = '-' if m < 0 else ''
    a = str(abs(m))
    e = len(a) - 1 - d
    mant = a[0] + '.' + (a[1:] if len(a) > 1 else '0')
    if m == 0:
        e = 0
    es = ('-' if e < 0 else ('+' if plus else '')) + str(abs(e)).rjust(width, '0')
    return s + mant + ('E' if upper else 'e') + es


def dec_float(m, d):
    """Correctly rounded float64 of m / 10**d (int / int true division is correctly rounded)."""
    return float(Fraction(m, 10 ** d))


class Val:
    """A typed header value.  kind: int | float | yesno | text | empty.  py: the Python value a reader must give."""
    __slots__ = ('kind', 'py', 'text')

    def __init__(self, kind, py, text):
        self.kind, self.py, self.text = kind, py, text

    @classmethod
    def int_(cls, i):
        return cls('int', int(i), str(int(i)))

    @classmethod
    def float_(cls, m, d, text=None):
        return cls('float', dec_float(m, d), text if text is not None else dec_text(m, max(d, 1) if d else 0, 0 if d else 1))

    @classmethod
    def yesno(cls, b, text=None):
        return cls('yesno', bool(b), text or ('YES' if b else 'NO'))

    @classmethod
    def text_(cls, s):
        return cls('text', s, s)

    @classmethod
    def empty(cls):
        return cls('empty', '', '')

    def __repr__(self):
        return 'Val(%s,%r)' % (self.kind, self.text)


class Line:
    __slots__ = ('mnem', 'unit', 'val', 'desc')

    def __init__(self, mnem, unit, val, desc):
        self.mnem, self.unit, self.val, self.desc = mnem, unit, val, desc

    def expected(self):
        return (self.mnem, self.unit, self.val.py, self.desc)

    def as_json(self):
        return [self.mnem, self.unit, self.val.kind, self.val.text, self.desc]


class Cell:
    """One data token.  kind num: exact decimal m/10**d; bad: unparseable text; date / time: DATE.D, TIME.HHMMSS."""
    __slots__ = ('kind', 'm', 'd', 'text', 'py')

    def __init__(self, kind, m=0, d=0, text=None, py=None):
        self.kind, self.m, self.d, self.text, self.py = kind, m, d, text, py

    @classmethod
    def num(cls, m, d):
        return cls('num', m, d, None, dec_float(m, d))

    @classmethod
    def bad(cls, token):
        return cls('bad', text=token)

    @classmethod
    def date(cls, day, mon, yy, text=None):
        year = 1900 + yy if yy >= 69 else 2000 + yy      # POSIX two-digit year convention
        return cls('date', text=text or '%02d-%s-%02d' % (day, MONTHS[mon - 1], yy), py=datetime.date(year, mon, day))

    @classmethod
    def time(cls, h, m, s, text=None):
        return cls('time', text=text or '%02d:%02d:%02d' % (h, m, s), py=datetime.time(h, m, s))

    def key(self):
        return [self.m, self.d] if self.kind == 'num' else self.text


class Content:
    """Everything a LAS file says, independent of how it is laid out."""

    def __init__(self, version, null, well, curves, params, other, frames, order='WCPO', v_extra=()):
        self.version = version          # '1.2' | '2.0'
        self.null = null                # Val (int or float) declared on the NULL line of ~W, or None (no NULL line)
        self.well = list(well)          # [Line] including STRT/STOP/STEP/NULL
        self.curves = list(curves)      # [Line]
        self.params = params            # [Line] or None (no ~P section)
        self.other = other              # [str] or None (no ~O section)
        self.frames = frames            # [[Cell] * len(curves)]
        self.order = order              # order of the sections between ~V and ~A
        self.v_extra = list(v_extra)    # extra ~V lines after VERS and WRAP
        self.vers_text = version        # text of the VERS value ('2.0', '2.00', ...)
        self.last_layout = None
        self.flags = []                 # rare input classes used by random_content(extended=True)

    @property
    def null_number(self):
        return -999.25 if self.null is None else self.null.py

    def v_lines(self, wrap, wrap_text=None):
        vd = 'CWLS LOG ASCII STANDARD - VERSION ' + self.version
        return [Line('VERS', '', Val('float', float(self.version), self.vers_text), vd),
                Line('WRAP', '', Val.yesno(wrap, wrap_text), 'Multiple lines per depth step' if wrap else 'One line per depth step')
                ] + self.v_extra

    def expected(self, wrap):
        nul = float(self.null_number)
        cols = []
        for c in range(len(self.curves)):
            col = []
            for fr in self.frames:
                cell = fr[c]
                col.append(nul if cell.kind == 'bad' else cell.py)
            cols.append(col)
        return {'V': [ln.expected() for ln in self.v_lines(wrap)],
                'W': [ln.expected() for ln in self.well],
                'C': [ln.expected() for ln in self.curves],
                'P': None if self.params is None else [ln.expected() for ln in self.params],
                'O': self.other,
                'curves': [(ln.mnem, ln.unit) for ln in self.curves],
                'columns': cols, 'null': self.null_number}

    def key(self):
        """Canonical JSON-able identity of the content (distinctness of cases)."""
        return {'v': self.version, 'W': [ln.as_json() for ln in self.well], 'C': [ln.as_json() for ln in self.curves],
                'P': None if self.params is None else [ln.as_json() for ln in self.params], 'O': self.other,
                'A': [[c.key() for c in fr] for fr in self.frames], 'order': self.order}


# ------------------------------------------------------------------------------------------------ random content
_LETTERS = 'ABCDEFGHIJKLMNOPQRSTUVWXYZ'
_MN_TAIL = _LETTERS + '0123456789' + '0123456789' + '_-'
CURVE_NAMES = ['GR', 'NPHI', 'RHOB', 'DT', 'CALI', 'SP', 'ILD', 'ILM', 'SFLU', 'PEF', 'DRHO', 'TENS', 'CGR', 'SGR',
               'RT', 'RXO', 'MSFL', 'DPHI', 'LLD', 'LLS', 'BS', 'ROP', 'WOB', 'HKLD', 'TEMP']
UNITS = ['M', 'FT', 'F', 'GAPI', 'K/M3', 'G/C3', 'US/F', 'US/M', 'OHMM', 'MV', 'V/V', 'IN', 'MM', 'DEGC', 'DEGF', 'LBS',
         '%', 'PU', 'B/E', 'S', 'MS', 'CPS', '0.1IN', '.1IN', 'M/HR', 'KG/M3', 'mts', 'm', 'ft', 'ohm.m', 'psi', '1/S']
WORDS = ['LOG', 'DEPTH', 'GAMMA', 'RAY', 'NEUTRON', 'POROSITY', 'BULK', 'DENSITY', 'SONIC', 'TRANSIT', 'TIME', 'DEEP',
         'RESISTIVITY', 'bit', 'size', 'mud', 'weight', 'Bottom', 'Hole', 'Temp', 'run', 'number', 'at', 'of', '&', '-',
         'Co.', 'Ltd.', 'No.', '#4', '(main)', 'A/B', '100%', 'ACME', 'Oil', 'Gas', 'WILDCAT', 'ALBERTA', '12-34-56W5',
         'api', '45', '350', '02', '00', 'K.B.', '1.5m', 'x', 'Rm@BHT', 'N/A', 'unknown', '~', 'e', '_', '1e', 'yes,', 'no!']
TEXT_SPECIALS = ['12:30:05', '13-DEC-86', 'ACME: Oil & Gas', 'Rm: 1.2 @ 25.5 DEGC', '08:15', 'A.B.C.', '100/12-34-056-07W5/00',
                 'Lat: 51.05 N', '3 1/2 in', 'GEL CHEM', 'K.B. 12.5 m', '1986-12-13 12:30:05.25 UTC', 'v1.2.3', ':', '::', '. .',
                 '12-34-56', '1 2 3', '0 000 00 00', '45 350 02 00']
BAD_TOKENS = ['xx', 'NULL', '--', '1.2.3', '1,5', '1e', 'abc', '*****', '-999.25x', '1.0E', 'N/A', '-', '+', '.', 'e5',
              '12:30', '1/2', '0x1F', '1.5m', 'none', '$', '1..', '--1']
HOSTILE_TEXTS = ['NO', 'YES', 'no', 'Yes', '1', '12', '007', '-3', '1E3', '2.5', '1e-2', 'INF', 'nan', '1_0', '+4', '.5']


def _retypable(s):
    """True iff Python would read s as something other than text (int / float / yes / no) - never used as *text*."""
    t = s.strip()
    for f in (int, float):
        try:
            f(t)
            return True
        except ValueError:
            pass
    return t.lower() in ('yes', 'no')


def rand_mnem(rng, used, pool=None, digit_first_p=0.0):
    """digit_first_p > 0: that share of the invented mnemonics starts with a digit (2DEN, 4CAL): legal, never re-typable here."""
    for _ in range(200):
        r = rng.random()
        if pool and r < 0.6:
            m = rng.choice(pool)
        else:
            m = rng.choice(_LETTERS) + ''.join(rng.choice(_MN_TAIL) for _ in range(rng.choice([0, 1, 2, 3, 3, 4, 5, 7, 11])))
            if digit_first_p and rng.random() < digit_first_p:
                m = rng.choice('0123456789') + m
            if rng.random() < 0.08:
                m += rng.choice(['[1]', '(2)', '/A', '#1', '_'])
            if rng.random() < 0.1:
                m = m.lower()
        if m not in used and not _retypable(m) and not (m[0] in '#~'):
            used.add(m)
            return m
    raise RuntimeError('mnemonic space exhausted')


def rand_text(rng, allow_colon, allow_empty=True, maxwords=5):
    """Free text without leading/trailing blanks, never re-typable, colon-free unless allow_colon."""
    for _ in range(100):
        r = rng.random()
        if allow_empty and r < 0.12:
            return ''
        if allow_colon and r < 0.4:
            parts = [rng.choice(TEXT_SPECIALS)]
            if rng.random() < 0.4:
                parts.append(rng.choice(WORDS))
            if rng.random() < 0.2:
                parts.insert(0, rng.choice(WORDS))
        else:
            parts = [rng.choice(WORDS) for _ in range(rng.randint(1, maxwords))]
        seps = [' ' * rng.choice([1, 1, 1, 1, 2, 3]) for _ in parts]
        s = ''.join(p + q for p, q in zip(parts, seps)).strip()
        if not allow_colon:
            s = s.replace(':', ';')
        if s and not _retypable(s) and s[0] not in '#~':
            return s
    return 'text'


def rand_decimal(rng, big=False):
    d = rng.choice([0, 1, 1, 2, 2, 3, 3, 4, 5, 6, 8])
    digits = rng.choice([1, 2, 3, 4, 5, 6, 7, 9, 12, 15, 17] if big else [1, 2, 3, 4, 5, 6])
    m = rng.randrange(0, 10 ** digits)
    if rng.random() < 0.35:
        m = -m
    return m, d


def sci_val(m, e, text):
    """A float header value m * 10**e (e any sign) with the given text."""
    return Val('float', float(Fraction(m) * Fraction(10) ** e), text)


def rand_val(rng, text_p=0.35, extended=False):
    """extended (used by C09): also floats written without a fraction digit ('5.', '-12.'), exponent forms without a decimal
    point ('1E3', '25e-4', '-7E+02'), and floats of up to 17 significant digits."""
    r = rng.random()
    if extended and text_p + 0.2 <= r < text_p + 0.42 and rng.random() < 0.2:
        k = rng.random()
        if k < 0.35:
            m = rng.randrange(-999, 10 ** rng.choice([1, 3, 6]))
            return Val('float', float(m), '%d.' % m)
        if k < 0.7:
            m, e = rng.randrange(-99, 1000), rng.choice([-12, -4, -2, -1, 0, 1, 2, 3, 9, 15])
            es = ('%+d' % e if rng.random() < 0.5 else '%d' % e)
            if rng.random() < 0.3:
                es = es[0] + '0' + es[1:] if es[0] in '+-' else '0' + es
            return sci_val(m, e, '%d%s%s' % (m, rng.choice('Ee'), es))
        m, d = rand_decimal(rng, big=True)
        d = max(d, 1)
        return Val.float_(m, d, dec_text(m, d))
    if r < text_p:
        s = rand_text(rng, allow_colon=True, allow_empty=False)
        return Val.text_(s)
    if r < text_p + 0.2:
        i = rng.choice([rng.randrange(-50, 500), rng.randrange(-10 ** 6, 10 ** 9), 0, 1])
        if rng.random() < 0.12:
            # identifiers / serial numbers: integers that no double holds exactly
            i = rng.choice([2 ** 53 + 1, -(2 ** 55) - 1, 10 ** 18 + 7, rng.randrange(10 ** 16, 10 ** 20) | 1, -(rng.randrange(10 ** 16, 10 ** 22) | 1)])
        v = Val.int_(i)
        if i >= 0 and rng.random() < 0.12 and hasattr(v, 'text'):
            v.text = '+' + v.text               # an explicit plus sign is still an integer
        return v
    if r < text_p + 0.42:
        m, d = rand_decimal(rng)
        d = max(d, 1)
        style = rng.random()
        text = dec_text(m, d) if style < 0.8 else exp_text(m, d, upper=rng.random() < 0.7, plus=rng.random() < 0.7)
        # other spellings of the same number: explicit plus sign, no digit before the point
        k = rng.random()
        if k < 0.1 and m >= 0:
            text = '+' + text
        elif k < 0.22 and style < 0.8 and (text.startswith('0.') or text.startswith('-0.')):
            text = text.replace('0.', '.', 1)
        return Val.float_(m, d, text)
    if r < text_p + 0.52:
        b = rng.random() < 0.5
        return Val.yesno(b, rng.choice(['YES', 'Yes', 'yes'] if b else ['NO', 'No', 'no']))
    return Val.empty()


NULLS = [(-99925, 2, '-999.25'), (-99925, 2, '-999.2500'), (-9999, 0, None), (-999, 0, None), (-999925, 2, '-9999.25'),
         (0, 0, None), (-99999, 2, '-999.99'), (-32768, 0, None), (-1, 3, '-0.001')]


def rand_null(rng, default_p=0.6):
    if rng.random() < default_p:
        m, d, t = NULLS[rng.choice([0, 0, 0, 1])]
    else:
        m, d, t = rng.choice(NULLS[2:])
    if d == 0:
        return Val.int_(m)
    return Val.float_(m, d, t)


def random_content(rng, min_curves=1, max_curves=12, min_frames=1, max_frames=60, version=None, null=None,
                   bad_tokens=True, hostile=False, datetime_curves=False, null_default_p=0.6, params=None, other=None,
                   extended=False):
    """A random well-formed content.  hostile: a few mnemonics / units / descriptions that Python would re-type
    ('NO', '12', '1E3') in ~W/~P lines and curve units/descriptions.  datetime_curves: add DATE.D / TIME.HHMMSS curves.
    extended (used by C09; off for the other users so that their inputs stay as they were): rare contents with 20..150 curves
    or 1000..4097 frames (beyond max_curves / max_frames), more header number spellings, data values of extreme magnitude
    (1e-320 .. 1e267), mnemonics starting with a digit, ~W lines in any order (NULL anywhere), and at most one unparseable token
    in the index column (content.flags lists what was used)."""
    version = version or rng.choice(['1.2', '2.0', '2.0'])
    nullv = null if null is not None else rand_null(rng, null_default_p)
    nc = rng.choice([1, 2, 3, 4, 5, 6, 8, 12, rng.randint(min_curves, max_curves)])
    nc = max(min_curves, min(max_curves, nc))
    nf = rng.choice([1, 2, 3, 5, 8, 13, rng.randint(min_frames, max_frames), rng.randint(min_frames, max_frames)])
    nf = max(min_frames, min(max_frames, nf))
    flags = []
    if extended:
        r = rng.random()
        if r < 0.02:
            nc, nf = rng.choice([20, 33, 64, 100, 150]), rng.choice([1, 2, 3, 7, 12])
            flags.append('many-curves')
        elif r < 0.032:
            nc, nf = rng.choice([1, 2, 3]), rng.choice([1000, 1024, 1025, 2500, 4097])
            flags.append('long-log')
    mn_digit_p = 0.06 if extended else 0.0
    # ---- curves
    used = set(['DATE', 'TIME'])
    idx_mn = rng.choice(['DEPT', 'DEPTH', 'TIME', 'ETIM', 'DEPT', 'MD', 'INDEX'])
    idx_unit = rng.choice(['M', 'FT', 'F', 'S', 'MS', 'm', 'mts', '']) if idx_mn not in ('TIME',) else rng.choice(['S', 'MS', 'HR'])
    used.add(idx_mn)
    curves = []
    kinds = []          # per curve: 'num' | 'date' | 'time'
    for c in range(nc):
        if c == 0:
            mn, un = idx_mn, idx_unit
        else:
            mn = rand_mnem(rng, used, CURVE_NAMES if nc <= 20 else None, mn_digit_p)
            un = rng.choice(UNITS) if rng.random() < 0.75 else ''
        r = rng.random()
        if r < 0.55:
            val = Val.empty()
        elif r < 0.8:       # API codes, a classic text value
            val = Val.text_('%02d %03d %02d %02d' % (rng.randrange(100), rng.randrange(1000), rng.randrange(100), rng.randrange(100)))
        else:
            val = rand_val(rng, 0.3, extended)
        desc = rand_text(rng, allow_colon=False)
        if version == '1.2' and rng.random() < 0.5 and desc:
            desc = '%d  %s' % (c + 1, desc)
        curves.append(Line(mn, un, val, desc))
        kinds.append('num')
    if datetime_curves and nc >= 2:
        for which in ('date', 'time'):
            if rng.random() < 0.8 and not (which == 'time' and idx_mn == 'TIME'):
                c = rng.randrange(1, nc)
                if kinds[c] == 'num':
                    kinds[c] = which
                    curves[c] = Line('DATE' if which == 'date' else 'TIME', 'D' if which == 'date' else 'HHMMSS',
                                     curves[c].val, curves[c].desc)
    if hostile:
        for c in range(1, nc):
            if kinds[c] == 'num' and rng.random() < 0.3:
                ln = curves[c]
                if rng.random() < 0.5:
                    curves[c] = Line(ln.mnem, rng.choice(HOSTILE_TEXTS), ln.val, ln.desc)
                else:
                    curves[c] = Line(ln.mnem, ln.unit, ln.val, rng.choice(HOSTILE_TEXTS))
    # ---- frames: index strictly monotonic
    d0 = rng.choice([0, 1, 1, 2, 3, 4])
    step = rng.choice([1, 1, 5, 25, 125, 1524, rng.randrange(1, 5000)]) * rng.choice([1, 1, -1])
    start = rng.randrange(-10 ** 4, 10 ** 7)
    frames = []
    nbad = 0
    for f in range(nf):
        row = [Cell.num(start + f * step, d0)]
        for c in range(1, nc):
            k = kinds[c]
            if k == 'date':
                row.append(Cell.date(rng.randint(1, 28), rng.randint(1, 12), rng.randrange(100)))
            elif k == 'time':
                row.append(Cell.time(rng.randrange(24), rng.randrange(60), rng.randrange(60)))
            else:
                r = rng.random()
                if bad_tokens and r < 0.04:
                    row.append(Cell.bad(rng.choice(BAD_TOKENS)))
                    nbad += 1
                elif r < 0.10 and nullv.kind in ('int', 'float'):
                    # the declared null itself (an absent value); exact decimal of the declared text
                    if nullv.kind == 'int':
                        row.append(Cell.num(nullv.py, 0))
                    else:
                        fr_ = Fraction(nullv.text)
                        dd = len(nullv.text.split('.')[1]) if '.' in nullv.text else 0
                        row.append(Cell.num(int(fr_ * 10 ** dd), dd))
                elif r < 0.13:
                    row.append(Cell.num(-99925, 2))     # the conventional absent value whatever NULL says
                elif extended and r < 0.15:
                    # extreme magnitudes: far beyond float32, down into the denormals and below (rounds to zero)
                    m, _ = rand_decimal(rng, big=True)
                    d = rng.choice([-250, -100, -30, -20, 20, 30, 45, 100, 300, 320, 340])
                    if d < 0:
                        m, d = m * 10 ** -d, 0
                    row.append(Cell.num(m, d))
                    if 'extreme-magnitude' not in flags:
                        flags.append('extreme-magnitude')
                else:
                    row.append(Cell.num(*rand_decimal(rng, big=rng.random() < 0.25)))
        frames.append(row)
    if extended and bad_tokens and rng.random() < 0.04:
        # one unparseable token in the index column: it reads as the null value, which must not collide with another index value
        nn = Fraction(nullv.text) if nullv.kind in ('int', 'float') else None
        if nn is not None and all(Fraction(fr[0].m, 10 ** fr[0].d) != nn for fr in frames):
            frames[rng.randrange(nf)][0] = Cell.bad(rng.choice(BAD_TOKENS))
            flags.append('bad-index-token')
    # ---- well
    wused = set()
    well = []
    last = start + (nf - 1) * step
    sd = max(d0, 1)
    scale = 10 ** (sd - d0)
    for mn, m in (('STRT', start * scale), ('STOP', last * scale), ('STEP', step * scale if nf > 1 else 0)):
        well.append(Line(mn, idx_unit, Val.float_(m, sd, dec_text(m, sd, rng.choice([0, 0, 1, 3]))), rng.choice([mn, 'START DEPTH', 'STOP', 'STEP', ''])
                         if mn != 'STEP' else rng.choice(['STEP', 'STEP DEPTH', ''])))
        wused.add(mn)
    well.append(Line('NULL', '', nullv, rng.choice(['NULL VALUE', 'NULL', ''])))
    wused.add('NULL')
    labels = {'COMP': 'COMPANY', 'WELL': 'WELL', 'FLD': 'FIELD', 'LOC': 'LOCATION', 'PROV': 'PROVINCE', 'CNTY': 'COUNTY',
              'STAT': 'STATE', 'CTRY': 'COUNTRY', 'SRVC': 'SERVICE COMPANY', 'DATE': 'LOG DATE', 'UWI': 'UNIQUE WELL ID',
              'API': 'API NUMBER', 'LIC': 'LICENCE'}
    for mn in ['COMP', 'WELL', 'FLD', 'LOC'] + rng.sample(['PROV', 'CNTY', 'STAT', 'CTRY', 'SRVC', 'DATE', 'UWI', 'API', 'LIC'], rng.randint(1, 6)):
        wused.add(mn)
        if version == '1.2':
            # LAS 1.2: the label sits in the value position, the data after the colon (colon free here)
            lab = labels[mn] if rng.random() < 0.8 else ''
            data = rand_text(rng, allow_colon=False)
            well.append(Line(mn, '', Val.text_(lab) if lab else Val.empty(), data))
        else:
            v = rand_val(rng, 0.7, extended) if mn not in ('DATE',) else Val.text_(rng.choice(['13-DEC-86', '1986-12-13', '12:30:05 13-DEC-86', '25 Dec 1988']))
            well.append(Line(mn, '', v, rng.choice([labels[mn], labels[mn].title(), ''])))
    for _ in range(rng.choice([0, 0, 1, 3])):
        well.append(Line(rand_mnem(rng, wused, None, mn_digit_p), rng.choice(UNITS) if rng.random() < 0.4 else '', rand_val(rng, 0.35, extended),
                         rand_text(rng, False)))
    # ---- parameters
    if params is None:
        params = rng.random() < 0.75
    plist = None
    if params:
        pused = set()
        plist = []
        for _ in range(rng.choice([0, 1, 2, 3, 5, 8, 14])):
            plist.append(Line(rand_mnem(rng, pused, ['BHT', 'BS', 'MUD', 'RUN', 'RM', 'RMF', 'DFD', 'DFV', 'MATR', 'MDEN', 'FD', 'EKB', 'EGL', 'TDL'], mn_digit_p),
                              rng.choice(UNITS) if rng.random() < 0.55 else '', rand_val(rng, 0.35, extended), rand_text(rng, False)))
    if hostile:
        for lst, usedset in ((well, wused), (plist, None)):
            if not lst:
                continue
            for i in range(4 if lst is well else 0, len(lst)):
                if rng.random() < 0.3:
                    ln = lst[i]
                    which = rng.choice(['mnem', 'unit', 'desc'])
                    h = rng.choice(HOSTILE_TEXTS)
                    if which == 'mnem':
                        names = set(x.mnem for x in lst)
                        if h in names or '.' in h:
                            continue
                        lst[i] = Line(h, ln.unit, ln.val, ln.desc)
                    elif which == 'unit':
                        lst[i] = Line(ln.mnem, h, ln.val, ln.desc)
                    else:
                        lst[i] = Line(ln.mnem, ln.unit, ln.val, h)
    # ---- other
    if other is None:
        other = rng.random() < 0.3
    olist = None
    if other:
        olist = []
        for _ in range(rng.choice([0, 1, 2, 4])):
            s = rand_text(rng, allow_colon=True, allow_empty=False, maxwords=9)
            olist.append(s)
    order = ['W', 'C'] + (['P'] if plist is not None else []) + (['O'] if olist is not None else [])
    if rng.random() < 0.4:
        rng.shuffle(order)
    v_extra = []
    if rng.random() < 0.15:
        v_extra.append(Line('PROD', '', Val.text_('ACME logging'), 'LAS Producer'))
    if extended and rng.random() < 0.15:
        # the standard fixes no order inside ~W: STRT / STOP / STEP / NULL anywhere among the other lines
        rng.shuffle(well)
        flags.append('well-shuffled')
    content = Content(version, nullv, well, curves, plist, olist, frames, ''.join(order), v_extra)
    content.vers_text = version + rng.choice(['', '', '', '0', '000'])
    content.flags = flags
    return content


def simple_content(curves, rows, version='2.0', null='-999.25', well=(), params=None, decimals=4, step_unit=None):
    """Explicit content.  curves: [(mnem, unit, description)]; rows: [[number | str(bad token)]] (numbers are rounded to
    ``decimals`` places); well / params: [(mnem, unit, python value | str, description)]."""
    def val(v):
        if isinstance(v, Val):
            return v
        if isinstance(v, bool):
            return Val.yesno(v)
        if isinstance(v, int):
            return Val.int_(v)
        if isinstance(v, float):
            return Val.float_(int(round(Fraction(v) * 10 ** decimals)), decimals)
        return Val.text_(v) if v else Val.empty()

    def cell(v):
        if isinstance(v, Cell):
            return v
        if isinstance(v, str):
            return Cell.bad(v)
        return Cell.num(int(round(Fraction(v) * 10 ** decimals)), decimals)

    frames = [[cell(v) for v in r] for r in rows]
    nd = len(null.split('.')[1]) if '.' in null else 0
    nullv = Val.float_(int(Fraction(null) * 10 ** nd), nd, null) if nd else Val.int_(int(null))
    unit = curves[0][1] if step_unit is None else step_unit
    w = []
    if frames:
        first, last = frames[0][0], frames[-1][0]
        step = (Fraction(last.m, 10 ** last.d) - Fraction(first.m, 10 ** first.d)) / max(1, len(frames) - 1)
        w = [Line('STRT', unit, Val.float_(first.m, max(first.d, 1) if first.d else 0), 'START'),
             Line('STOP', unit, Val.float_(last.m, max(last.d, 1) if last.d else 0), 'STOP'),
             Line('STEP', unit, Val.float_(int(round(step * 10 ** decimals)), decimals), 'STEP')]
    w.append(Line('NULL', '', nullv, 'NULL VALUE'))
    w += [Line(m, u, val(v), d) for m, u, v, d in well]
    p = None if params is None else [Line(m, u, val(v), d) for m, u, v, d in params]
    return Content(version, nullv, w, [Line(m, u, Val.empty(), d) for m, u, d in curves], p, None, frames,
                   'WCP' if p is not None else 'WC')


def minimal_header(null='-999.25', wrap=False, version='2.0'):
    return ('~Version Information\n VERS.   %s : CWLS LOG ASCII STANDARD - VERSION %s\n WRAP.   %s : wrap mode\n'
            '~Well Information\n NULL.   %s : NULL VALUE\n' % (version, version, 'YES' if wrap else 'NO', null))


# ------------------------------------------------------------------------------------------------ layout
class Layout:
    """How a content is written.  Every per-line decision is drawn from random.Random(seed) inside render()."""
    FIELDS = ('wrap', 'eol', 'sep', 'seed', 'comment_p', 'blank_p', 'pad_max', 'title_style', 'num_style', 'final_eol',
              'a_heading', 'lead_noise', 'wrap_text', 'col_width', 'data_lead')

    def __init__(self, **kw):
        kw.setdefault('data_lead', 'space')     # 'space': data lines start with 0..3 blanks; 'any': blanks and/or tabs
        for k in self.FIELDS:
            setattr(self, k, kw[k])

    def as_json(self):
        return {k: getattr(self, k) for k in self.FIELDS}


def random_layout(rng, wrap=None, noise=None, extended=False):
    """extended (used by C09): data lines may also start with tabs when the columns are tab / mixed separated."""
    quiet = rng.random() < 0.15 if noise is None else not noise
    wrap = (rng.random() < 0.5) if wrap is None else wrap
    lay = Layout(
        wrap=wrap, eol=rng.choice(['\n', '\n', '\r\n']), sep=rng.choice(['space', 'space', 'tab', 'mixed', 'column']),
        seed=rng.getrandbits(48), comment_p=0.0 if quiet else rng.choice([0.0, 0.05, 0.15, 0.4]),
        blank_p=0.0 if quiet else rng.choice([0.0, 0.05, 0.15, 0.4]),
        # "any amount of space padding": rarely thousands of blanks, so that single lines exceed common buffer sizes (4 KiB, 8 KiB)
        pad_max=rng.choice([0, 1, 3, 8, 20] * 6 + [2500, 9000]),
        title_style=rng.randrange(4), num_style=rng.choice(['fixed', 'fixed', 'zeros', 'exp', 'mixed']),
        final_eol=rng.random() < 0.85, a_heading=rng.choice(['none', 'title', 'names', 'names']),
        lead_noise=(not quiet) and rng.random() < 0.4,
        wrap_text=rng.choice(['YES', 'YES', 'Yes', 'yes'] if wrap else ['NO', 'NO', 'No', 'no']),
        col_width=rng.choice([8, 10, 12, 16] * 8 + [700, 3000]))
    if extended and lay.sep in ('tab', 'mixed') and rng.random() < 0.5:
        lay.data_lead = 'any'
    return lay


def plain_layout(wrap=False, eol='\n', seed=0):
    """A tidy layout: no comments or blank lines, single-blank separation, fixed-point numbers."""
    return Layout(wrap=wrap, eol=eol, sep='space', seed=seed, comment_p=0.0, blank_p=0.0, pad_max=1, title_style=1,
                  num_style='fixed', final_eol=True, a_heading='names', lead_noise=False, wrap_text='YES' if wrap else 'NO',
                  col_width=12)


TITLES = {'V': ['~V', '~Version Information', '~VERSION INFORMATION SECTION', '~Version Information Block'],
          'W': ['~W', '~Well Information', '~WELL INFORMATION BLOCK', '~Well Information Section'],
          'C': ['~C', '~Curve Information', '~CURVE INFORMATION BLOCK', '~Curve Information Section'],
          'P': ['~P', '~Parameter Information', '~PARAMETER INFORMATION BLOCK', '~Parameter Information Section'],
          'O': ['~O', '~Other Information', '~OTHER INFORMATION', '~Other'],
          'A': ['~A', '~ASCII LOG DATA', '~A  LOG DATA', '~Ascii']}
COMMENTS = ['', ' comment', 'MNEM.UNIT   VALUE : DESCRIPTION', '---------- -------', ' ~A not a section', ' 1.0 2.0 3.0',
            ' STRT.M 1.0 : x', '#', ' : . :', '\ttabbed comment', ' depth   gr   nphi']


def cell_text(cell, r, style):
    if cell.kind != 'num':
        return cell.text
    m, d = cell.m, cell.d
    st = style
    if st == 'mixed':
        st = r.choice(['fixed', 'zeros', 'exp', 'fixed', 'plus', 'bare'])
    if st == 'zeros':
        return dec_text(m, d, r.choice([1, 2, 3]))
    if st == 'exp':
        return exp_text(m, d, upper=r.random() < 0.7, plus=r.random() < 0.7, width=r.choice([1, 2, 2, 3]))
    if st == 'plus' and m >= 0:
        return '+' + dec_text(m, d)
    if st == 'bare' and d > 0 and abs(m) < 10 ** d and m != 0:
        t = dec_text(m, d)                      # '.5' / '-.5'
        return t.replace('0.', '.', 1)
    if st == 'bare' and d == 0:
        return dec_text(m, 0) + '.'             # '5.'
    return dec_text(m, d)


def render(content, layout):
    """Text of the content in the given layout."""
    import random
    r = random.Random(layout.seed)
    L = layout
    out = []

    def pad(lo=0):
        return ' ' * r.randint(lo, max(lo, L.pad_max))

    def noise():
        while True:
            x = r.random()
            if x < L.comment_p:
                out.append(' ' * r.choice([0, 0, 0, 2]) + '#' + r.choice(COMMENTS))
            elif x < L.comment_p + L.blank_p:
                out.append(r.choice(['', '', ' ', '   ', '\t', ' \t ']))
            else:
                return

    def header_line(ln):
        s = ' ' * r.choice([0, 1, 1, 2, 4]) + ln.mnem + ' ' * r.choice([0, 0, 1, 3]) + '.' + ln.unit
        if ln.val.text:
            s += pad(1) + ln.val.text + pad(0)
        else:
            s += pad(0)
        s += ':'
        if ln.desc:
            s += ' ' * r.choice([0, 1, 1, 2, 5]) + ln.desc
        s += ' ' * r.choice([0, 0, 0, 1, 4])
        return s

    if L.lead_noise:
        for _ in range(r.randint(1, 3)):
            out.append(r.choice(['# LAS file', '', '  ', '#', '\t']))
    sections = [('V', content.v_lines(L.wrap, L.wrap_text))]
    for s in content.order:
        if s == 'W':
            sections.append(('W', content.well))
        elif s == 'C':
            sections.append(('C', content.curves))
        elif s == 'P' and content.params is not None:
            sections.append(('P', content.params))
        elif s == 'O' and content.other is not None:
            sections.append(('O', content.other))
    for name, lines in sections:
        out.append(TITLES[name][L.title_style] + ' ' * r.choice([0, 0, 0, 1, 3]))
        noise()
        for ln in lines:
            if name == 'O':
                out.append(' ' * r.choice([0, 1, 3]) + ln + ' ' * r.choice([0, 0, 2]))
            else:
                out.append(header_line(ln))
            noise()
    # ---- data
    title = '~A'
    if L.a_heading == 'title':
        title = TITLES['A'][L.title_style]
    elif L.a_heading == 'names':
        title = '~A  ' + '  '.join(ln.mnem for ln in content.curves)
    out.append(title)
    noise()

    def join(tokens, first=True):
        if L.sep == 'column':
            return ''.join(t.rjust(L.col_width) if len(t) < L.col_width else ' ' + t for t in tokens)
        s = ' ' * r.choice([0, 1, 1, 3]) if first else ''
        if first and L.data_lead == 'any':
            s = r.choice(['\t', '\t', ' \t', '\t ', '\t\t', ''])
        for i, t in enumerate(tokens):
            if i:
                if L.sep == 'space':
                    s += ' ' * r.choice([1, 1, 2, 5])
                elif L.sep == 'tab':
                    s += '\t'
                else:
                    s += r.choice([' ', '\t', ' \t', '\t ', '  ', '\t\t'])
            s += t
        return s + r.choice(['', '', ' ', '\t'] if L.sep in ('tab', 'mixed') else ['', '', ' ', '  '])

    for fr in content.frames:
        toks = [cell_text(c, r, L.num_style) for c in fr]
        if not L.wrap:
            out.append(join(toks))
            noise()
        else:
            out.append(join(toks[:1]))
            noise()
            rest = toks[1:]
            while rest:
                n = r.choice([1, 2, 3, 5, 8, len(rest)])
                out.append(join(rest[:n]))
                rest = rest[n:]
                noise()
    text = L.eol.join(out)
    if L.final_eol:
        text += L.eol
    return text


def renderings(rng, content, k=4, extended=False):
    """k layouts of the same content; the first two are forced unwrapped / wrapped."""
    res = []
    for i in range(k):
        lay = random_layout(rng, wrap=(i == 1) if i < 2 else None, extended=extended)
        res.append((render(content, lay), lay))
    return res


def generate(rng, **opts):
    content = random_content(rng, **opts)
    lay = random_layout(rng)
    content.last_layout = lay
    return render(content, lay), content


# ------------------------------------------------------------------------------------------------ independent tokenizer
def tokenize(text):
    """Minimal LAS reader written from the specification (no TotalDepth code): sections by '~X', header lines by first dot /
    first blank after it / last colon, data rows by whitespace.  Values stay text."""
    res = {'order': '', 'rows': [], 'A_heading': None, 'A_title': None, 'A_lines': 0}
    sect = None
    for raw in text.replace('\r\n', '\n').split('\n'):
        line = raw.strip()
        if not line or line.startswith('#'):
            continue
        if line.startswith('~'):
            sect = line[1:2].upper()
            res['order'] += sect
            if sect == 'A':
                res['A_title'] = line
                res['A_heading'] = line[2:].split()
            else:
                res.setdefault(sect, [])
            continue
        if sect == 'A':
            res['rows'].append(line.split())
            res['A_lines'] += 1
        elif sect in ('V', 'W', 'C', 'P'):
            dot, colon = line.find('.'), line.rfind(':')
            if dot < 0 or colon < dot:
                raise ValueError('not a LAS header line: %r' % line)
            mid = line[dot + 1:colon]
            blank = mid.find(' ')
            unit, value = (mid, '') if blank < 0 else (mid[:blank], mid[blank:].strip())
            res[sect].append((line[:dot].strip(), unit.strip(), value, line[colon + 1:].strip()))
        elif sect is not None:
            res[sect].append(line)
    return res


def unwrap(rows, ncurves):
    """Frames of a wrapped data section: the index alone on a line, then values until ncurves are collected."""
    frames, cur = [], []
    for row in rows:
        cur.extend(row)
        if len(cur) >= ncurves:
            if len(cur) > ncurves:
                raise ValueError('frame overflow: %d values for %d curves' % (len(cur), ncurves))
            frames.append(cur)
            cur = []
    if cur:
        raise ValueError('incomplete last frame')
    return frames
