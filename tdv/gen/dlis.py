"""Independent RP66V1 physical-layer writer (storage unit label, visible records, logical record segments).

Written from RP66V1 section 2; shares no code with TotalDepth.  Returns bytes plus a model that says where
everything was put, which is the oracle's ground truth.

    lrs  = [LR(eflr, lr_type, payload, encrypted=False), ...]
    data, model = write_file(rng, lrs, layout=None, sul=None)

model.records[i] : RecordModel(lr, vr_position, lrsh_position, segments=[SegmentModel...], vr_ranges=[(pos, end)...])
model.sul        : SulModel
model.vrs        : [(position, length)]
"""
import struct

SUL_SIZE = 80
VR_MIN, VR_MAX = 20, 16384
SEG_MIN = 16


class LR:
    __slots__ = ('eflr', 'lr_type', 'payload', 'encrypted')

    def __init__(self, eflr, lr_type, payload, encrypted=False):
        self.eflr, self.lr_type, self.payload, self.encrypted = bool(eflr), int(lr_type), bytes(payload), bool(encrypted)

    def key(self):
        return (self.eflr, self.lr_type, self.payload, self.encrypted)


class SulModel:
    def __init__(self, seq, version, max_len, ident, seq_text, max_text):
        self.seq, self.version, self.max_len, self.ident = seq, version, max_len, ident
        self.seq_text, self.max_text = seq_text, max_text

    def as_bytes(self):
        b = self.seq_text + self.version + b'RECORD' + self.max_text + self.ident
        assert len(b) == SUL_SIZE, len(b)
        return b


class SegmentModel:
    __slots__ = ('position', 'length', 'vr_position', 'vr_length', 'data_offset', 'data_length', 'pad', 'checksum', 'trailing', 'first', 'last',
                 'enc_pad_bit')

    def as_dict(self):
        return {k: getattr(self, k) for k in self.__slots__}


class RecordModel:
    def __init__(self, lr):
        self.lr = lr
        self.segments = []

    @property
    def vr_position(self):
        return self.segments[0].vr_position

    @property
    def lrsh_position(self):
        return self.segments[0].position

    @property
    def vr_ranges(self):
        out = []
        for s in self.segments:
            r = (s.vr_position, s.vr_position + s.vr_length)
            if r not in out:
                out.append(r)
        return out

    def describe(self):
        return {'eflr': self.lr.eflr, 'type': self.lr.lr_type, 'len': len(self.lr.payload), 'encrypted': self.lr.encrypted,
                'segments': [(s.position, s.length, s.data_length, s.pad) for s in self.segments],
                'visible_records': self.vr_ranges}


class FileModel:
    def __init__(self, sul):
        self.sul = sul
        self.records = []
        self.vrs = []
        self.layout = {}

    def is_nontrivial(self):
        return any(len(r.segments) >= 2 or len(r.vr_ranges) >= 2 or any(s.pad or s.checksum or s.trailing for s in r.segments)
                   for r in self.records)

    def classes(self):
        c = set()
        for r in self.records:
            if len(r.segments) >= 2:
                c.add('multi-segment')
            if len(r.segments) >= 3:
                c.add('3+segments')
            if len(r.vr_ranges) >= 2:
                c.add('multi-visible-record')
            if any(s.pad for s in r.segments):
                c.add('padding')
            if any(s.pad > 3 for s in r.segments):
                c.add('padding>3')
            if any(s.checksum for s in r.segments):
                c.add('checksum')
            if any(s.trailing for s in r.segments):
                c.add('trailing-length')
            if len({bool(s.checksum) for s in r.segments}) == 2:
                c.add('checksum-on-some-segments-only')
            if r.lr.encrypted:
                c.add('encrypted')
            if len(r.lr.payload) == 0:
                c.add('empty-payload')
            if any(s.data_length == 0 and not (s.first and s.last) for s in r.segments):
                c.add('zero-payload-segment')
            if any(getattr(s, 'enc_pad_bit', False) for s in r.segments):
                c.add('encrypted-with-pad-bit')
        return sorted(c)


def random_sul(rng, vr_cap=None):
    seq = rng.choice([1, 1, 2, 9, 10, 20, 100, 101, 1000, 1010, 9999, rng.randrange(1, 10000)])
    pad = rng.choice([b' ', b'0'])
    seq_text = str(seq).encode().rjust(4, pad)
    version = b'V1.' + ('%02d' % rng.choice([0, 0, 0, 1, 10, 99, rng.randrange(100)])).encode()
    lo = vr_cap or VR_MIN
    max_len = rng.choice([8192, 16384, 4096, 10000, 1000, 1024, 2000, 20, 100, rng.randrange(VR_MIN, VR_MAX + 1)])
    if max_len < lo:
        max_len = rng.choice([lo, 16384, 8192 if lo <= 8192 else 16384])
    pad = rng.choice([b' ', b'0'])
    max_text = str(max_len).encode().rjust(5, pad)
    alphabet = bytes(range(0x20, 0x7f))
    ident = bytes(rng.choice(alphabet) for _ in range(rng.randrange(0, 61))).ljust(60)
    if rng.random() < 0.3:
        ident = b'Default Storage Set'.ljust(60)
    return SulModel(seq, version, max_len, ident, seq_text, max_text)


def random_layout(rng):
    """Parameters that shape the physical layout."""
    style = rng.random()
    if style < 0.45:
        vr_cap = rng.choice([20, 22, 24, 32, 40, 64, 100, 120, 200])
    elif style < 0.8:
        vr_cap = rng.randrange(20, 1200) & ~1
    else:
        vr_cap = rng.choice([8192, 16384, 4096, rng.randrange(1200, 16385) & ~1])
    return {
        'vr_cap': max(VR_MIN, vr_cap),
        'seg_small': rng.random() < 0.6,          # prefer many small segments
        'p_close_vr': rng.choice([0.0, 0.1, 0.3, 0.6]),
        'p_pad': rng.choice([0.0, 0.2, 0.5]),
        'p_chk': rng.choice([0.0, 0.3, 0.7]),
        'chk_per_segment': rng.random() < 0.3,
        'p_trail': rng.choice([0.0, 0.3, 0.7]),
        'p_empty_mid': rng.choice([0.0, 0.05, 0.15]),
    }


def _segment(rng, lr, chunk, first, last, chk, trail, want_pad, enc_pad_bit=False):
    """Build one segment.  Returns (bytes, pad_count).

    enc_pad_bit: for an encrypted record set the padding attribute bit without touching the body: the pad bytes of
    an encrypted segment are part of the encrypted (opaque) body, so a reader that cannot decrypt returns them verbatim."""
    attr = (0x80 if lr.eflr else 0) | (0 if first else 0x40) | (0 if last else 0x20) | (0x10 if lr.encrypted else 0)
    if lr.encrypted and enc_pad_bit:
        attr |= 0x01
    tail_len = (2 if chk else 0) + (2 if trail else 0)
    n = 4 + len(chunk) + tail_len
    padn = 0
    if not lr.encrypted:
        if n < SEG_MIN:
            padn = SEG_MIN - n
        if (n + padn) % 2:
            padn += 1
        if want_pad:
            padn += 2 * rng.randrange(0 if padn else 1, 1 + rng.choice([1, 1, 2, 5, 40, 120]))
        while padn > 255:
            padn -= 2
    else:
        assert n >= SEG_MIN and n % 2 == 0, 'encrypted chunks must be conformant without padding'
    body = chunk
    if padn:
        attr |= 0x01
        filler = bytes(rng.randrange(256) for _ in range(padn - 1))
        body = chunk + filler + bytes([padn])
    n = 4 + len(body) + tail_len
    assert n % 2 == 0 and n >= SEG_MIN, (n, padn, len(chunk))
    tail = b''
    if chk:
        attr |= 0x04
        tail += bytes([rng.randrange(256), rng.randrange(256)])
    if trail:
        attr |= 0x02
        tail += struct.pack('>H', n)
    return struct.pack('>HBB', n, attr, lr.lr_type) + body + tail, padn


def seg_overhead(chk, trail):
    return 4 + (2 if chk else 0) + (2 if trail else 0)


def min_seg_len(nbytes, chk, trail):
    n = seg_overhead(chk, trail) + nbytes
    if n < SEG_MIN:
        n = SEG_MIN
    if n % 2:
        n += 1
    return n


def write_file(rng, lrs, layout=None, sul=None, cuts=None, opts=None):
    """Write the logical records into a conformant RP66V1 byte string with a random physical layout.

    cuts: optional explicit plan {record index: [chunk lengths]} (used by the exhaustive small-scope enumeration);
          each chunk becomes one segment (also honoured for encrypted records: the caller supplies conformant chunks).
    opts: optional {record index: {'chk': bool, 'trail': bool, 'pad': bool}} overriding the random trailer choices of
          that record ('pad' = extra padding beyond what conformance forces, on every segment of the record).
    layout key 'p_enc_padbit' (optional, default 0): probability that a segment of an encrypted record carries the
          padding attribute bit (body unchanged, expected verbatim).
    """
    lay = dict(random_layout(rng) if layout is None else layout)
    vr_cap = lay['vr_cap']
    if sul is None:
        sul = random_sul(rng, vr_cap)
    assert VR_MIN <= vr_cap <= VR_MAX
    model = FileModel(sul)
    model.layout = lay
    out = bytearray(sul.as_bytes())
    vr = bytearray()
    vr_segs = []

    def flush():
        nonlocal vr, vr_segs
        if vr:
            pos = len(out)
            length = len(vr) + 4
            assert VR_MIN <= length <= VR_MAX and length <= vr_cap, (length, vr_cap)
            out.extend(struct.pack('>HH', length, 0xff01) + vr)
            model.vrs.append((pos, length))
            for s, off in vr_segs:
                s.vr_position, s.vr_length = pos, length
                s.position = pos + 4 + off
            vr = bytearray()
            vr_segs = []

    for ri, lr in enumerate(lrs):
        rm = RecordModel(lr)
        model.records.append(rm)
        chk = rng.random() < lay['p_chk']
        trail = rng.random() < lay['p_trail']
        ropt = (opts or {}).get(ri) or {}
        if 'chk' in ropt:
            chk = bool(ropt['chk'])
        if 'trail' in ropt:
            trail = bool(ropt['trail'])
        payload = lr.payload
        ofs = 0
        first = True
        plan = list(cuts[ri]) if cuts and ri in cuts else None
        while True:
            if lay.get('chk_per_segment') and 'chk' not in ropt and not lr.encrypted:
                # the checksum is a per-segment option (RP66V1 2.2.2.1): segments of one record may differ in it
                chk = rng.random() < max(lay['p_chk'], 0.4)
            room = vr_cap - 4 - len(vr)
            over = seg_overhead(chk, trail)
            remaining = len(payload) - ofs
            if room < SEG_MIN:
                flush()
                continue
            if lr.encrypted and plan is None:
                # even chunks >= 12 - tail, no padding; remaining is even and >= that by construction
                lo = max(SEG_MIN - over, 2)
                lo += lo % 2
                if remaining <= room - over and (remaining < 2 * lo or rng.random() < 0.5):
                    take = remaining
                else:
                    hi = min(remaining - lo, room - over)
                    hi -= hi % 2
                    if hi < lo:
                        if len(vr):
                            flush()
                            continue
                        raise ValueError('visible record capacity too small for an encrypted record')
                    take = rng.randrange(lo, hi + 1, 2)
            elif plan is not None:
                take = plan[0]
                if min_seg_len(take, chk, trail) > room:
                    if len(vr):
                        flush()
                        continue
                    raise ValueError('planned chunk does not fit the visible record capacity')
                plan.pop(0)
            else:
                cap = room - over            # most payload bytes that fit (pad may be needed for parity)
                if (over + cap) % 2:
                    cap -= 1
                cap = max(cap, 0)
                if min_seg_len(0, chk, trail) > room:
                    flush()
                    continue
                if remaining and rng.random() < lay['p_empty_mid'] and not first:
                    take = 0
                elif lay['seg_small'] and rng.random() < 0.8:
                    take = min(remaining, cap, rng.choice([0, 1, 2, 3, 7, 8, 11, 12, 13, 16, 31, rng.randrange(0, 64)]))
                    if take == 0 and remaining and rng.random() < 0.8:
                        take = min(remaining, cap, 1 + rng.randrange(0, 9))
                elif rng.random() < 0.5:
                    take = min(remaining, cap)
                else:
                    take = rng.randrange(0, min(remaining, cap) + 1)
                if take == 0 and remaining and cap == 0:
                    flush()
                    continue
            chunk = payload[ofs:ofs + take]
            last = (ofs + take >= len(payload)) if plan is None else (not plan)
            if plan is None and not last and take == 0 and first and rng.random() < 0.5:
                take = min(remaining, 1)
                chunk = payload[ofs:ofs + take]
                last = ofs + take >= len(payload)
            want_pad = (not lr.encrypted) and rng.random() < lay['p_pad']
            if 'pad' in ropt:
                want_pad = (not lr.encrypted) and bool(ropt['pad'])
            epb = bool(lr.encrypted and lay.get('p_enc_padbit') and rng.random() < lay['p_enc_padbit'])
            seg, padn = _segment(rng, lr, chunk, first, last, chk, trail, want_pad, epb)
            if len(seg) > room:
                seg, padn = _segment(rng, lr, chunk, first, last, chk, trail, False, epb)
            if len(seg) > room:
                if len(vr) == 0:
                    raise ValueError('segment cannot fit an empty visible record')
                if plan is not None:
                    plan.insert(0, take)
                flush()
                continue
            sm = SegmentModel()
            sm.length = len(seg)
            sm.data_offset, sm.data_length = ofs, take
            sm.pad, sm.checksum, sm.trailing, sm.first, sm.last = padn, chk, trail, first, last
            sm.enc_pad_bit = epb
            sm.position = sm.vr_position = sm.vr_length = None
            vr_segs.append((sm, len(vr)))
            vr += seg
            rm.segments.append(sm)
            ofs += take
            first = False
            if rng.random() < lay['p_close_vr']:
                flush()
            if last:
                break
    flush()
    return bytes(out), model


def random_records(rng, n=None, max_payload=None, allow_encrypted=True, vr_cap=200):
    """Logical records with unique, position-identifying payloads."""
    n = n if n is not None else rng.randrange(1, 41)
    lrs = []
    for i in range(n):
        kind = rng.random()
        if kind < 0.08:
            ln = 0
        elif kind < 0.5:
            ln = rng.randrange(1, 40)
        elif kind < 0.9:
            ln = rng.randrange(1, 3 * vr_cap + 1)
        else:
            ln = rng.randrange(1, (max_payload or 6 * vr_cap) + 1)
        enc = allow_encrypted and vr_cap >= 40 and rng.random() < 0.12
        if enc:
            ln = max(12, ln + ln % 2)
        tag = struct.pack('>HI', i & 0xffff, rng.getrandbits(32))
        body = bytearray((tag * (ln // len(tag) + 1))[:ln])
        for k in range(0, ln, 7):
            body[k] = (body[k] + k) & 0xff
        if ln and rng.random() < 0.3:
            body[-1] = rng.choice([0, 1, 2, 3, 255])  # last byte that looks like a pad count
        lrs.append(LR(rng.random() < 0.5, rng.choice([0, 1, 2, 3, 4, 5, 127, 128, 255, rng.randrange(256)]), bytes(body), enc))
    return lrs


def write_file_safe(rng, lrs, layout=None, sul=None):
    """write_file, falling back to unencrypted records when the capacity cannot hold an encrypted cut."""
    state = rng.getstate()
    try:
        return write_file(rng, lrs, layout=layout, sul=sul)
    except ValueError:
        rng.setstate(state)
        lrs2 = [LR(r.eflr, r.lr_type, r.payload, False) for r in lrs]
        return write_file(rng, lrs2, layout=layout, sul=sul)
