"""Independent LIS-79 encoder: value codecs, logical records, a simple physical framer and a log-pass file generator.

Written from the LIS-79 format description; shares no code with TotalDepth (only struct / fractions / math).

Value codecs (representation codes 49, 50, 56, 66, 68, 70, 73, 77, 79)
    rc_me(rc, b)        -> (m, e): the exact value of the word is m * 2**e (integers)
    rc_fraction(rc, b)  -> fractions.Fraction, exact
    rc_float(rc, b)     -> float, exact (every code value is a dyadic rational inside the double range)
    rc_encode(rc, x)    -> bytes, exact encoder (ValueError when x is not representable)
    enc68(x, exact=True)-> bytes; exact=False truncates the mantissa toward zero
    random_word(rng, rc)-> random bit pattern (code 50: exponent field 0..1023, never negative - finding F5 belongs to C07)

Logical records (each returns the logical record bytes, LRH included)
    lr_file_head_tail, lr_reel_tape, component_block, lr_table, entry_block, dsb, lr_dfsr, lr_data, lr_misc

Physical framing
    Layout(pr_len, rec_num, file_num, checksum, tif)   tif in (None, 'le', 'be')
    frame_records(lrs, layout) -> (bytes, [(start, end)] per logical record, [PR dicts])
    random_layout(rng, small=True)

Generator
    random_file(rng, allow_be=True, two_files_p=0.2, layout=None, concurrent_p=0.0, profile=None) -> (bytes, FileModel)
                  profile: optional dict of widening knobs (see PROFILE_KEYS); None = the original input space, drawn with the
                  original random stream (other checks use this generator through providers and keep their inputs)
    FileModel:    .data .layout .prs
                  .records   [{'kind','type','name','start','end','len','logpass'}] every logical record in file order
                  .index     [(start, lr_type, table name | None, kind)] every logical record that is not a data record
                  .logpasses [LogPassModel]
    LogPassModel: .channels [Channel(mnem, units, rc, samples, bursts)] .col_start .ncols .frame_size
                  .indirect .x_rc .x_units .spacing (signed Fraction, X units) .spacing_declared/.spacing_units (entry blocks 8/9)
                  .updown .data_type .neg70 .record_gaps .entry_blocks .absent_declared
                  .frames_per_record .total
                  .matrix    total x ncols exact floats; column of (channel c, sample sa, burst bu) = col_start[c] + sa*bursts + bu
                  .x         one Fraction per frame (implied: X recorded in the frame's record + offset * spacing; explicit: channel 0)
                  .x_records recorded X of each data record, .evenly_spaced
                  .extents   [(start, end, first_frame, nframes)] byte extent of each data record (TIF marker .. end of last trailer)
                  .dfsr_pos
"""
import math
import struct
from fractions import Fraction

RC_SIZE = {49: 2, 50: 4, 56: 1, 66: 1, 68: 4, 70: 4, 73: 4, 77: 1, 79: 2}
FRAME_RCS = (49, 50, 56, 66, 68, 70, 73, 77, 79)


# ------------------------------------------------------------------------------------------------ value codecs
def _signed(w, bits):
    return w - (1 << bits) if w & (1 << (bits - 1)) else w


def rc_me(rc, b):
    """Exact value of the code word b as (m, e) meaning m * 2**e."""
    if len(b) != RC_SIZE[rc]:
        raise ValueError('code %d needs %d bytes, got %d' % (rc, RC_SIZE[rc], len(b)))
    w = int.from_bytes(b, 'big')
    if rc == 49:      # 16 bit float: 12 bit two's complement fraction, 4 bit unsigned exponent
        return _signed(w >> 4, 12), (w & 0xF) - 11
    if rc == 50:      # 32 bit low resolution float: 16 bit two's complement exponent, 16 bit two's complement fraction
        return _signed(w & 0xFFFF, 16), _signed(w >> 16, 16) - 15
    if rc == 56:      # 8 bit two's complement integer
        return _signed(w, 8), 0
    if rc in (66, 77):  # unsigned byte / 8 bit mask
        return w, 0
    if rc == 68:      # 32 bit float: sign, excess-128 exponent (one's complemented when negative), 23 bit two's complement fraction
        e = (w >> 23) & 0xFF
        m = w & 0x7FFFFF
        if w >> 31:
            return m - (1 << 23), (127 - e) - 23
        return m, (e - 128) - 23
    if rc == 70:      # 32 bit fixed point, binary point in the middle
        return _signed(w, 32), -16
    if rc == 73:      # 32 bit two's complement integer
        return _signed(w, 32), 0
    if rc == 79:      # 16 bit two's complement integer
        return _signed(w, 16), 0
    raise ValueError('unsupported representation code %r' % rc)


def rc_fraction(rc, b):
    m, e = rc_me(rc, b)
    return Fraction(m) * (Fraction(2) ** e)


def rc_float(rc, b):
    m, e = rc_me(rc, b)
    return math.ldexp(m, e)   # exact: |m| < 2**32 and the result is a normal double


def _to_fraction(x):
    if isinstance(x, Fraction):
        return x
    return Fraction(x)   # float -> exact


def enc68(x, exact=True):
    """Encode x in representation code 68.  exact=False truncates the mantissa toward zero."""
    x = _to_fraction(x)
    if x == 0:
        return bytes([0x40, 0, 0, 0])
    # find E with 1/2 <= |x| / 2**E < 1
    n, d = abs(x.numerator), x.denominator
    E = n.bit_length() - d.bit_length()
    while Fraction(n, d) >= Fraction(2) ** E:
        E += 1
    while Fraction(n, d) < Fraction(2) ** (E - 1):
        E -= 1
    mant = abs(x) / (Fraction(2) ** E) * (1 << 23)      # in [2**22, 2**23)
    mi = mant.numerator // mant.denominator
    if mi != mant:
        if exact:
            raise ValueError('%s is not representable in code 68' % x)
    if x > 0:
        e = E + 128
        m = mi
        s = 0
    else:
        # two's complement fraction in [-1, -1/2], exponent one's complemented
        if mi != mant:
            pass  # truncation toward zero of the magnitude
        m = (1 << 23) - mi       # in (0, 2**22]
        e = 127 - E
        s = 1
    if not (0 <= e <= 255):
        raise ValueError('%s outside the exponent range of code 68' % x)
    return ((s << 31) | (e << 23) | (m & 0x7FFFFF)).to_bytes(4, 'big')


def rc_encode(rc, x):
    """Exact encoder; ValueError when x has no exact representation (code 50: only non-negative exponents are produced)."""
    x = _to_fraction(x)
    if rc in (56, 66, 77, 73, 79):
        if x.denominator != 1:
            raise ValueError('code %d holds integers only' % rc)
        v = int(x)
        lo, hi = {56: (-128, 127), 66: (0, 255), 77: (0, 255), 73: (-2 ** 31, 2 ** 31 - 1), 79: (-2 ** 15, 2 ** 15 - 1)}[rc]
        if not lo <= v <= hi:
            raise ValueError('%d outside code %d' % (v, rc))
        return (v & ((1 << (8 * RC_SIZE[rc])) - 1)).to_bytes(RC_SIZE[rc], 'big')
    if rc == 70:
        v = x * 65536
        if v.denominator != 1 or not -2 ** 31 <= v <= 2 ** 31 - 1:
            raise ValueError('%s not representable in code 70' % x)
        return (int(v) & 0xFFFFFFFF).to_bytes(4, 'big')
    if rc == 68:
        return enc68(x, exact=True)
    if rc == 49:
        for E in range(0, 16):
            m = x * 2048 / (Fraction(2) ** E)
            if m.denominator == 1 and -2048 <= m <= 2047:
                return (((int(m) & 0xFFF) << 4) | E).to_bytes(2, 'big')
        raise ValueError('%s not representable in code 49' % x)
    if rc == 50:
        for E in range(0, 64):
            m = x * 32768 / (Fraction(2) ** E)
            if m.denominator == 1 and -32768 <= m <= 32767:
                return ((E << 16) | (int(m) & 0xFFFF)).to_bytes(4, 'big')
        raise ValueError('%s not representable in code 50 with a small non-negative exponent' % x)
    raise ValueError('unsupported representation code %r' % rc)


def random_word(rng, rc, neg70=True):
    """A random bit pattern of the code.  Code 50: exponent field in 0..1023 (non-negative, F5 is C07's).
    neg70=False clears the sign bit of code 70 words."""
    n = RC_SIZE[rc]
    if rc == 70 and not neg70:
        w = random_word(rng, 70, True)
        return bytes([w[0] & 0x7F]) + w[1:]
    if rc == 50:
        e = rng.randrange(0, 31) if rng.random() < 0.7 else rng.randrange(0, 1024)
        return ((e << 16) | rng.getrandbits(16)).to_bytes(4, 'big')
    k = rng.random()
    if k < 0.08:
        return bytes(n)
    if k < 0.16:
        return b'\xff' * n
    if k < 0.22:
        return b'\x80' + bytes(n - 1)
    if k < 0.28:
        return b'\x7f' + b'\xff' * (n - 1)
    return rng.getrandbits(8 * n).to_bytes(n, 'big')


# ------------------------------------------------------------------------------------------------ logical records
def _fix(b, n, pad=b' '):
    b = bytes(b)
    if len(b) > n:
        raise ValueError('field %r longer than %d' % (b, n))
    return b + pad * (n - len(b))


def lr_file_head_tail(lr_type, file_name=b'GENLIS.001', service_sub_level=b'SUBLEV', version=b'VERS 1.0',
                      date=b'26/10/03', max_pr_len=b' 1024', file_type=b'LO', cont_name=b''):
    """File header (128) / trailer (129): 58 bytes."""
    assert lr_type in (128, 129)
    out = bytes([lr_type, 0]) + _fix(file_name, 10) + b'  ' + _fix(service_sub_level, 6) + _fix(version, 8) \
        + _fix(date, 8) + b' ' + _fix(max_pr_len, 5) + b'  ' + _fix(file_type, 2) + b'  ' + _fix(cont_name, 10)
    assert len(out) == 58
    return out


def lr_reel_tape(lr_type, service_name=b'GENSRV', date=b'26/10/03', origin=b'ORIG', name=b'NAME0001',
                 cont_number=b'01', cont_name=b'', comments=b'generated by tdv.gen.lis'):
    """Tape header/trailer (130/131), reel header/trailer (132/133): 128 bytes."""
    assert lr_type in (130, 131, 132, 133)
    out = bytes([lr_type, 0]) + _fix(service_name, 6) + b' ' * 6 + _fix(date, 8) + b'  ' + _fix(origin, 4) + b'  ' \
        + _fix(name, 8) + b'  ' + _fix(cont_number, 2) + b'  ' + _fix(cont_name, 8) + b'  ' + _fix(comments, 74)
    assert len(out) == 128
    return out


def component_block(cb_type, rc, mnem, units, value_bytes, category=0, size=None):
    """Component block: type, rep code, size, category, mnemonic(4), units(4), value."""
    if size is None:
        size = len(value_bytes)
    return bytes([cb_type, rc, size, category]) + _fix(mnem, 4) + _fix(units, 4) + bytes(value_bytes)


def lr_table(lr_type, name, rows, name_mnem=b'TYPE'):
    """Table record.  rows: list of rows, a row is a list of cells (mnem, rc, units, value_bytes);
    the first cell of a row is written as a type 0 block, the others as type 69."""
    out = bytearray([lr_type, 0])
    out += component_block(73, 65, name_mnem, b'    ', name)
    for row in rows:
        for c, (mnem, rc, units, vb) in enumerate(row):
            out += component_block(0 if c == 0 else 69, rc, mnem, units, vb)
    return bytes(out)


def entry_block(eb_type, rc, value_bytes, size=None):
    if size is None:
        size = len(value_bytes)
    return bytes([eb_type, size, rc]) + bytes(value_bytes)


def dsb(mnem, units, size, samples, rc, serv_id=b'SRVID ', serv_ord=b'SRVORDER', api=45310011, file_no=1):
    """Datum specification block, sub-type 0, 40 bytes."""
    out = _fix(mnem, 4) + _fix(serv_id, 6) + _fix(serv_ord, 8) + _fix(units, 4) + struct.pack('>I', api) \
        + struct.pack('>hh', file_no, size) + b'\x00\x00\x00' + bytes([samples, rc]) + b'\x00' * 5
    assert len(out) == 40
    return out


def lr_dfsr(entry_blocks, dsbs):
    """entry_blocks: list of (type, rc, value_bytes) without the terminator; the terminator is sized to make the
    entry block section even."""
    body = b''.join(entry_block(t, rc, vb) for t, rc, vb in entry_blocks)
    if (len(body) + 3) % 2:
        body += entry_block(0, 66, b'\x00')
    else:
        body += entry_block(0, 66, b'')
    return bytes([64, 0]) + body + b''.join(dsbs)


def lr_data(lr_type, indirect_x, frames):
    return bytes([lr_type, 0]) + bytes(indirect_x or b'') + b''.join(frames)


def lr_misc(lr_type, payload):
    return bytes([lr_type, 0]) + bytes(payload)


# ------------------------------------------------------------------------------------------------ physical framing
class Layout:
    def __init__(self, pr_len=65535, rec_num=False, file_num=None, checksum=False, tif=None):
        self.pr_len = pr_len
        self.rec_num = rec_num
        self.file_num = file_num
        self.checksum = checksum
        self.tif = tif
        self.trailer_len = (2 if rec_num else 0) + (2 if file_num is not None else 0) + (2 if checksum else 0)
        self.capacity = pr_len - 4 - self.trailer_len
        self.pad_modulo = 0          # 2 or 4: null bytes after a physical record up to that file position modulus (LIS-79 2.3.1.1)
        if self.capacity < 1 or pr_len > 65535:
            raise ValueError('bad physical record length %d' % pr_len)

    def describe(self):
        return {'pr_len': self.pr_len, 'rec_num': self.rec_num, 'file_num': self.file_num,
                'checksum': self.checksum, 'tif': self.tif}


def _checksum(b):
    s = 0
    for i in range(0, len(b) - 1, 2):
        s = (s + ((b[i] << 8) | b[i + 1])) & 0xFFFF
    return s


def frame_records(lrs, layout):
    """Split each logical record over physical records.  Returns (bytes, extents, prs):
    extents[i] = (start, end) of logical record i including TIF markers, headers and trailers."""
    attr0 = (0x0200 if layout.rec_num else 0) | (0x0400 if layout.file_num is not None else 0) | (0x1000 if layout.checksum else 0)
    prs = []      # (lr index, pr bytes)
    recno = 0
    for i, lr in enumerate(lrs):
        if len(lr) < 2:
            raise ValueError('logical record without a header')
        chunks = [lr[k:k + layout.capacity] for k in range(0, len(lr), layout.capacity)]
        for k, ch in enumerate(chunks):
            attr = attr0 | (1 if k < len(chunks) - 1 else 0) | (2 if k > 0 else 0)
            b = bytearray(struct.pack('>HH', 4 + len(ch) + layout.trailer_len, attr)) + ch
            if layout.rec_num:
                b += struct.pack('>H', recno & 0xFFFF)
                recno += 1
            if layout.file_num is not None:
                b += struct.pack('>H', layout.file_num)
            if layout.checksum:
                b += struct.pack('>H', _checksum(b))
            prs.append((i, bytes(b)))
    out = bytearray()
    extents = [None] * len(lrs)
    info = []
    tif = layout.tif
    if tif:
        fmt = '<3L' if tif == 'le' else '>3L'
        pos = []
        p = 0
        pm = getattr(layout, 'pad_modulo', 0)
        for _, b in prs:
            pos.append(p)
            p += 12 + len(b)
            if pm and p % pm:
                p += pm - p % pm
        eof = p
        first_next = pos[1] if len(pos) > 1 else eof
        if tif == 'be' and int.from_bytes(first_next.to_bytes(4, 'big'), 'little') <= 0xFFFF + 12:
            # a reader tells the byte order from the first 'next' word; these values look little-endian
            raise ValueError('big-endian TIF with first next word 0x%x cannot be told from little-endian' % first_next)
        for k, (i, b) in enumerate(prs):
            back = pos[k - 1] if k else 0
            nxt = pos[k + 1] if k + 1 < len(prs) else eof
            start = len(out)
            out += struct.pack(fmt, 0, back, nxt) + b
            out += b'\x00' * (nxt - len(out))        # padding, if any
            info.append({'lr': i, 'start': start, 'end': len(out)})
            extents[i] = (extents[i][0] if extents[i] else start, len(out))
        out += struct.pack(fmt, 1, pos[-1] if pos else 0, eof + 12)
        out += struct.pack(fmt, 1, eof, eof + 24)
    else:
        pm = getattr(layout, 'pad_modulo', 0)
        for i, b in prs:
            start = len(out)
            out += b
            if pm and len(out) % pm:
                out += b'\x00' * (pm - len(out) % pm)
            info.append({'lr': i, 'start': start, 'end': len(out)})
            extents[i] = (extents[i][0] if extents[i] else start, len(out))
    return bytes(out), extents, info


def random_layout(rng, small=True, allow_be=True, tiny_p=0.0):
    """tiny_p: probability of a payload capacity of 1..3 bytes (the 2 byte logical record header is then split over
    physical records); 0 keeps the original stream of random draws."""
    rec = rng.random() < 0.3
    fil = rng.choice([None, None, 0, 7, 65535])
    chk = rng.random() < 0.3
    tl = (2 if rec else 0) + (2 if fil is not None else 0) + (2 if chk else 0)
    k = rng.random()
    if k < 0.35:
        cap = rng.randrange(4, 24)
    elif k < 0.7:
        cap = rng.randrange(24, 400)
    elif k < 0.9:
        cap = rng.randrange(400, 4000)
    else:
        cap = 65535 - 4 - tl
    tif = rng.choice([None, None, 'le', 'be' if allow_be else 'le'])
    if tiny_p and rng.random() < tiny_p:
        cap = rng.randrange(1, 4)
    return Layout(4 + tl + cap, rec, fil, chk, tif)


def frame_safe(lrs, layout):
    """frame_records, falling back to little-endian TIF when the big-endian form would be ambiguous."""
    try:
        return frame_records(lrs, layout) + (layout,)
    except ValueError:
        if layout.tif != 'be':
            raise
        lay = Layout(layout.pr_len, layout.rec_num, layout.file_num, layout.checksum, 'le')
        return frame_records(lrs, lay) + (lay,)


# ------------------------------------------------------------------------------------------------ models
DIPMETER_BYTES = {130: 80, 234: 90}    # dipmeter codes: 16 samples of 5 fast channels (+ 10 slow channels), one unsigned byte each


class Channel:
    """A channel of a frame.  Dipmeter channels (codes 130 / 234, only generated with profile['dipmeter_p']) are 80 / 90
    unsigned bytes per frame; their datum specification block declares one sample."""

    def __init__(self, mnem, units, rc, samples=1, bursts=1):
        self.mnem, self.units, self.rc, self.samples, self.bursts = mnem, units, rc, samples, bursts

    @property
    def dipmeter(self):
        return self.rc in DIPMETER_BYTES

    @property
    def word_rc(self):
        """Representation code of one value of the channel."""
        return 66 if self.dipmeter else self.rc

    @property
    def dsb_samples(self):
        return 1 if self.dipmeter else self.samples

    @property
    def nvalues(self):
        return DIPMETER_BYTES[self.rc] if self.dipmeter else self.samples * self.bursts

    @property
    def size(self):
        return self.nvalues * RC_SIZE[self.word_rc]

    def describe(self):
        return {'mnem': self.mnem.decode('latin-1'), 'rc': self.rc, 'samples': self.samples, 'bursts': self.bursts}


class LogPassModel:
    pass


class FileModel:
    pass


UNIT_FACTORS = {   # exact factors to inches / seconds
    b'INCH': ('L', Fraction(1)), b'.1IN': ('L', Fraction(1, 10)), b'FEET': ('L', Fraction(12)),
    b'M   ': ('L', Fraction(10000, 254)), b'CM  ': ('L', Fraction(100, 254)), b'MM  ': ('L', Fraction(10, 254)),
    b'S   ': ('T', Fraction(1)), b'MS  ': ('T', Fraction(1, 1000)),
}


def unit_factor(src, dst):
    a, b = UNIT_FACTORS[src], UNIT_FACTORS[dst]
    assert a[0] == b[0]
    return a[1] / b[1]


_MN = b'ABCDEFGHIJKLMNOPQRSTUVWXYZ0123456789'


def rand_mnem(rng, n=4, used=None):
    for _ in range(1000):
        k = rng.randrange(1, n + 1)
        m = bytes(rng.choice(_MN) for _ in range(k)) + b' ' * (n - k)
        if used is None or m not in used:
            if used is not None:
                used.add(m)
            return m
    raise RuntimeError('mnemonic space exhausted')


def random_simple_table(rng, lr_type=34):
    """A small table for the surroundings of a log pass: returns (lr bytes, name)."""
    name = rng.choice([b'CONS', b'TOOL', b'PRES', b'FILM', b'AREA', rand_mnem(rng), rand_mnem(rng)])
    if rng.random() < 0.15:
        # the name is the value of a component block like any other: its size need not be four
        name = rng.choice([b'CONSTANT', b'TOOLSTRG', b'PR', b'X', b'OUTPUTS ', b'CO', b'PARAMETERS'])
    ncol = rng.randrange(1, 4)
    used = set()
    mn = [b'MNEM'] + [rand_mnem(rng, used=used) for _ in range(ncol - 1)]
    rows = []
    rn = set()
    for _ in range(rng.randrange(0, 4)):
        row = [(mn[0], 65, b'    ', rand_mnem(rng, used=rn))]
        for c in range(1, ncol):
            k = rng.random()
            if k < 0.4:
                row.append((mn[c], 65, b'    ', bytes(rng.choice(_MN) for _ in range(rng.randrange(0, 9)))))
            elif k < 0.7:
                row.append((mn[c], 68, rng.choice([b'    ', b'FEET', b'IN  ']), enc68(rng.randrange(-4000, 4000))))
            else:
                row.append((mn[c], 73, b'    ', rc_encode(73, rng.randrange(-2 ** 31, 2 ** 31))))
        rows.append(row)
    return lr_table(lr_type, name, rows), name


def frames_pattern(rng, max_total=70):
    k = rng.random()
    if k < 0.08:
        return [rng.randrange(1, 12)]
    n = rng.randrange(1, 11)
    nrec = rng.randrange(2, 9)
    if k < 0.4:
        pat = [n] * nrec
    elif k < 0.75:
        pat = [n] * (nrec - 1) + [rng.randrange(1, n + 1)]
    elif k < 0.9:
        pat = [rng.randrange(1, 11) for _ in range(nrec)]
    else:
        a, b = rng.randrange(1, 8), rng.randrange(1, 8)
        pat = [a] * rng.randrange(1, 4) + [b] * rng.randrange(1, 4) + [a] * rng.randrange(0, 3)
    while sum(pat) > max_total and len(pat) > 1:
        pat.pop()
    return pat


PROFILE_KEYS = {
    'neg70_p': 'probability that a log pass holds negative code 70 words (default 0.12, from when they raised - F18/F20, repaired)',
    'long_p': 'probability of a long log pass: 1..2 single-valued channels, hundreds of frames per record or a hundred records',
    'misc_types': 'logical record types for the records without internal format around / between the other records',
    'misc_between_p': 'probability, per gap between data records, of such a record there',
    'eof_marker_p': 'probability of a logical EOF record (type 137, header only: a 2 byte logical record) after a file trailer',
    'sequential_p': 'probability of a second data format specification + data records of the same data type in one logical file',
    'tiny_cap_p': 'probability of a physical record payload capacity of 1..3 bytes',
    'dipmeter_p': 'probability, per channel after the first, of a dipmeter channel (code 130 or 234)',
}


def long_frames_pattern(rng, max_total=2000):
    k = rng.random()
    if k < 0.4:          # many frames per record (beyond one byte), equal records
        n = rng.choice([255, 256, 257, rng.randrange(100, 700)])
        pat = [n] * rng.randrange(2, 5)
    elif k < 0.7:        # ... with a short or a longer last record
        n = rng.randrange(100, 500)
        pat = [n] * rng.randrange(1, 4) + [rng.choice([1, n // 2, n + 7])]
    else:                # many records of few frames
        n = rng.randrange(1, 4)
        pat = [n] * rng.randrange(40, 160)
        if rng.random() < 0.5:
            pat[rng.randrange(len(pat))] += 1
    while sum(pat) > max_total and len(pat) > 1:
        pat.pop()
    return pat


INT_UNIT_PAIRS = [(b'FEET', b'INCH'), (b'INCH', b'.1IN'), (b'FEET', b'.1IN'), (b'S   ', b'MS  '), (b'M   ', b'CM  '),
                  (b'M   ', b'MM  '), (b'CM  ', b'MM  ')]     # (spacing units, X units) with an integer factor


def _x_values_ok(rc, x0, sp, n, gaps=None):
    try:
        for k in range(n + 1):
            rc_encode(rc, x0 + k * sp)
            if rc == 70 and x0 + k * sp < 0:
                return False          # negative code 70 words are kept out of the X axis (finding F18)
        return True
    except ValueError:
        return False


def random_logpass_spec(rng, max_channels=8, profile=None):
    """Choose a data format specification and the X axis of a log pass (no bytes yet)."""
    lp = LogPassModel()
    long_pass = bool(profile) and rng.random() < profile.get('long_p', 0.0)
    lp.indirect = rng.random() < 0.6
    lp.updown = rng.choice([1, 1, 255, 255, 0])
    lp.data_type = 1 if rng.random() < 0.1 else 0
    # negative code 70 words only in a minority of log passes by default (they raised: finding F18/F20, repaired since)
    lp.neg70 = rng.random() < (profile.get('neg70_p', 0.12) if profile else 0.12)
    nch = rng.choice([n for n in (1, 1, 2, 3, 3, 4, 5, 6, 8) if n <= max_channels])
    if long_pass:
        nch = min(nch, 2)
    used = set()
    chans = []
    for c in range(nch):
        rc = rng.choice(FRAME_RCS)
        if rng.random() < 0.5 or long_pass:
            sa, bu = 1, 1
        else:
            sa, bu = rng.randrange(1, 5), rng.randrange(1, 4)
        chans.append(Channel(rand_mnem(rng, used=used), rng.choice([b'    ', b'FEET', b'GAPI', b'OHMM', b'MV  ']), rc, sa, bu))
        if profile and c > 0 and not long_pass and rng.random() < profile.get('dipmeter_p', 0.0):
            chans[-1] = Channel(chans[-1].mnem, chans[-1].units, rng.choice([130, 234]), 1, 1)
    lp.frames_per_record = frames_pattern(rng) if rng.random() > 0.03 else []
    lp.long_pass = long_pass
    if long_pass:
        lp.frames_per_record = long_frames_pattern(rng)
    lp.total = sum(lp.frames_per_record)
    lp.x_even = True
    sign = -1 if lp.updown == 1 else 1
    # declared spacing d (in spacing units), factor to the X units, start; every X value must be exact in the X code
    xrc = rng.choice([68, 68, 68, 73, 73, 79, 70, 50, 49])
    factor = Fraction(1)
    if lp.indirect:
        if rng.random() < 0.3:
            lp.spacing_units, lp.x_units = rng.choice(INT_UNIT_PAIRS)
            factor = unit_factor(lp.spacing_units, lp.x_units)
            assert factor.denominator == 1
        else:
            lp.x_units = lp.spacing_units = rng.choice(sorted(UNIT_FACTORS))
    else:
        lp.x_units = lp.spacing_units = rng.choice([b'FEET', b'INCH', b'.1IN', b'M   ', b'S   '])
    if xrc in (73, 79):
        d = Fraction(rng.choice([1, 2, 5, 6, 60, 100]))
        x0 = Fraction(rng.randrange(-3000, 20000))
    elif xrc == 49:
        d = Fraction(rng.choice([1, 2]))
        x0 = Fraction(rng.randrange(200, 800))
    elif xrc == 50:
        d = Fraction(rng.choice([1, 2, 4, 6]))
        x0 = Fraction(rng.randrange(-2000, 9000))
    else:
        d = Fraction(rng.choice([1, 2, 6, 60, 120, Fraction(1, 2), Fraction(1, 4), Fraction(5, 2), Fraction(1, 16)]))
        x0 = Fraction(rng.randrange(-3000, 30000)) + rng.choice([0, 0, Fraction(1, 2), Fraction(3, 4)])
    sp = sign * d * factor
    span = lp.total + 40      # room for record gaps
    if len(lp.frames_per_record) >= 2 and rng.random() < 0.12:
        # a log that reaches X = 0 exactly at the head of a data record (an up log run to surface; a time log started before zero):
        # mostly the last record
        kz = len(lp.frames_per_record) - 1 if rng.random() < 0.7 else rng.randrange(1, len(lp.frames_per_record))
        x0z = -sp * sum(lp.frames_per_record[:kz])
        if _x_values_ok(xrc, x0z, sp, span) and _x_values_ok(xrc, x0z, -sp, 0):
            x0 = x0z
    if not _x_values_ok(xrc, x0, sp, span) or not _x_values_ok(xrc, x0, -sp, 0):
        xrc = 68
        if not _x_values_ok(xrc, x0, sp, span):
            d, x0 = Fraction(1), Fraction(1000)
            sp = sign * d * factor
    lp.x_rc = xrc
    lp.x0 = x0
    lp.spacing = sp                    # signed, in X units
    lp.spacing_declared = d            # positive, in spacing units
    # recorded X of each record: consistent with the spacing, or (implied X only) with gaps between records
    lp.record_gaps = [0] * len(lp.frames_per_record)
    if lp.indirect and rng.random() < 0.15:
        lp.record_gaps = [0] + [rng.choice([0, 1, 2, 3, 7]) for _ in lp.frames_per_record[1:]]
        if sum(lp.record_gaps) > 38:
            lp.record_gaps = [0] * len(lp.frames_per_record)
    if not lp.indirect:
        # the X channel is channel 0
        if rng.random() < 0.75:
            chans[0] = Channel(chans[0].mnem, lp.x_units, xrc, 1, 1)
        else:
            lp.x_even = False          # X channel holds random words like any other channel
            chans[0].units = lp.x_units
    lp.channels = chans
    lp.col_start = []
    n = 0
    for ch in chans:
        lp.col_start.append(n)
        n += ch.nvalues
    lp.ncols = n
    lp.frame_size = sum(ch.size for ch in chans)
    lp.absent = rng.choice([Fraction(-99925, 100), Fraction(-999), Fraction(0), Fraction(-9999)])
    return lp


def build_logpass_records(rng, lp):
    """Produce the DFSR bytes and the data record bytes of lp; fills lp.matrix, lp.x, lp.x_records."""
    ebs = []
    opt = lambda p: rng.random() < p
    if lp.data_type or opt(0.5):
        ebs.append((1, 66, bytes([lp.data_type])))
    if opt(0.4):
        ebs.append((2, 66, b'\x00'))
    if opt(0.4):
        ebs.append((3, 79, rc_encode(79, min(lp.frame_size, 32767))))
    ebs.append((4, 66, bytes([lp.updown])))      # the default of an absent block is 'up'; always explicit
    if opt(0.4):
        ebs.append((5, 66, bytes([rng.choice([1, 255, 0])])))
    if opt(0.2):
        ebs.append((6, 68, enc68(rng.randrange(0, 500))))
        ebs.append((7, 65, b'.1IN'))
    if lp.indirect or opt(0.5):
        ebs.append((8, 68, enc68(lp.spacing_declared)))
        ebs.append((9, 65, lp.spacing_units))
    if opt(0.3):
        ebs.append((11, 66, bytes([min(255, max(lp.frames_per_record or [1]))])))
    lp.absent_bytes = enc68(lp.absent, exact=False)
    if opt(0.7):
        ebs.append((12, 68, lp.absent_bytes))
        lp.absent_declared = rc_float(68, lp.absent_bytes)
    else:
        lp.absent_declared = None
    if lp.indirect:
        ebs.append((13, 66, b'\x01'))
        ebs.append((14, 65, lp.x_units))
        ebs.append((15, 66, bytes([lp.x_rc])))
    elif opt(0.3):
        ebs.append((13, 66, b'\x00'))
        if opt(0.5):
            # writers that emit every entry block: depth units and a depth representation code that mean nothing when the depth is
            # recorded in every frame (mode 0) - here a code other than that of the X channel
            ebs.append((14, 65, lp.channels[0].units if lp.channels else b'FEET'))
            ebs.append((15, 66, bytes([rng.choice([c for c in (73, 68, 79, 66) if not lp.channels or c != lp.channels[0].rc])])))
    if opt(0.3):
        ebs.append((16, 66, b'\x00'))
    if opt(0.5):
        rng.shuffle(ebs)
    lp.entry_blocks = ebs
    dsbs = [dsb(ch.mnem, ch.units, ch.size, ch.dsb_samples, ch.rc, api=rng.randrange(0, 99999999), file_no=rng.randrange(0, 100))
            for ch in lp.channels]
    dfsr = lr_dfsr(ebs, dsbs)
    # frames
    lp.matrix = []
    lp.x = []
    lp.x_records = []
    data = []
    f = 0
    gap = 0
    xenc = lambda v: rc_encode(lp.x_rc, v)
    for n in lp.frames_per_record:
        frames = []
        for k in range(n):
            row = []
            fb = bytearray()
            for ci, ch in enumerate(lp.channels):
                for j in range(ch.nvalues):
                    if ci == 0 and j == 0 and not lp.indirect and lp.x_even:
                        w = xenc(lp.x0 + (f + k) * lp.spacing)
                    else:
                        w = random_word(rng, ch.word_rc, neg70=lp.neg70 and (ci > 0 or lp.indirect))
                    fb += w
                    row.append(rc_float(ch.word_rc, w))
            frames.append(bytes(fb))
            lp.matrix.append(row)
        if lp.indirect:
            gap += lp.record_gaps[len(lp.x_records)]
            xr = lp.x0 + (f + gap) * lp.spacing
            ix = xenc(xr)
            lp.x_records.append(xr)
            for k in range(n):
                lp.x.append(xr + k * lp.spacing)
        else:
            ix = b''
            lp.x_records.append(Fraction(lp.matrix[f][0]))
            for k in range(n):
                lp.x.append(Fraction(lp.matrix[f + k][0]))
        data.append(lr_data(lp.data_type, ix, frames))
        f += n
    lp.evenly_spaced = (lp.indirect and not any(lp.record_gaps)) or (not lp.indirect and lp.x_even)
    return dfsr, data


def _misc_record(rng, profile):
    """A logical record without interpreted internal format (operator input, comment, picture, table dump ...)."""
    ty = rng.choice(profile['misc_types'])
    k = rng.random()
    payload = (b'' if k < 0.15 else bytes(rng.randrange(256) for _ in range(rng.randrange(1, 40))) if k < 0.5
               else rng.choice([b'CONS <A&B> "x" \'y\' 1<2 & 3>2 END', b'<!-- dump --> &amp; ]]>', b'a<b', b'R&D ']) * rng.randrange(1, 4) if k < 0.7
               else b'comment ' * rng.randrange(1, 9))
    return ('misc', ty, None, lr_misc(ty, payload), None, None, None)


def random_file(rng, allow_be=True, two_files_p=0.2, layout=None, concurrent_p=0.0, profile=None):
    """A LIS file with 1..2 logical files, each holding one log pass (two with concurrent_p / profile['sequential_p']).
    Returns (bytes, FileModel)."""
    fm = FileModel()
    lrs = []       # (kind, lr_type, name, bytes, logpass index, first frame, nframes)
    fm.logpasses = []
    reel = rng.random() < 0.4
    tape = rng.random() < 0.5
    if reel:
        lrs.append(('reel-head', 132, None, lr_reel_tape(132, name=rand_mnem(rng, 8)), None, None, None))
    if tape:
        lrs.append(('tape-head', 130, None, lr_reel_tape(130, name=rand_mnem(rng, 8)), None, None, None))
    nfiles = 2 if rng.random() < two_files_p else 1
    for fi in range(nfiles):
        fname = b'GENLIS.%03d' % (fi + 1)
        lrs.append(('file-head', 128, None, lr_file_head_tail(128, file_name=fname), None, None, None))
        for _ in range(rng.choice([0, 0, 1, 1, 2, 3])):
            ty = rng.choice([34, 34, 34, 32, 39])
            b, name = random_simple_table(rng, ty)
            lrs.append(('table', ty, name, b, None, None, None))
        if rng.random() < 0.15:
            if profile and profile.get('misc_types'):
                lrs.append(_misc_record(rng, profile))
            else:
                lrs.append(('misc', 232, None, lr_misc(232, b'comment ' * rng.randrange(1, 9)), None, None, None))
        lp = random_logpass_spec(rng, profile=profile)
        lpi = len(fm.logpasses)
        fm.logpasses.append(lp)
        dfsr, data = build_logpass_records(rng, lp)
        lrs.append(('dfsr', 64, None, dfsr, lpi, None, None))
        # a second, concurrent log pass in the same logical file: one format specification for normal (type 0) data and one
        # for alternate (type 1) data, both ahead of the interleaved data records (LIS-79 data record types 0 and 1)
        lp2 = None
        if concurrent_p and rng.random() < concurrent_p:
            for _ in range(20):
                cand = random_logpass_spec(rng, profile=profile)
                if cand.frames_per_record:
                    break
            cand.data_type = 1 - lp.data_type
            lp2, lp2i = cand, len(fm.logpasses)
            fm.logpasses.append(lp2)
            dfsr2, data2 = build_logpass_records(rng, lp2)
            lrs.append(('dfsr', 64, None, dfsr2, lp2i, None, None))
            lp.concurrent = lp2.concurrent = True
        f = 0
        inter = rng.random() < 0.12
        pending2 = list(zip(lp2.frames_per_record, data2)) if lp2 is not None else []
        f2 = 0
        for k, (n, b) in enumerate(zip(lp.frames_per_record, data)):
            while pending2 and rng.random() < 0.5:
                n2, b2 = pending2.pop(0)
                lrs.append(('data', lp2.data_type, None, b2, lp2i, f2, n2))
                f2 += n2
            lrs.append(('data', lp.data_type, None, b, lpi, f, n))
            f += n
            if inter and k + 1 < len(data) and rng.random() < 0.4:
                tb, name = random_simple_table(rng, 34)
                lrs.append(('table', 34, name, tb, None, None, None))
            if profile and profile.get('misc_types') and k + 1 < len(data) and len(data) <= 12 and rng.random() < profile.get('misc_between_p', 0.0):
                lrs.append(_misc_record(rng, profile))
        for n2, b2 in pending2:
            lrs.append(('data', lp2.data_type, None, b2, lp2i, f2, n2))
            f2 += n2
        if profile and lp2 is None and rng.random() < profile.get('sequential_p', 0.0):
            # a second data format specification of the same data type in the same logical file: the data records that follow
            # it belong to it (a repeat section recorded with another channel set)
            lp3 = random_logpass_spec(rng, profile=profile)
            lp3.data_type = lp.data_type
            lp3i = len(fm.logpasses)
            fm.logpasses.append(lp3)
            dfsr3, data3 = build_logpass_records(rng, lp3)
            if rng.random() < 0.5:
                tb, name = random_simple_table(rng, 34)
                lrs.append(('table', 34, name, tb, None, None, None))
            lrs.append(('dfsr', 64, None, dfsr3, lp3i, None, None))
            f3 = 0
            for n3, b3 in zip(lp3.frames_per_record, data3):
                lrs.append(('data', lp3.data_type, None, b3, lp3i, f3, n3))
                f3 += n3
            lp.sequential = lp3.sequential = True
        lrs.append(('file-tail', 129, None, lr_file_head_tail(129, file_name=fname), None, None, None))
        if profile and rng.random() < profile.get('eof_marker_p', 0.0):
            lrs.append(('misc', 137, None, lr_misc(137, b''), None, None, None))
    if tape:
        lrs.append(('tape-tail', 131, None, lr_reel_tape(131), None, None, None))
    if reel:
        lrs.append(('reel-tail', 133, None, lr_reel_tape(133), None, None, None))
    if layout is None:
        layout = random_layout(rng, allow_be=allow_be, tiny_p=profile.get('tiny_cap_p', 0.0) if profile else 0.0)
    data, extents, prs, layout = frame_safe([r[3] for r in lrs], layout)
    fm.layout = layout
    fm.data = data
    fm.records = []
    fm.index = []
    for lp in fm.logpasses:
        lp.extents = []
    for (kind, ty, name, b, lpi, f0, n), (s, e) in zip(lrs, extents):
        fm.records.append({'kind': kind, 'type': ty, 'name': name, 'start': s, 'end': e, 'len': len(b), 'logpass': lpi})
        if kind == 'data':
            fm.logpasses[lpi].extents.append((s, e, f0, n))
        else:
            fm.index.append((s, ty, name, kind))
            if kind == 'dfsr':
                fm.logpasses[lpi].dfsr_pos = s
    fm.prs = prs
    return data, fm
