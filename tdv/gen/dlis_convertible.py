"""RP66V1 log-pass files that the LAS converter is entitled to expect: FILE-HEADER, a fully populated defining ORIGIN
(CREATION-TIME with a valid calendar date, the well attributes present), optional PARAMETER set, then the CHANNEL / FRAME sets
and frame data of tdv.gen.logpass.  Used by C11 (conversion), C12 (batch) and the RP66V1 provider of C20.

    lrs, model = convertible_file(rng, max_frames=40, ...)      # model: logpass.FileModel, plus .origin (dict) per logical file
"""
import calendar
import struct

from . import eflr as E
from . import logpass
from .dlis import LR


def _ascii_cell(text):
    return E.Cell('attrib', value_bytes=E.enc_ascii(text), value=[E.cb(text)])


def _word(rng, lo=1, hi=12):
    return bytes(rng.choice(b'ABCDEFGHIJKLMNOPQRSTUVWXYZabcdefghijklmnopqrstuvwxyz0123456789') for _ in range(rng.randrange(lo, hi)))


def origin_table(rng):
    """A well-populated ORIGIN set with one object.  Returns (Table, facts)."""
    y, mo = rng.randrange(1950, 2100), rng.randrange(1, 13)
    d = rng.randrange(1, calendar.monthrange(y, mo)[1] + 1)
    h, mi, s, ms = rng.randrange(24), rng.randrange(60), rng.randrange(60), rng.randrange(1000)
    tz = rng.randrange(3)
    dt_bytes = bytes([y - 1900, (tz << 4) | mo, d, h, mi, s]) + struct.pack('>H', ms)
    facts = {'COMPANY': _word(rng) + b' ' + _word(rng), 'WELL-NAME': _word(rng), 'FIELD-NAME': _word(rng), 'PRODUCER-NAME': _word(rng),
             'FILE-ID': _word(rng), 'CREATION-TIME': (y, mo, d, h, mi, s, ms)}
    labels = [(b'FILE-ID', E.ASCII), (b'FILE-SET-NAME', E.IDENT), (b'FILE-SET-NUMBER', E.UVARI), (b'FILE-NUMBER', E.UVARI),
              (b'FILE-TYPE', E.IDENT), (b'PRODUCT', E.ASCII), (b'VERSION', E.ASCII), (b'CREATION-TIME', E.DTIME),
              (b'WELL-NAME', E.ASCII), (b'FIELD-NAME', E.ASCII), (b'PRODUCER-CODE', E.UNORM), (b'PRODUCER-NAME', E.ASCII),
              (b'COMPANY', E.ASCII)]
    template = [E.TAttr(lab, False, None, rc) for lab, rc in labels]
    cells = []
    for lab, rc in labels:
        key = lab.decode()
        if lab == b'CREATION-TIME':
            cells.append(E.Cell('attrib', value_bytes=dt_bytes, value=[['dtime', y, tz, mo, d, h, mi, s, ms]]))
        elif rc == E.ASCII:
            cells.append(_ascii_cell(facts.get(key, _word(rng))))
        elif rc == E.IDENT:
            w = _word(rng)
            cells.append(E.Cell('attrib', value_bytes=E.enc_ident(w), value=[E.cb(w)]))
        elif rc == E.UVARI:
            n = rng.randrange(1, 300)
            cells.append(E.Cell('attrib', value_bytes=E.enc_uvari(n), value=[n]))
        elif rc == E.UNORM:
            n = rng.randrange(0, 65536)
            cells.append(E.Cell('attrib', value_bytes=struct.pack('>H', n), value=[n]))
    name = (rng.randrange(0, 100), 0, b'DLIS_DEFINING_ORIGIN')
    return E.Table(1, b'ORIGIN', None, template, [E.Obj(name, cells)]), facts


def parameter_table(rng):
    """A small PARAMETER set (LONG-NAME, VALUES) as the converter reads it."""
    template = [E.TAttr(b'LONG-NAME', False, None, E.ASCII), E.TAttr(b'VALUES', False, None, E.ASCII)]
    objs = []
    used = set()
    for _ in range(rng.randrange(1, 5)):
        nm = rng.choice([b'LOC ', b'COUN', b'STAT', b'LATI', b'LONG', _word(rng, 2, 5)])
        if rng.random() < 0.25:
            # a file made from a LAS file: parameters named like the LAS well section lines, describing the whole log
            nm = rng.choice([b'STRT', b'STOP', b'STEP', b'NULL', b'WELL', b'COMP', b'UWI ', b'DATE'])
        if nm in used:
            continue
        used.add(nm)
        val = _word(rng) if nm.strip() not in (b'STRT', b'STOP', b'STEP', b'NULL') else rng.choice([b'0.0', b'1000.0', b'0.5', b'-999.25', b'12345.6'])
        objs.append(E.Obj((1, 0, nm), [_ascii_cell(_word(rng) + b' ' + _word(rng)), _ascii_cell(val)]))
    return E.Table(5, b'PARAMETER', None, template, objs)


def convertible_file(rng, max_frames=40, max_logical_files=2, max_types=2, max_channels=5, with_parameters=True, min_frames=2, name_pool=None):
    """-> (lrs, model).  Same structure as logpass.random_logpass_file (interleaved frame types, empty data records, random CHANNEL order)
    but without encrypted records and foreign sets, and with a populated ORIGIN in every logical file."""
    logpass.NAME_POOL = list(name_pool) if name_pool else None
    try:
        lrs, model = logpass.random_logpass_file(rng, max_frames=max_frames, max_logical_files=max_logical_files, max_types=max_types,
                                                 max_channels=max_channels, encrypted=False, other_tables=False)
    finally:
        logpass.NAME_POOL = None
    for lf in model.logical_files:
        idx, _old = lf.tables[1]
        assert lrs[idx].eflr and lrs[idx].lr_type == 1
        t, facts = origin_table(rng)
        lrs[idx] = LR(True, 1, t.encode(), False)
        lf.tables[1] = (idx, t)
        lf.origin = facts
    if with_parameters and rng.random() < 0.5:
        # a PARAMETER set directly after the ORIGIN of the first logical file
        lf = model.logical_files[0]
        idx = lf.tables[1][0] + 1
        pt = parameter_table(rng)
        lrs.insert(idx, LR(True, 5, pt.encode(), False))
        for lf2 in model.logical_files:
            lf2.tables = [(i + 1 if i >= idx else i, t) for i, t in lf2.tables]
            if lf2.first_lr is not None and lf2.first_lr >= idx:
                lf2.first_lr += 1
            for ft in lf2.frame_types:
                for fr in ft.frames:
                    if fr.lr_index >= idx:
                        fr.lr_index += 1
        lf.tables.append((idx, pt))
    return lrs, model
