"""Provider of valid lis files (TEMPORARY: example files only, until the generator lands)."""
from . import example_files


def lis(rng, convertible=False):
    return example_files.example(rng, 'lis')


lis_tif = lis
