"""Providers of valid LIS files (plain and TIF-marked) from the independent generator tdv.gen.lis, plus example files."""
from . import example_files, lis as glis
from .providers import Valid


def _make(rng, tif, convertible=False, scale=1):
    if rng.random() < 0.08 and not scale > 1:
        v = example_files.example(rng, 'lis')
        if tif is None:
            return v
    for _ in range(50):
        lay = glis.random_layout(rng, allow_be=False)
        lay = glis.Layout(lay.pr_len, lay.rec_num, lay.file_num, lay.checksum, tif)
        # only with TIF markers: without them a reader cannot tell padding from the next record (the repository calls it prohibited)
        padded = not convertible and tif is not None and rng.random() < 0.2
        if padded:
            lay.pad_modulo = rng.choice([2, 4])      # physical records padded with nulls to an even / 4 byte file position
        data, fm = glis.random_file(rng, allow_be=False, two_files_p=0.2 if scale == 1 else 0.9, layout=lay,
                                    concurrent_p=0.0 if convertible else 0.15,   # normal + alternate data in one logical file
                                    # every record type the format lists that has no internal format of its own, around and between the others
                                    profile=None if convertible else {'misc_types': [42, 47, 65, 85, 86, 95, 96, 97, 100, 101, 102, 224, 225, 227, 232, 234],
                                                                      'misc_between_p': 0.1, 'eof_marker_p': 0.05})
        # the property excludes TIF-marked files whose first physical record is exactly 276 bytes (they share the BIT signature)
        if tif and fm.prs and fm.prs[0]['end'] - fm.prs[0]['start'] - 12 == 276:
            continue
        if convertible and not any(lp.total > 0 for lp in fm.logpasses):
            continue
        break
    bounds = sorted({r['start'] for r in fm.records} | {r['end'] for r in fm.records})
    expect = {None: 'LIS', 'le': 'LISt', 'be': 'LIStr'}[fm.layout.tif]
    v = Valid(data, expect, dict(fm.layout.describe(), records=len(fm.records), logpasses=[lp.total for lp in fm.logpasses]),
              nontrivial=fm.layout.pr_len < 4000 or tif is not None,
              classes=['tif' if tif else 'plain', 'small-pr' if fm.layout.pr_len < 400 else 'large-pr'] + (['padded-to-%d' % lay.pad_modulo] if padded else []),
              boundaries=bounds, regen=lambda rng2: _make(rng2, tif, convertible, scale=10))
    v.expect_las = None
    v.model = fm
    return v


def lis(rng, convertible=False):
    return _make(rng, None, convertible)


def lis_tif(rng, convertible=False):
    return _make(rng, 'le', convertible)
