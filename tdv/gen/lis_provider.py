"""Providers of valid LIS files (plain and TIF-marked) from the independent generator tdv.gen.lis, plus example files."""
from . import example_files, lis as glis
from .providers import Valid


def _make(rng, tif, convertible=False, scale=1):
    if rng.random() < 0.08 and not scale > 1:
        v = example_files.example(rng, 'lis')
        if tif is None:
            return v
    for _ in range(50):
        lay = glis.random_layout(rng, allow_be=False)
        lay = glis.Layout(lay.pr_len, lay.rec_num, lay.file_num, lay.checksum, tif)
        # only with TIF markers: without them a reader cannot tell padding from the next record (the repository calls it prohibited)
        padded = not convertible and tif is not None and rng.random() < 0.2
        if padded:
            lay.pad_modulo = rng.choice([2, 4])      # physical records padded with nulls to an even / 4 byte file position
        data, fm = glis.random_file(rng, allow_be=False, two_files_p=0.2 if scale == 1 else 0.9, layout=lay,
                                    concurrent_p=0.0 if convertible else 0.15,   # normal + alternate data in one logical file
                                    # every record type the format lists that has no internal format of its own, around and between the others
                                    profile=None if convertible else {'misc_types': [42, 47, 65, 85, 86, 95, 96, 97, 100, 101, 102, 224, 225, 227, 232, 234],
                                                                      'misc_between_p': 0.1, 'eof_marker_p': 0.05})
        # the property excludes TIF-marked files whose first physical record is exactly 276 bytes (they share the BIT signature)
        if tif and fm.prs and fm.prs[0]['end'] - fm.prs[0]['start'] - 12 == 276:
            continue
        if convertible and not any(lp.total > 0 for lp in fm.logpasses):
            continue
        break
    bounds = sorted({r['start'] for r in fm.records} | {r['end'] for r in fm.records})
    expect = {None: 'LIS', 'le': 'LISt', 'be': 'LIStr'}[fm.layout.tif]
    v = Valid(data, expect, dict(fm.layout.describe(), records=len(fm.records), logpasses=[lp.total for lp in fm.logpasses]),
              nontrivial=fm.layout.pr_len < 4000 or tif is not None,
              classes=['tif' if tif else 'plain', 'small-pr' if fm.layout.pr_len < 400 else 'large-pr'] + (['padded-to-%d' % lay.pad_modulo] if padded else []),
              boundaries=bounds, regen=lambda rng2: _make(rng2, tif, convertible, scale=10))
    v.expect_las = None
    v.model = fm
    recs = [dict(r) for r in fm.records]

    def corruptor(rng2, data=data, recs=recs):
        """Damage inside a logical record that is not the first (what the type check looks at stays as it was), mostly in
        its payload rather than in a physical record header: the file is still taken for a LIS file and read as far as the damaged
        record, whose *content* no longer makes sense (a table whose component mnemonic is not MNEM, a format specification with another
        representation code or size, a data record of another length).  Whatever error that is, it is this file's alone."""
        late = [r for r in recs[1:] if r['end'] - r['start'] > 12]
        if not late:
            return 'lis-truncated-in-last-record', data[:max(0, len(data) - 3)]
        b = bytearray(data)
        k = rng2.random()
        tables = [r for r in late if data.find(b'MNEM', r['start'], r['end']) >= 0]
        if k < 0.4 and tables:
            # the converter reads CONS tables (well site data): prefer one when there is one
            cons = [r for r in tables if r.get('name') in (b'CONS', 'CONS')]
            r = rng2.choice(cons if cons and rng2.random() < 0.8 else tables)
            i = data.find(b'MNEM', r['start'], r['end'])
            b[i:i + 4] = rng2.choice([b'LNEM', b'MNEN', b'    ', b'mnem', b'MNE\x00'])
            return 'lis-table-component-name', bytes(b)
        dfsrs = [r for r in late if r.get('kind') == 'dfsr' and r['end'] - r['start'] >= 48]
        if k < 0.6 and dfsrs:
            # a byte that is not ASCII in the name or the units of the last channel of a format specification (the last 40 bytes
            # of the record are its datum specification block when no physical record trailer follows; otherwise this lands nearby)
            r = rng2.choice(dfsrs)
            i = r['end'] - 40 + rng2.choice([0, 1, 2, 3, 18, 19, 20, 21])
            b[i] = rng2.choice([0x80, 0xb0, 0xe9, 0xff])
            return 'lis-dfsr-channel-text-not-ascii', bytes(b)
        r = rng2.choice(late)
        # skip the physical record header (4 bytes) and the logical record header (2 bytes) of the record's first physical record
        lo, hi = r['start'] + 6, r['end']
        if k < 0.8:
            for _ in range(rng2.randrange(1, 4)):
                b[rng2.randrange(lo, hi)] = rng2.getrandbits(8)
            return 'lis-late-record-bytes:%s' % r.get('kind'), bytes(b)
        i = rng2.randrange(lo, hi)
        b[i] = rng2.choice([0, 0xff, 0x80, b[i] ^ 0x40])
        return 'lis-late-record-byte:%s' % r.get('kind'), bytes(b)
    v.corruptor = corruptor
    return v


def lis(rng, convertible=False):
    return _make(rng, None, convertible)


def lis_tif(rng, convertible=False):
    return _make(rng, 'le', convertible)
