"""Provider of valid bit files (TEMPORARY: example files only, until the generator lands)."""
from . import example_files


def bit(rng, convertible=False):
    return example_files.example(rng, 'bit')
