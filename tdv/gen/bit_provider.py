"""Provider of valid Western Atlas BIT files from the independent generator tdv.gen.bit (plus the example file)."""
from . import bit as gbit, example_files
from .providers import Valid


def _make(rng, convertible=False, scale=1):
    if scale == 1 and rng.random() < 0.05:
        return example_files.example(rng, 'bit')
    for _ in range(50):
        if scale > 1:
            data, model = gbit.random_file(rng, passes=rng.choice([2, 3, 4]), max_block=64, max_blocks=8)
        else:
            data, model = gbit.random_file(rng, max_block=rng.choice([4, 16, 64]), max_blocks=rng.choice([2, 4, 8]))
        if not convertible or all(pm.frames >= 2 for pm in model.passes):
            break
    bounds = sorted({m[0] for m in model.markers})
    v = Valid(data, 'BIT', {'passes': [(pm.channels, pm.frames, pm.block_frames[:6]) for pm in model.passes]}, nontrivial=True,
              classes=['%d-pass' % min(len(model.passes), 3), 'max-channels' if any(pm.channels == 20 for pm in model.passes) else 'channels<20'],
              boundaries=bounds, regen=lambda rng2: _make(rng2, convertible, scale=10))
    v.expect_las = len(model.passes)
    v.model = model

    def corruptor(rng2, data=data):
        """Damage that leaves the first block (what the type check looks at) intact: the file is still taken for a BIT file."""
        first = 12 + 276
        if len(data) <= first + 16:
            return 'bit-truncated-in-data', data[:max(0, len(data) - 3)]
        k = rng2.random()
        if k < 0.5:
            return 'bit-truncated-in-data', data[:rng2.randrange(first + 1, len(data) - 1)]
        b = bytearray(data)
        if k < 0.8:
            # a TIF marker after the first block: its 'next' word
            cands = [m for m in bounds if m >= first] or [first]
            m = rng2.choice(cands)
            b[m + 8:m + 12] = rng2.choice([b'\x00\x00\x00\x00', b'\xff\xff\xff\x7f', b'\x01\x00\x00\x00', bytes(rng2.getrandbits(8) for _ in range(4))])
            return 'bit-marker-damaged', bytes(b[:len(data)])
        i = rng2.randrange(first, len(b))
        del b[i:i + rng2.randrange(1, 7)]
        return 'bit-bytes-deleted-in-data', bytes(b)
    v.corruptor = corruptor
    return v


def bit(rng, convertible=False):
    return _make(rng, convertible)
