"""Independent encoder of RP66V1 explicitly formatted logical records (EFLR) from a model.

Written from RP66V1 section 3 (logical record syntax: sets, templates, objects, component descriptors, characteristics)
and Appendix B (representation codes).  Shares no code with TotalDepth.  The model is the oracle's ground truth:

    table = random_table(rng, ...)            -> Table (set, template, objects)
    payload = table.encode()                  -> bytes of the EFLR body; table.object_ends[k] = offset after object k
    table.expected()                          -> canonical, JSON-able description of what a reader must present

Canonical values (what `expected()` holds and what the check converts observed values to):
    float            -> ['f', float.hex()]            int (all integer codes, ORIGIN, STATUS) -> int
    IDENT/ASCII/UNITS-> ['b', hex]                    DTIME -> ['dtime', Y, TZ, M, D, h, m, s, ms]
    OBNAME           -> ['obname', O, C, ['b', hex]]  OBJREF -> ['objref', ['b', hex], obname]
    ATTREF           -> ['attref', ident, obname, ident]
    compound floats (FSING1, FSING2, FDOUB1, FDOUB2, CSINGL, CDOUBL) -> ['tuple', f, f, ...]
"""
import struct
from fractions import Fraction

# ----------------------------------------------------------------------------------------------- component descriptors
ROLE_ABSATR, ROLE_ATTRIB, ROLE_INVATR, ROLE_OBJECT = 0x00, 0x20, 0x40, 0x60
ROLE_RDSET, ROLE_RSET, ROLE_SET = 0xA0, 0xC0, 0xE0
BIT_L, BIT_C, BIT_R, BIT_U, BIT_V = 0x10, 0x08, 0x04, 0x02, 0x01
SET_T, SET_N = 0x10, 0x08
OBJ_N = 0x10
GLOBAL_DEFAULT = {'label': b'', 'count': 1, 'rc': 19, 'units': b''}      # RP66V1 3.2.2.1 figure 3-5; value default: null

# ----------------------------------------------------------------------------------------------- Appendix B encoders
FSHORT, FSINGL, FSING1, FSING2, ISINGL, VSINGL, FDOUBL, FDOUB1, FDOUB2, CSINGL, CDOUBL = range(1, 12)
SSHORT, SNORM, SLONG, USHORT, UNORM, ULONG, UVARI, IDENT, ASCII, DTIME, ORIGIN, OBNAME, OBJREF, ATTREF, STATUS, UNITS = range(12, 28)
NAMES = {1: 'FSHORT', 2: 'FSINGL', 3: 'FSING1', 4: 'FSING2', 5: 'ISINGL', 6: 'VSINGL', 7: 'FDOUBL', 8: 'FDOUB1', 9: 'FDOUB2',
         10: 'CSINGL', 11: 'CDOUBL', 12: 'SSHORT', 13: 'SNORM', 14: 'SLONG', 15: 'USHORT', 16: 'UNORM', 17: 'ULONG', 18: 'UVARI',
         19: 'IDENT', 20: 'ASCII', 21: 'DTIME', 22: 'ORIGIN', 23: 'OBNAME', 24: 'OBJREF', 25: 'ATTREF', 26: 'STATUS', 27: 'UNITS'}
FIXED_SIZE = {1: 2, 2: 4, 3: 8, 4: 12, 5: 4, 6: 4, 7: 8, 8: 16, 9: 24, 10: 8, 11: 16, 12: 1, 13: 2, 14: 4, 15: 1, 16: 2, 17: 4,
              21: 8, 26: 1}
ALL_CODES = tuple(range(1, 28))
# the codes the reader documents as supported (pRepCode.REP_CODES_SUPPORTED is *not* imported; this is the harness's list)
COMMON_CODES = (2, 5, 6, 7, 12, 13, 14, 15, 16, 17, 18, 19, 20, 21, 22, 23, 24, 26, 27)

IDENT_CHARS = bytes(range(0x21, 0x7f))
UNITS_CHARS = b'abcdefghijklmnopqrstuvwxyzABCDEFGHIJKLMNOPQRSTUVWXYZ0123456789 -./()'


def enc_uvari(n):
    """B.18: 1 byte below 2**7, 2 bytes (10 prefix) below 2**14, else 4 bytes (11 prefix) below 2**30."""
    if n < 0 or n >= 1 << 30:
        raise ValueError(n)
    if n < 0x80:
        return bytes([n])
    if n < 0x4000:
        return struct.pack('>H', 0x8000 | n)
    return struct.pack('>I', 0xC0000000 | n)


def enc_ident(b):
    if len(b) > 255:
        raise ValueError('IDENT too long')
    return bytes([len(b)]) + bytes(b)


def enc_ascii(b):
    return enc_uvari(len(b)) + bytes(b)


def enc_obname(o, c, i):
    return enc_uvari(o) + bytes([c]) + enc_ident(i)


def cb(b):
    return ['b', bytes(b).hex()]


def cf(x):
    x = float(x)
    if x == 0:
        x = 0.0          # the sign of a zero is not asserted (IBM/VAX have no signed zero)
    return ['f', x.hex()]


def c_obname(o, c, i):
    return ['obname', o, c, cb(i)]


def rand_uvari(rng):
    k = rng.random()
    if k < 0.55:
        return rng.randrange(0, 128)
    if k < 0.65:
        return rng.choice([0, 1, 127, 128, 129, 255, 256, 16383, 16384, 16385, (1 << 30) - 1])
    if k < 0.85:
        return rng.randrange(128, 1 << 14)
    return rng.randrange(1 << 14, 1 << 30)


def rand_ident(rng, maxlen=24):
    k = rng.random()
    if k < 0.04:
        n = 0
    elif k < 0.9:
        n = rng.randrange(1, maxlen + 1)
    elif k < 0.97:
        n = rng.randrange(1, 256)
    else:
        n = 255
    return bytes(rng.choice(IDENT_CHARS) for _ in range(n))


def rand_obname(rng):
    return (rand_uvari(rng) if rng.random() < 0.3 else rng.randrange(0, 4), rng.choice([0, 0, 1, 2, 255, rng.randrange(256)]),
            rand_ident(rng))


def _ieee32(rng):
    """A random IEEE single as raw bits, never NaN."""
    k = rng.random()
    if k < 0.12:
        bits = rng.choice([0x00000000, 0x80000000, 0x3f800000, 0xbf800000, 0x7f800000, 0xff800000, 0x00000001, 0x007fffff,
                           0x00800000, 0x7f7fffff, 0xc479c000, 0x43190000])
    else:
        bits = rng.getrandbits(32)
        if (bits & 0x7f800000) == 0x7f800000 and (bits & 0x007fffff):
            bits &= 0xff800000  # NaN -> infinity
    by = struct.pack('>I', bits)
    # exact value from the bit fields (not struct.unpack): (-1)^s * 2^(e-127) * 1.m, denormals, infinities
    s, e, m = bits >> 31, (bits >> 23) & 0xff, bits & 0x7fffff
    if e == 0xff:
        v = float('-inf') if s else float('inf')
    else:
        fr = Fraction(m, 1 << 23) * Fraction(2) ** (-126) if e == 0 else (1 + Fraction(m, 1 << 23)) * Fraction(2) ** (e - 127)
        v = float(fr)
        if s:
            v = -v
    return by, v


def _ieee64(rng):
    k = rng.random()
    if k < 0.12:
        bits = rng.choice([0, 1 << 63, 0x3ff0000000000000, 0x7ff0000000000000, 0xfff0000000000000, 1, 0x000fffffffffffff,
                           0x7fefffffffffffff, 0x4063200000000000])
    else:
        bits = rng.getrandbits(64)
        if (bits & 0x7ff0000000000000) == 0x7ff0000000000000 and (bits & 0x000fffffffffffff):
            bits &= 0xfff0000000000000
    by = struct.pack('>Q', bits)
    s, e, m = bits >> 63, (bits >> 52) & 0x7ff, bits & ((1 << 52) - 1)
    if e == 0x7ff:
        v = float('-inf') if s else float('inf')
    else:
        fr = Fraction(m, 1 << 52) * Fraction(2) ** (-1022) if e == 0 else (1 + Fraction(m, 1 << 52)) * Fraction(2) ** (e - 1023)
        v = float(fr)
        if s:
            v = -v
    return by, v


def enc_isingl(s, e, m):
    """B.5 IBM single: sign, 7-bit excess-64 exponent of 16, 24-bit fraction.  -> (bytes, exact Fraction)"""
    by = bytes([(0x80 if s else 0) | (e & 0x7f), (m >> 16) & 0xff, (m >> 8) & 0xff, m & 0xff])
    v = Fraction(m, 1 << 24) * Fraction(16) ** (e - 64)
    return by, (-v if s else v)


def enc_vsingl_zero_mantissa(s, e):
    """B.6 VAX F: byte 1 = low exponent bit + 7 high fraction bits, byte 2 = sign + 7 high exponent bits, bytes 3,4 = the
    low and middle fraction bytes.  Value (-1)^s * 0.1m(binary) * 2^(e-128); with m = 0 that is 2^(e-129).  e = 0, s = 0 is zero.
    Only zero-fraction words are produced here (non-zero fractions are the subject of another property)."""
    by = bytes([(e & 1) << 7, (0x80 if s else 0) | (e >> 1), 0, 0])
    if e == 0:
        if s:
            raise ValueError('reserved operand')
        return by, Fraction(0)
    v = Fraction(1, 2) * Fraction(2) ** (e - 128)
    return by, (-v if s else v)


def gen_value(rng, rc, big=False):
    """One value of representation code rc -> (bytes, canonical expected value)."""
    if rc == FSHORT:
        m, e = rng.randrange(-2048, 2048), rng.randrange(16)
        return struct.pack('>H', ((m & 0xfff) << 4) | e), cf(Fraction(m, 2048) * (1 << e))
    if rc == FSINGL:
        by, v = _ieee32(rng)
        return by, cf(v)
    if rc in (FSING1, FSING2, CSINGL):
        parts = [_ieee32(rng) for _ in range({FSING1: 2, FSING2: 3, CSINGL: 2}[rc])]
        return b''.join(p[0] for p in parts), ['tuple'] + [cf(p[1]) for p in parts]
    if rc == ISINGL:
        k = rng.random()
        if k < 0.1:
            s, e, m = rng.choice([(0, 0, 0), (1, 0, 0), (0, 64, 0), (0, 65, 0x100000), (1, 127, 0xffffff), (0, 0, 1), (0, 66, 0x990000)])
        else:
            s, e, m = rng.randrange(2), rng.randrange(128), rng.getrandbits(24)
        by, v = enc_isingl(s, e, m)
        return by, cf(v)     # exactly representable in a double: 24-bit fraction, |exponent| <= 256 + 24
    if rc == VSINGL:
        e = rng.choice([0, 1, 2, 127, 128, 129, 136, 254, 255, rng.randrange(256), rng.randrange(256)])
        s = rng.randrange(2) if e else 0
        by, v = enc_vsingl_zero_mantissa(s, e)
        return by, cf(v)
    if rc == FDOUBL:
        by, v = _ieee64(rng)
        return by, cf(v)
    if rc in (FDOUB1, FDOUB2, CDOUBL):
        parts = [_ieee64(rng) for _ in range({FDOUB1: 2, FDOUB2: 3, CDOUBL: 2}[rc])]
        return b''.join(p[0] for p in parts), ['tuple'] + [cf(p[1]) for p in parts]
    if rc in (SSHORT, SNORM, SLONG):
        bits = {SSHORT: 8, SNORM: 16, SLONG: 32}[rc]
        lo, hi = -(1 << (bits - 1)), (1 << (bits - 1)) - 1
        v = rng.choice([lo, hi, 0, -1, 1, rng.randrange(lo, hi + 1), rng.randrange(lo, hi + 1), rng.randrange(lo, hi + 1)])
        return (v & ((1 << bits) - 1)).to_bytes(bits // 8, 'big'), v     # two's complement, big-endian (B.12-B.14)
    if rc in (USHORT, UNORM, ULONG):
        bits = {USHORT: 8, UNORM: 16, ULONG: 32}[rc]
        hi = (1 << bits) - 1
        v = rng.choice([0, hi, hi >> 1, (hi >> 1) + 1, rng.randrange(hi + 1), rng.randrange(hi + 1), rng.randrange(hi + 1)])
        return v.to_bytes(bits // 8, 'big'), v
    if rc in (UVARI, ORIGIN):
        v = rand_uvari(rng)
        return enc_uvari(v), v
    if rc == IDENT:
        b = rand_ident(rng)
        return enc_ident(b), cb(b)
    if rc == ASCII:
        k = rng.random()
        n = 0 if k < 0.05 else rng.randrange(1, 40) if k < 0.85 else rng.randrange(100, 400) if (k < 0.97 or not big) else rng.randrange(16384, 17000)
        b = bytes(rng.randrange(0, 128) for _ in range(n))
        return enc_ascii(b), cb(b)
    if rc == DTIME:
        y, tz, mo, d = rng.randrange(1900, 2156), rng.randrange(3), rng.randrange(1, 13), rng.randrange(1, 32)
        h, mi, s, ms = rng.randrange(24), rng.randrange(60), rng.randrange(60), rng.randrange(1000)
        return bytes([y - 1900, (tz << 4) | mo, d, h, mi, s]) + struct.pack('>H', ms), ['dtime', y, tz, mo, d, h, mi, s, ms]
    if rc == OBNAME:
        o, c, i = rand_obname(rng)
        return enc_obname(o, c, i), c_obname(o, c, i)
    if rc == OBJREF:
        t = rand_ident(rng)
        o, c, i = rand_obname(rng)
        return enc_ident(t) + enc_obname(o, c, i), ['objref', cb(t), c_obname(o, c, i)]
    if rc == ATTREF:
        t, lab = rand_ident(rng), rand_ident(rng)
        o, c, i = rand_obname(rng)
        return enc_ident(t) + enc_obname(o, c, i) + enc_ident(lab), ['attref', cb(t), c_obname(o, c, i), cb(lab)]
    if rc == STATUS:
        v = rng.randrange(2)
        return bytes([v]), v
    if rc == UNITS:
        n = rng.choice([0, 1, 1, 2, 3, 4, 6, rng.randrange(0, 30)])
        if big and rng.random() < 0.15:
            n = rng.choice([127, 128, 129, 255, rng.randrange(128, 256)])      # length byte with its top bit set
        b = bytes(rng.choice(UNITS_CHARS) for _ in range(n))
        return enc_ident(b), cb(b)
    raise ValueError('representation code %r' % rc)


def gen_values(rng, rc, count, big=False):
    """count values -> (bytes, [canonical...])"""
    parts = [gen_value(rng, rc, big) for _ in range(count)]
    return b''.join(p[0] for p in parts), [p[1] for p in parts]


# ----------------------------------------------------------------------------------------------- the model
class TAttr:
    """A template attribute.  count/rc/units/value None = characteristic not present in the component."""
    __slots__ = ('label', 'invariant', 'count', 'rc', 'units', 'value_bytes', 'value')

    def __init__(self, label, invariant=False, count=None, rc=None, units=None, value_bytes=None, value=None):
        self.label, self.invariant, self.count, self.rc, self.units = label, invariant, count, rc, units
        self.value_bytes, self.value = value_bytes, value

    def eff(self):
        return {'label': self.label, 'count': GLOBAL_DEFAULT['count'] if self.count is None else self.count,
                'rc': GLOBAL_DEFAULT['rc'] if self.rc is None else self.rc,
                'units': GLOBAL_DEFAULT['units'] if self.units is None else self.units, 'value': self.value}

    def chars(self):
        return ''.join(ch for ch, v in (('C', self.count), ('R', self.rc), ('U', self.units), ('V', self.value)) if v is not None)

    def encode(self):
        d = (ROLE_INVATR if self.invariant else ROLE_ATTRIB) | BIT_L
        body = enc_ident(self.label)
        if self.count is not None:
            d |= BIT_C
            body += enc_uvari(self.count)
        if self.rc is not None:
            d |= BIT_R
            body += bytes([self.rc])
        if self.units is not None:
            d |= BIT_U
            body += enc_ident(self.units)
        if self.value is not None:
            d |= BIT_V
            body += self.value_bytes
        return bytes([d]) + body


class Cell:
    """One object's component for one (non-invariant) template attribute.  kind: 'attrib' | 'absent' | 'omitted'."""
    __slots__ = ('kind', 'count', 'rc', 'units', 'value_bytes', 'value')

    def __init__(self, kind, count=None, rc=None, units=None, value_bytes=None, value=None):
        self.kind, self.count, self.rc, self.units, self.value_bytes, self.value = kind, count, rc, units, value_bytes, value

    def chars(self):
        if self.kind != 'attrib':
            return self.kind
        return 'attrib:' + ''.join(ch for ch, v in (('C', self.count), ('R', self.rc), ('U', self.units), ('V', self.value)) if v is not None)

    def encode(self):
        if self.kind == 'omitted':
            return b''
        if self.kind == 'absent':
            return bytes([ROLE_ABSATR])
        d, body = ROLE_ATTRIB, b''
        if self.count is not None:
            d |= BIT_C
            body += enc_uvari(self.count)
        if self.rc is not None:
            d |= BIT_R
            body += bytes([self.rc])
        if self.units is not None:
            d |= BIT_U
            body += enc_ident(self.units)
        if self.value is not None:
            d |= BIT_V
            body += self.value_bytes
        return bytes([d]) + body


class Obj:
    __slots__ = ('name', 'cells')

    def __init__(self, name, cells):
        self.name, self.cells = name, cells      # cells: one per template attribute; None for an invariant column


class Table:
    def __init__(self, lr_type, set_type, set_name, template, objects):
        self.lr_type, self.set_type, self.set_name, self.template, self.objects = lr_type, set_type, set_name, template, objects
        self.object_ends = []
        self.template_end = 0
        self.set_role = ROLE_SET          # ROLE_RSET / ROLE_RDSET: redundant / replacement set (RP66V1 3.2.2.1), same layout

    # ---- bytes
    def encode(self):
        b = bytearray([self.set_role | SET_T | (SET_N if self.set_name is not None else 0)])
        b += enc_ident(self.set_type)
        if self.set_name is not None:
            b += enc_ident(self.set_name)
        for ta in self.template:
            b += ta.encode()
        self.template_end = len(b)
        self.object_ends = []
        for o in self.objects:
            b += bytes([ROLE_OBJECT | OBJ_N]) + enc_obname(*o.name)
            for ta, cell in zip(self.template, o.cells):
                if ta.invariant:
                    continue                      # an invariant attribute has no component in the objects (3.2.2.1)
                b += cell.encode()
            self.object_ends.append(len(b))
        return bytes(b)

    # ---- oracle
    def expected_cell(self, ta, cell):
        """-> canonical dict, or {'absent': True}"""
        e = ta.eff()
        if ta.invariant or cell.kind == 'omitted':
            return e
        if cell.kind == 'absent':
            return {'absent': True, 'label': ta.label}
        return {'label': ta.label,
                'count': e['count'] if cell.count is None else cell.count,
                'rc': e['rc'] if cell.rc is None else cell.rc,
                'units': e['units'] if cell.units is None else cell.units,
                'value': e['value'] if cell.value is None else cell.value}

    def expected(self):
        return {
            'lr_type': self.lr_type, 'set_type': self.set_type, 'set_name': b'' if self.set_name is None else self.set_name,
            'template': [ta.eff() for ta in self.template],
            'objects': [{'name': o.name, 'cells': [self.expected_cell(ta, c) for ta, c in zip(self.template, o.cells)]}
                        for o in self.objects],
        }

    # ---- description used by classifiers and class counters
    def object_info(self, k):
        """Structure of object k: which template indexes carry a component, where the invariant columns are."""
        o = self.objects[k]
        comp_idx = [i for i, (ta, c) in enumerate(zip(self.template, o.cells)) if not ta.invariant and c.kind != 'omitted']
        return {
            'index': k,
            'components': len(comp_idx),
            'last_component_template_index': comp_idx[-1] if comp_idx else None,
            'invariant_template_indexes': [i for i, ta in enumerate(self.template) if ta.invariant],
            'cells': [None if ta.invariant else c.chars() for ta, c in zip(self.template, o.cells)],
            'absent_with_template_default': [i for i, (ta, c) in enumerate(zip(self.template, o.cells))
                                             if not ta.invariant and c.kind == 'absent' and ta.value is not None],
        }

    def features(self):
        f = set()
        if self.set_name is not None:
            f.add('set-name')
        if not self.objects:
            f.add('no-objects')
        for ta in self.template:
            if ta.invariant:
                f.add('invariant')
            if ta.value is not None:
                f.add('template-default-value')
            if ta.count is not None and ta.count != 1:
                f.add('template-count!=1')
            if ta.count == 0:
                f.add('count-0')
        ninv = sum(1 for ta in self.template if not ta.invariant)
        for o in self.objects:
            kinds = [c.kind for ta, c in zip(self.template, o.cells) if not ta.invariant]
            nom = kinds.count('omitted')
            if 'absent' in kinds:
                f.add('absent')
            if nom:
                f.add('trailing-omission')
            if ninv and nom == ninv:
                f.add('all-omitted')
            for ta, c in zip(self.template, o.cells):
                if ta.invariant or c.kind != 'attrib':
                    continue
                if c.count is not None:
                    f.add('override-count')
                if c.rc is not None:
                    f.add('override-repcode')
                if c.units is not None:
                    f.add('override-units')
                if c.value is None:
                    f.add('value-from-template')
        return f

    def describe(self):
        return {'set_type': self.set_type.decode('latin-1'), 'set_name': None if self.set_name is None else self.set_name.decode('latin-1'),
                'lr_type': self.lr_type,
                'template': [('INVATR' if ta.invariant else 'ATTRIB') + ':L' + ta.chars() for ta in self.template],
                'objects': [[None if ta.invariant else c.chars() for ta, c in zip(self.template, o.cells)] for o in self.objects]}


# ----------------------------------------------------------------------------------------------- random tables
PUBLIC_SET_TYPES = {   # RP66V1 Appendix A figure A-2 (set type -> EFLR type code); CHANNEL/FRAME/FILE-HEADER/ORIGIN handled apart
    b'AXIS': 2, b'PATH': 4, b'CALIBRATION': 5, b'CALIBRATION-COEFFICIENT': 5, b'CALIBRATION-MEASUREMENT': 5, b'COMPUTATION': 5,
    b'EQUIPMENT': 5, b'GROUP': 5, b'PARAMETER': 5, b'PROCESS': 5, b'SPLICE': 5, b'TOOL': 5, b'ZONE': 5, b'COMMENT': 6, b'MESSAGE': 6,
    b'UPDATE': 7, b'NO-FORMAT': 8, b'LONG-NAME': 9, b'ATTRIBUTE': 10, b'CODE': 10, b'EFLR': 10, b'IFLR': 10, b'OBJECT-TYPE': 10,
    b'REPRESENTATION-CODE': 10, b'SPECIFICATION': 10, b'UNIT-SYMBOL': 10, b'BASE-DICTIONARY': 11, b'IDENTIFIER': 11, b'LEXICON': 11,
    b'OPTION': 11, b'WELL-REFERENCE': 1,
}
RESERVED_SET_TYPES = (b'FILE-HEADER', b'CHANNEL', b'FRAME', b'ORIGIN')
LABEL_WORDS = [b'LONG-NAME', b'VALUES', b'DIMENSION', b'AXIS', b'ZONES', b'STATUS', b'DESCRIPTION', b'TYPE', b'SERIAL-NUMBER', b'LOCATION',
               b'HEIGHT', b'LENGTH', b'MINIMUM-DIAMETER', b'VOLUME', b'WEIGHT', b'HOLE-SIZE', b'PRESSURE', b'TEMPERATURE', b'TRADEMARK-NAME',
               b'DOMAIN', b'MAXIMUM', b'MINIMUM', b'COORDINATES', b'SPACING', b'TEXT', b'TIME', b'BOREHOLE-DEPTH', b'OBJECT-LIST']


def random_set_type(rng):
    if rng.random() < 0.04:
        return b'ORIGIN', 1         # further ORIGIN sets are legal (5.2: one or more) and stay in the same logical file
    if rng.random() < 0.6:
        st = rng.choice(sorted(PUBLIC_SET_TYPES))
        return st, PUBLIC_SET_TYPES[st]
    while True:
        st = rand_ident(rng, 16)
        if st and st not in RESERVED_SET_TYPES:
            return st, rng.choice([128, 129, 200, 255, rng.randrange(128, 256), rng.randrange(12, 128)])


COUNT0_WITH_VALUE_P = 0.0      # share of count-0 attributes that keep the value characteristic (zero elements, zero bytes); set by C03


def random_count(rng, big=False):
    k = rng.random()
    if k < 0.5:
        return 1
    if k < 0.58:
        return 0
    if k < 0.93:
        return rng.randrange(2, 6)
    if k < 0.985 or not big:
        return rng.randrange(6, 40)
    return rng.choice([127, 128, 129, 300])


def random_template_attr(rng, label, codes, invariant=False, subset=None, big=False):
    """subset: string over 'CRUV' forcing exactly these characteristics (None = random)."""
    if subset is None:
        subset = ''.join(ch for ch in 'CRUV' if rng.random() < (0.7 if ch == 'R' else 0.45))
        if invariant and rng.random() < 0.8 and 'V' not in subset:
            subset += 'V'       # an invariant attribute normally carries the value shared by all objects
    count = random_count(rng, big) if 'C' in subset else None
    rc = rng.choice(codes) if 'R' in subset else None
    units = gen_value(rng, UNITS, big)[0][1:] if 'U' in subset else None
    vb = vv = None
    if 'V' in subset:
        ecount = 1 if count is None else count
        if ecount == 0 and not (COUNT0_WITH_VALUE_P and rng.random() < COUNT0_WITH_VALUE_P):
            count = ecount = rng.randrange(1, 4)      # a count of zero normally carries no value (3.2.2.1)
        # else: the value characteristic is present and holds zero elements, i.e. zero bytes
        vb, vv = gen_values(rng, 19 if rc is None else rc, ecount, big)
    return TAttr(label, invariant, count, rc, units, vb, vv)


def random_cell(rng, ta, codes, subset=None, big=False):
    """An ATTRIB component of an object for template attribute ta, overriding the characteristics in subset.
    Well-formedness kept: a count or representation code is overridden only together with a value when the template holds a
    default value (otherwise the default would be re-interpreted under a different count/code); count 0 carries no value."""
    e = ta.eff()
    if subset is None:
        subset = ''.join(ch for ch, p in (('C', 0.25), ('R', 0.2), ('U', 0.25), ('V', 0.8)) if rng.random() < p)
    if ('C' in subset or 'R' in subset) and 'V' not in subset and ta.value is not None:
        subset += 'V'
    count = random_count(rng, big) if 'C' in subset else None
    rc = rng.choice(codes) if 'R' in subset else None
    units = gen_value(rng, UNITS, big)[0][1:] if 'U' in subset else None
    vb = vv = None
    if 'V' in subset:
        ecount = e['count'] if count is None else count
        if ecount == 0 and not (COUNT0_WITH_VALUE_P and rng.random() < COUNT0_WITH_VALUE_P):
            count = ecount = rng.randrange(1, 4)          # a count of zero normally carries no value
        vb, vv = gen_values(rng, e['rc'] if rc is None else rc, ecount, big)
    return Cell('attrib', count, rc, units, vb, vv)


def unique_labels(rng, n):
    out = []
    while len(out) < n:
        lab = rng.choice(LABEL_WORDS) if rng.random() < 0.7 else rand_ident(rng, 12)
        if rng.random() < 0.2:
            lab = (lab + b'-' + str(rng.randrange(100)).encode())[:255]
        if lab and lab not in out:
            out.append(lab)
    return out


def unique_names(rng, n):
    out = []
    while len(out) < n:
        nm = rand_obname(rng)
        if out and rng.random() < 0.15:
            o, c, i = rng.choice(out)
            nm = (o, (c + 1 + rng.randrange(3)) % 256, i) if rng.random() < 0.5 else ((o + 1) % (1 << 30), c, i)
        if nm not in out:
            out.append(nm)
    return out


def random_table(rng, set_type=None, lr_type=None, codes=COMMON_CODES, max_attrs=8, max_objects=12, allow_invariant=True,
                 allow_all_omitted=True, allow_absent=True, big=False, labels=None, label_codes=None, n_attrs=None, n_objects=None):
    """A random set.  labels/label_codes: fixed label list with the representation code each must use (ORIGIN etc.).
    n_attrs / n_objects: exact number of template attributes / objects instead of a random number up to max_attrs / max_objects."""
    if set_type is None:
        set_type, lr_type = random_set_type(rng)
    set_name = None if rng.random() < 0.4 else rand_ident(rng, 10)
    nattr = rng.randrange(1, max_attrs + 1) if n_attrs is None else n_attrs
    if labels is None:
        labs = unique_labels(rng, nattr)
    else:
        labs = rng.sample(labels, min(nattr, len(labels)))
    template = []
    for lab in labs:
        inv = allow_invariant and rng.random() < 0.12
        cs = codes if label_codes is None else (label_codes[lab],)
        template.append(random_template_attr(rng, lab, cs, inv, big=big))
    nobj = rng.choice([0, 1, 1, 2, 3, rng.randrange(0, max_objects + 1)]) if n_objects is None else n_objects
    objects = []
    non_inv = [i for i, ta in enumerate(template) if not ta.invariant]
    for nm in unique_names(rng, nobj):
        # trailing omission depth
        k = rng.random()
        if k < 0.55 or not non_inv:
            omit = 0
        elif k < 0.93 or not allow_all_omitted:
            omit = rng.randrange(0, len(non_inv)) if len(non_inv) > 1 else 0
        else:
            omit = len(non_inv)
        if not allow_all_omitted and non_inv and omit >= len(non_inv):
            omit = len(non_inv) - 1
        keep = non_inv[:len(non_inv) - omit]
        cells = []
        for i, ta in enumerate(template):
            if ta.invariant:
                cells.append(None)
            elif i not in keep:
                cells.append(Cell('omitted'))
            elif allow_absent and rng.random() < 0.15:
                cells.append(Cell('absent'))
            else:
                cs = codes if label_codes is None else (label_codes[ta.label],)
                cells.append(random_cell(rng, ta, cs, big=big))
        objects.append(Obj(nm, cells))
    return Table(lr_type, set_type, set_name, template, objects)


# ---- the two mandatory sets of a logical file
ORIGIN_LABELS = {b'FILE-ID': ASCII, b'FILE-SET-NAME': IDENT, b'FILE-SET-NUMBER': UVARI, b'FILE-NUMBER': UVARI, b'FILE-TYPE': IDENT,
                 b'PRODUCT': ASCII, b'VERSION': ASCII, b'PROGRAMS': ASCII, b'CREATION-TIME': DTIME, b'ORDER-NUMBER': ASCII,
                 b'DESCENT-NUMBER': ASCII, b'RUN-NUMBER': ASCII, b'WELL-ID': ASCII, b'WELL-NAME': ASCII, b'FIELD-NAME': ASCII,
                 b'PRODUCER-CODE': UNORM, b'PRODUCER-NAME': ASCII, b'COMPANY': ASCII, b'NAME-SPACE-NAME': IDENT,
                 b'NAME-SPACE-VERSION': UVARI}


def file_header_table(rng, seq):
    """RP66V1 5.1: SEQUENCE-NUMBER (ASCII, 10 characters, right justified) and ID (ASCII, 65 characters)."""
    sn = str(seq).rjust(10).encode()
    ident = bytes(rng.choice(b'ABCDEFGHIJKLMNOPQRSTUVWXYZ 0123456789-_') for _ in range(rng.randrange(1, 40))).ljust(65)
    template = [TAttr(b'SEQUENCE-NUMBER', False, None, ASCII), TAttr(b'ID', False, None, ASCII)]
    cells = [Cell('attrib', value_bytes=enc_ascii(sn), value=[cb(sn)]), Cell('attrib', value_bytes=enc_ascii(ident), value=[cb(ident)])]
    name = (rng.randrange(0, 200), 0, str(rng.randrange(1000)).encode())
    return Table(0, b'FILE-HEADER', None if rng.random() < 0.6 else rand_ident(rng, 8), template, [Obj(name, cells)])


def origin_table(rng, **kw):
    t = random_table(rng, set_type=rng.choice([b'ORIGIN', b'ORIGIN', b'ORIGIN', b'WELL-REFERENCE']), lr_type=1,
                     labels=sorted(ORIGIN_LABELS), label_codes=ORIGIN_LABELS, max_objects=3, **kw)
    return t


def random_encrypted_payload(rng, vr_cap_hint=None):
    """Random body of an encrypted record: even length >= 12 (the physical writer adds no padding to encrypted segments)."""
    n = rng.choice([12, 14, 16, 20, 32, 64, rng.randrange(12, 200) & ~1, rng.randrange(12, 1200) & ~1])
    return bytes(rng.getrandbits(8) for _ in range(n))
