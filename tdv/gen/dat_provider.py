"""Provider of valid DAT mud-log files from the independent generator tdv.gen.dat (plus the example file)."""
from . import dat as gdat, example_files
from .providers import Valid


def _make(rng, scale=1):
    if scale == 1 and rng.random() < 0.05:
        return example_files.example(rng, 'dat')
    if scale > 1:
        # many declarations: the declaration section alone exceeds several kB (identification must not depend on size)
        text, model = gdat.generate(rng, n_decl=(120, 400), n_rows=(1, 400))
    else:
        text, model = gdat.generate(rng, n_rows=(1, 50))
    data = text.encode('ascii')

    def corruptor(rng2, _m=model):
        c = gdat.corrupt(rng2, _m)
        if c is None:
            return 'dat-none', data
        return 'dat:' + c.kind, c.text.encode('ascii', 'replace')

    return Valid(data, 'DAT', {'declarations': sum(1 for ln in model.lines if ln.kind == 'decl'), 'rows': len(model.rows), 'bytes': len(data)},
                 nontrivial=True, classes=['large-declaration-section' if len(data) > 4096 else 'small'],
                 regen=lambda rng2: _make(rng2, scale=10), corruptor=corruptor)


def dat(rng, convertible=False):
    return _make(rng)
