"""Corruptors: turn valid files into hostile inputs (truncate / flip / splice / field-aware overwrite / foreign)."""
import re
import struct

MAGICS = [
    b'\x04\x00\x00\x00\x00\x00\x00\x00\xff\xff\xff\xff\x00\x00\x00\x00',       # RCD
    b'\x04\x00\x00\x00\x01\x00\x00\x00\x04\x00\x00\x00',                       # STK
    b'\x00\x00\x00\x00\x00\x00\x00\x00\x20\x01\x00\x00',                       # BIT (TIF, next=0x120)
    b'\x00\x00\x00\x00\x00\x00\x00\x00\x00\x00\x01\x20',                       # BIT reversed
    b'\xd0\xcf\x11\xe0\xa1\xb1\x1a\xe1', b'\x01\x19\xf1\xf8\xff\x82\x03\x84',
    b'<?xml ', b'%PDF-', b'%!Ps-', b'PK\x03\x04', b'II*\x00',
    b'\xFF\xD8\xFF\xDB', b'\xFF\xD8\xFF\xE0\x00\x10\x4A\x46\x49\x46\x00\x01', b'\xFF\xD8\xFF\xEE', b'MZ',
    b'~V\n VERS. 1.2: x\n', b'~Version\r\nVERS.   2.0 : CWLS\r\nWRAP. NO:\r\n', b'~V\nVERS. 3.0 :\n', b'#c\n\n~VERSION\n#\n VERS . 2.0 :\n',
    b'   1V1.00RECORD 8192' + b'Default Storage Set'.ljust(60),
    b'\x00\x00\x00\x00\x00\x00\x00\x00\x5c\x00\x00\x00' + b'   1V1.00RECORD 8192' + b'Default Storage Set'.ljust(60),
    b'\x00\x00\x00\x00\x00\x00\x00\x00\x00\x00\x00\x5c' + b'   1V1.00RECORD 8192' + b'Default Storage Set'.ljust(60),
    b'   1V2.00RECORDB1  ' + b'         1' + b'          ' + b'01-JAN-2000' + b'            ' + b'      ' + b'x'.ljust(60),
    b'=LIS VERIFICATION by PETROLOG rev 1.0', b'  =LIS VERIFICATION BY PETROLOG REVISION 2',
    b'UTIM  Unix time  sec\nDATE  Date  ddmmyy\nTIME  Time  hhmmss\nWAC  Wits Activity  unitless\nUTIM DATE TIME WAC\n1165777170 10Dec06 18-59-30 0\n',
    b'\x00\x3e\x80\x00' + b'\x00' * 58,   # LIS physical record header, type 128 logical record
    b'\x00\x00\x00\x00\x00\x00\x00\x00\x4a\x00\x00\x00\x00\x3e\x80\x00' + b'\x00' * 58,
]


def truncate(rng, data, boundaries=None):
    if not data:
        return data
    if boundaries and rng.random() < 0.6:
        b = rng.choice(boundaries) + rng.choice([-2, -1, 0, 0, 1, 2])
        return data[:max(0, min(len(data), b))]
    return data[:rng.randrange(0, len(data))]


def bitflips(rng, data, n=None):
    if not data:
        return data
    b = bytearray(data)
    for _ in range(n or rng.randrange(1, 9)):
        i = rng.randrange(len(b)) if rng.random() < 0.5 else rng.randrange(min(len(b), 128))
        b[i] ^= 1 << rng.randrange(8)
    return bytes(b)


def splice(rng, a, b):
    if not a or not b:
        return a + b
    i = rng.randrange(len(a))
    j = rng.randrange(len(b))
    return a[:i] + b[j:] if rng.random() < 0.5 else a[:i] + b[:j] + a[i:]


def word_overwrite(rng, data):
    """Field-aware-ish for binary formats: overwrite an aligned 1/2/4-byte word, preferring the front of the file."""
    if len(data) < 4:
        return data
    b = bytearray(data)
    for _ in range(rng.randrange(1, 4)):
        width = rng.choice([1, 2, 2, 4])
        hi = len(b) - width
        i = rng.randrange(0, min(hi, 400) + 1) if rng.random() < 0.7 else rng.randrange(0, hi + 1)
        v = rng.choice([0, 1, 2, 0x7f, 0x80, 0xff, 0x100, 0x7fff, 0x8000, 0xffff, 0x10000, 0x7fffffff, 0x80000000, 0xffffffff,
                        rng.getrandbits(32)]) & ((1 << (8 * width)) - 1)
        b[i:i + width] = v.to_bytes(width, rng.choice(['big', 'little']))
    return bytes(b)


NUM_RE = re.compile(rb'-?\d+(\.\d+)?')
HOSTILE_NUMBERS = [b'99999999999999999999999', b'-99999999999999999', b'1e400', b'-1e400', b'nan', b'inf', b'-inf', b'0', b'-0',
                   b'1' * 400, b'0.' + b'0' * 400 + b'1', b'1e-400', b'9223372036854775808', b'-9223372036854775809',
                   b'4294967296', b'253402300800', b'-62135596801', b'1e18', b'', b'.', b'-', b'1.2.3', b'0x10', b'1_000']


def number_overwrite(rng, data):
    """Field-aware for text formats: replace one numeric token by a hostile magnitude / spelling."""
    ms = list(NUM_RE.finditer(data[:20000]))
    if not ms:
        return data
    m = rng.choice(ms)
    return data[:m.start()] + rng.choice(HOSTILE_NUMBERS) + data[m.end():]


def line_ops(rng, data):
    lines = data.split(b'\n')
    if len(lines) < 2:
        return data
    op = rng.randrange(5)
    i = rng.randrange(len(lines))
    if op == 0:
        del lines[i]
    elif op == 1:
        lines.insert(i, lines[rng.randrange(len(lines))])
    elif op == 2:
        lines[i] = lines[i][:rng.randrange(len(lines[i]) + 1)]
    elif op == 3:
        j = rng.randrange(len(lines))
        lines[i], lines[j] = lines[j], lines[i]
    else:
        lines[i] = lines[i] + b' ' + bytes(rng.randrange(32, 127) for _ in range(rng.randrange(1, 30)))
    return b'\n'.join(lines)


def segy_like(rng):
    """3200 bytes of EBCDIC card images 'Cnn ...' (SEG-Y textual header), valid or nearly so."""
    cards = []
    bad = rng.randrange(40) if rng.random() < 0.75 else None
    for i in range(40):
        num = '%2d' % (i + 1) if rng.random() < 0.5 else '%02d' % (i + 1)
        head = 'C'
        if i == bad:
            k = rng.randrange(6)
            if k == 0:
                num = rng.choice(['AA', '  ', 'X1', '1X', '--', '+1', '1.', '4 ', '00', '41', '99'])
            elif k == 1:
                head = rng.choice(['c', 'D', ' ', '1'])
            elif k == 2:
                num = '%2d' % (i + 2)
        text = (head + num + ' ' + ''.join(rng.choice('ABCDEFGHIJKLMNOPQRSTUVWXYZ 0123456789.,:-/') for _ in range(76)))[:80]
        cards.append(text)
    data = ''.join(cards).encode('cp037')
    k = rng.random()
    if k < 0.1:
        data = data[:rng.choice([3199, 3198, 80, 3120])]
    elif k < 0.2:
        b = bytearray(data)
        b[rng.randrange(len(b))] = rng.choice([0x00, 0xff, 0x41, 0x0a])
        data = bytes(b)
    return data + bytes(rng.getrandbits(8) for _ in range(rng.choice([0, 0, 400, 3600])))


def near_miss(rng):
    if rng.random() < 0.08:
        return segy_like(rng)
    m = rng.choice(MAGICS)
    op = rng.randrange(7)
    tail = bytes(rng.getrandbits(8) for _ in range(rng.choice([0, 1, 8, 64, 300, 1500])))
    if op == 0:
        return m + tail
    if op == 1:
        return m[:rng.randrange(len(m) + 1)]
    if op == 2:
        b = bytearray(m)
        b[rng.randrange(len(b))] ^= 1 << rng.randrange(8)
        return bytes(b) + tail
    if op == 3:
        return m[:-1] + tail
    if op == 4:
        return m + bytes(rng.randrange(32, 127) for _ in range(rng.choice([0, 10, 200, 300])))
    if op == 5:
        return rng.choice([b' ', b'\n', b'\x00', b'\xef\xbb\xbf']) + m + tail
    return m + b'\x00' * rng.choice([1, 64, 276, 280, 4096])


def random_bytes(rng):
    n = rng.choice([0, 1, 2, 3, 4, 11, 12, 13, 79, 80, 81, 92, 127, 128, 255, 256, 257, 288, rng.randrange(0, 3000)])
    style = rng.randrange(5)
    if style == 0:
        return bytes(rng.getrandbits(8) for _ in range(n))
    if style == 1:
        return bytes(rng.randrange(128) for _ in range(n))
    if style == 2:
        return bytes(rng.choice(b' \t\n\r0123456789.-+eE:~#abcXYZ') for _ in range(n))
    if style == 3:
        return bytes([rng.getrandbits(8)]) * n
    return (bytes(rng.getrandbits(8) for _ in range(rng.randrange(1, 9))) * (n // 2 + 1))[:n]


def dlis_length_fields(data):
    """Offsets of the two-byte length fields of an RP66V1 file: [(offset, 'vr'|'lrs', length)], [] if not RP66V1-shaped."""
    if len(data) < 84 or data[4:7] != b'V1.':
        return []
    out, pos = [], 80
    while pos + 4 <= len(data) and len(out) < 4000:
        vlen = int.from_bytes(data[pos:pos + 2], 'big')
        if data[pos + 2:pos + 4] != b'\xff\x01' or vlen < 4:
            break
        out.append((pos, 'vr', vlen))
        q, end = pos + 4, min(pos + vlen, len(data))
        while q + 4 <= end:
            slen = int.from_bytes(data[q:q + 2], 'big')
            out.append((q, 'lrs', slen))
            if slen < 4:
                break
            q += slen
        pos += vlen
    return out


def dlis_length_overwrite(rng, data):
    """Field-aware for RP66V1: one visible-record or segment length replaced by a boundary value."""
    fields = dlis_length_fields(data)
    if not fields:
        return word_overwrite(rng, data)
    off, kind, ln = rng.choice(fields if rng.random() < 0.5 else ([f for f in fields if f[1] == 'lrs'] or fields))
    v = rng.choice([0, 0, 1, 2, 3, 4, 5, 15, 16, ln - 2, ln - 1, ln + 1, ln + 2, ln * 2, 0x7fff, 0x8000, 0xfffe, 0xffff]) & 0xffff
    return data[:off] + v.to_bytes(2, 'big') + data[off + 2:]


def mutate(rng, data, other=None, boundaries=None, texty=None):
    """One hostile variant of a valid file."""
    if texty is None:
        texty = data[:200].isascii() and b'\x00' not in data[:200]
    ops = ['truncate', 'truncate', 'bitflips', 'splice', 'word', 'insert', 'delete', 'header']
    if texty:
        ops += ['number', 'number', 'number', 'line', 'line']
    if data[4:7] == b'V1.' and len(data) > 84:
        ops += ['dlis-length', 'dlis-length']
    op = rng.choice(ops)
    if op == 'dlis-length':
        return op, dlis_length_overwrite(rng, data)
    if op == 'truncate':
        return op, truncate(rng, data, boundaries)
    if op == 'bitflips':
        return op, bitflips(rng, data)
    if op == 'splice':
        return op, splice(rng, data, other if other is not None else random_bytes(rng))
    if op == 'word':
        return op, word_overwrite(rng, data)
    if op == 'number':
        return op, number_overwrite(rng, data)
    if op == 'line':
        return op, line_ops(rng, data)
    if op == 'insert':
        i = rng.randrange(len(data) + 1)
        return op, data[:i] + random_bytes(rng)[:rng.randrange(1, 40)] + data[i:]
    if op == 'delete':
        if len(data) < 2:
            return op, data
        i = rng.randrange(len(data))
        return op, data[:i] + data[i + rng.randrange(1, 40):]
    # header damage
    n = min(len(data), rng.choice([4, 12, 20, 80, 92, 128]))
    return op, bytes(rng.getrandbits(8) for _ in range(n)) + data[n:]
