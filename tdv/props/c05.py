"""C05 LIS physical records: what is written is what is read, at any position.

Writer side: File.FileWrite output is compared byte for byte (checksum value bytes excluded) with the independent
LIS-79 encoder tdv.gen.lis_phys, reported write positions with the model's logical record starts, and
DeTif.strip_tif(marked) with the unmarked file.
Reader side: histories of readLrBytes / skipLrBytes / skipToNextLr / seekLr / tellLr / tell on File.FileRead are
checked by a cursor automaton (record k, offset o) that knows only the logical records and the encoder's model.
"""
import collections
import hashlib
import io
import itertools
import os
import random
import struct

ID = 'C05'
TITLE = 'LIS physical records: what is written is what is read, at any position'
NATIVE = 'plain'
NEEDS = ('icontract',)
RULE = ('A file = 2..25 logical records (4 % of the files: a single record, half of those so short that the file is shorter than a TIF marker) '
        'with unique random content, length 2..3.5 x payload capacity, in 12 % of the small-capacity files one record over 5..60 physical records (sizes drawn around '
        'multiples of the capacity; records capped at 6000 bytes except a "large" class with physical record lengths up to 65535 and '
        'records up to 3.5 x 65531 bytes), a maximum physical record length from the minimum legal value to 65535 (biased small, '
        'with the first-marker special lengths 244 and 65524 and lengths that make the first TIF next pointer a multiple of 256), the 8 trailer combinations in rotation, TIF off/on in rotation; one '
        '"record-number-wrap" file per run has > 65536 physical records. Each file is written by File.FileWrite with a fresh '
        'PhysRecTail (half of the files leave writer arguments that equal the documented defaults out; three files per shard are written to '
        'and read back from a path the writer / reader open themselves) and read as written, and additionally with the TIF markers rewritten byte-reversed. A case is one '
        '(file, read target, operation history): a whole-record history, a seek-in-permuted-order history with random splits, '
        'and a random history of 30..300 operations (readLrBytes, skipLrBytes, unpack(struct) where the record holds the bytes, skipToNextLr, '
        'seekLr, rewind, seekCurrentLrStart, tellLr, tell; a third with the tolerant keepGoing reader) whose sizes are drawn around the distances to the next physical-record and '
        'logical-record boundary. Distinct by (file digest, target, operation list). Non-trivial = a record spanning >= 2 physical '
        'records is read or skipped by a sized operation that crosses a physical record boundary, or a seek goes to a record other '
        'than the next one. Exhaustive sub-space: every 2-record file with record lengths L1,L2 in 2..Lmax, payload capacity 1..Lmax, '
        'the 8 trailer combinations (quick tier: 3 of them), TIF none/normal/reversed, and for each record every composition of its length into sized operations, '
        'each a read or a skip, the last one exact / one byte too large / size -1 (6*3^(L-1) plans per record, all pairs).')
ASSUMPTIONS = [
    'The two checksum value bytes are compared with the harness\'s own reading of the LIS-79 checksum (words added with end-around carry, sum rotated left after each word; the standard\'s text is not available offline, the repository agrees with this reading on every record written); half of the files with a checksum trailer have up to three records aimed at the checksums 0xFFFF, 0x0000, 0x8000, 0x0001, 0x7FFF',
    'End-of-record signals (None / 0 for a non-zero request) are accepted whenever the current record is exhausted and are not counted, except that more than 2 in a row before a non-final record yields data again is reported as no progress',
    'tellLr() directly after seekLr() and before any read is not asserted (the reader has not looked at the file yet; it reports 0)',
    'seekCurrentLrStart() must land on the start of a record that tellLr() may report at that moment (directly after seekLr(): the record sought or record 0) and the cursor follows it',
    'tell() is asserted to be one of the structural positions that correspond to the logical cursor: inside a payload exactly, at a physical record boundary any of end-of-payload / end-of-record / start-of-next-payload',
    'Byte-reversed TIF files whose first next pointer is 0x100 or 0x10000 are not read: the two byte orders of the first marker are indistinguishable (the property text names 0x100; 0x10000 is its mirror image)',
    'strip_tif is applied to normal (little-endian) TIF files only; DeTif documents that reversed markers are not handled',
    'Pad-modulo reading options stay at their defaults; file numbers are 0..65535; logical records are non-empty',
    'Reading past the last record may return end-of-record signals and then raises ExceptionFileRead; both are accepted',
]
MECHANISMS = [
    ('TotalDepth.LIS.core.PhysRec', 'PhysRecRead._readHead'),
    ('TotalDepth.LIS.core.PhysRec', 'PhysRecRead._readTail'),
    ('TotalDepth.LIS.core.PhysRec', 'PhysRecRead.__readOrSkip'),
    ('TotalDepth.LIS.core.PhysRec', 'PhysRecRead.skipToNextLr'),
    ('TotalDepth.LIS.core.PhysRec', 'PhysRecRead.seekLr'),
    ('TotalDepth.LIS.core.PhysRec', 'PhysRecWrite.writeLr'),
    ('TotalDepth.LIS.core.TifMarker', 'TifMarkerWrite.write'),
    ('TotalDepth.LIS.core.TifMarker', 'TifMarkerRead._read'),
    ('TotalDepth.DeTif', 'strip_tif'),
]
REQUIRED_MONITORS = ['writer_vs_encoder', 'write_positions', 'checksum_values', 'strip_tif', 'read_history', 'read_data', 'tellLr', 'tell',
                     'exhaustive_splits', 'scan_generators',
                     'contract:PhysRecRead._readHead', 'contract:PhysRecRead._readTail', 'contract:PhysRecRead.__readOrSkip',
                     'contract:PhysRecRead.readLrBytes', 'contract:PhysRecRead.skipLrBytes', 'contract:PhysRecRead.skipToNextLr',
                     'contract:PhysRecRead.seekLr', 'contract:TifMarkerRead._read', 'contract:TifMarkerRead.reset']
MIN_NONTRIVIAL = {'quick': 200, 'thorough': 5000}
TIMEOUT_S = {'quick': 300, 'thorough': 5400}
NSHARDS = 16
FILES = {'quick': 60, 'thorough': 2500}            # random files per shard
EXH_LMAX = {'quick': 3, 'thorough': 4}
MAX_LR = 6000
MAX_SIGNALS = 2
MAX_VIOLATIONS = 20

LEVEL_TEXT = ('Differential runtime monitoring: the real writer against an independent LIS-79 encoder, the real reader under random and '
              'small-scope exhaustive operation histories against a cursor automaton over the logical records, strip_tif against the '
              'unmarked file, icontract postconditions on the live PhysRecRead/TifMarkerRead cursor state. Exhaustive only for the stated tiny scope.')
LEVEL_NOTE = ('Trusted: the independent encoder tdv.gen.lis_phys (written from the format), the automaton, icontract. Checksum values are not '
              'verified. Not a proof beyond the enumerated scope.')
TECHNIQUE = 'runtime monitoring: independent encoder differential + operation-history cursor automaton + icontract state postconditions'


def plan(tier, seed):
    # quick: the exhaustive sub-space uses three of the eight trailer combinations (none, all, one chosen by the seed)
    combos = list(range(8)) if tier == 'thorough' else sorted({0, 7, 1 + seed % 6})
    return [{'part': i, 'parts': NSHARDS, 'files': FILES[tier], 'lmax': EXH_LMAX[tier], 'combos': combos} for i in range(NSHARDS)]


# ------------------------------------------------------------------------------------------------ cursor automaton
class Cursor:
    """Logical cursor (k, o): the next logical byte is records[k][o].  o == len(records[k]) means record k is exhausted,
    which differs from (k+1, 0) only in that end-of-record signals are still acceptable.  k == N: positioned past the data."""

    def __init__(self, model, eof_exc):
        self.model = model
        self.lrs = [r.data for r in model.records]
        self.starts = model.starts
        self.N = len(self.lrs)
        self.chunks = model.phys
        self.first_chunk = []
        g = 0
        for r in model.records:
            self.first_chunk.append(g)
            g += len(r.phys)
        self.eof_exc = eof_exc
        self.k = 0
        self.o = 0
        self.fresh = 'open'        # 'open' | 'seek' | None : no read/skip since construction / seekLr
        self.signals = 0
        self.floor = 0             # tellLr may not report a record before this one
        self.eof_seen = False
        self.last_signal = False   # the last read/skip returned an end-of-record signal
        self.crossed = False       # a sized op crossed a physical record boundary inside a record
        self.out_of_order = False  # a seek went elsewhere than to the next record
        self.ev = collections.Counter()

    # ---- helpers
    def exhausted(self):
        return self.k < self.N and self.o == len(self.lrs[self.k])

    def at_file_end(self):
        return self.k >= self.N or (self.k == self.N - 1 and self.o == len(self.lrs[self.k]))

    def where(self):
        return {'record': self.k, 'offset': self.o, 'record_length': len(self.lrs[self.k]) if self.k < self.N else None,
                'fresh': self.fresh, 'signals': self.signals, 'tell_floor': self.floor}

    def to_pr_boundary(self):
        """Bytes from the cursor to the next physical record boundary and to the end of the record (of the record that the
        next data byte belongs to)."""
        k, o = self.k, self.o
        if k < self.N and o == len(self.lrs[k]):
            k, o = k + 1, 0
        if k >= self.N:
            return 1, 1
        for c in self.model.records[k].phys:
            if c.lr_offset <= o < c.lr_offset + c.payload_length:
                return c.lr_offset + c.payload_length - o, len(self.lrs[k]) - o
        return 1, 1

    def _chunk_of(self, k, o):
        for i, c in enumerate(self.model.records[k].phys):
            if c.lr_offset <= o < c.lr_offset + c.payload_length:
                return i
        return len(self.model.records[k].phys) - 1

    def physical_allowed(self):
        if self.fresh == 'open':
            return {0}
        if self.fresh == 'seek':
            return {self.starts[self.k]}
        k, o = self.k, self.o
        M = len(self.chunks)
        if k >= self.N:
            b = M
        else:
            rec = self.model.records[k]
            b = self.first_chunk[k] + len(rec.phys)
            for i, c in enumerate(rec.phys):
                if c.lr_offset < o < c.lr_offset + c.payload_length:
                    return {c.payload_position + o - c.lr_offset}
                if o == c.lr_offset:
                    b = self.first_chunk[k] + i
                    break
        s = set()
        if b > 0:
            s.add(self.chunks[b - 1].payload_end)
            s.add(self.chunks[b - 1].end)
        else:
            s.add(0)
        if b < M:
            s.add(self.chunks[b].position)
            s.add(self.chunks[b].payload_position)
        else:
            s.add(self.model.size)
        return s

    def _exception(self, what, exc):
        if isinstance(exc, self.eof_exc) and self.at_file_end():
            self.ev['exception-past-last-record'] += 1
            self.eof_seen = True
            self.fresh = None
            return None
        return ('exception', '%s raised %s: %s' % (what, type(exc).__name__, str(exc)[:200]))

    # ---- operations: each returns None (accepted) or (kind, message)
    def seek(self, j, result):
        if result != self.starts[j]:
            return ('seek-result', 'seekLr(%d) returned %r' % (self.starts[j], result))
        nxt = self.N if self.k >= self.N else (self.k + 1 if self.o > 0 else self.k)
        if j != nxt:
            self.out_of_order = True
        self.k, self.o, self.fresh, self.signals, self.floor, self.eof_seen = j, 0, 'seek', 0, j, False
        return None

    def rw(self, kind, n, result, exc):
        what = '%s(%d)' % ('readLrBytes' if kind == 'read' else 'skipLrBytes', n)
        self.last_signal = False
        if exc is not None:
            return self._exception(what, exc)
        if kind == 'read':
            if result is None:
                signal, cnt = True, 0
            elif isinstance(result, (bytes, bytearray)):
                signal, cnt = False, len(result)
            else:
                return ('type', '%s returned %s' % (what, type(result).__name__))
        else:
            if not isinstance(result, int) or isinstance(result, bool):
                return ('type', '%s returned %s' % (what, type(result).__name__))
            cnt = result
            signal = (cnt == 0 and n != 0)
        if not signal and cnt == 0 and n != 0 and self.at_file_end():
            signal = True                      # an empty read at the very end is as good as an end signal
        if signal:
            self.fresh = None
            self.last_signal = True
            if self.k >= self.N:
                self.ev['signal-past-last-record'] += 1
                return None
            if not self.exhausted():
                return ('early-end-signal', '%s signalled end of record at offset %d of a %d byte record' % (what, self.o, len(self.lrs[self.k])))
            if self.k == self.N - 1:
                self.ev['signal-at-file-end'] += 1
                return None
            self.signals += 1
            self.ev['end-signal'] += 1
            if self.signals > MAX_SIGNALS:
                return ('no-progress', '%d end-of-record signals in a row after record %d' % (self.signals, self.k))
            return None
        if cnt < 0:
            return ('count', '%s returned %d' % (what, cnt))
        if cnt == 0:
            if n != 0:
                return ('short', '%s returned no data at offset %d of record %d' % (what, self.o, self.k))
            self.fresh = None
            self.ev['zero-size-op'] += 1
            return None
        k, o = self.k, self.o
        moved = False
        if k < self.N and o == len(self.lrs[k]):
            k, o, moved = k + 1, 0, True
        if k >= self.N:
            return ('data-past-end', '%s returned %d bytes after the last record' % (what, cnt))
        rem = len(self.lrs[k]) - o
        exp = rem if n < 0 else min(n, rem)
        if cnt != exp:
            if n >= 0 and cnt > n:
                why = 'more-than-asked'
            elif cnt > rem:
                why = 'overrun'
            else:
                why = 'short'
            return (why, '%s at offset %d of record %d (%d bytes) returned %d bytes, expected %d' % (what, o, k, len(self.lrs[k]), cnt, exp))
        if kind == 'read' and bytes(result) != self.lrs[k][o:o + cnt]:
            return ('bytes-differ', '%s at offset %d of record %d returned other bytes than were written' % (what, o, k))
        if moved:
            self.ev['moved-to-next-record-' + ('after-signal' if self.signals else 'directly')] += 1
        if len(self.model.records[k].phys) > 1 and self._chunk_of(k, o) != self._chunk_of(k, o + cnt - 1) and (n >= 0 or o > 0):
            self.crossed = True
            self.ev['sized-op-crossing-pr-boundary'] += 1
        self.k, self.o, self.signals, self.fresh = k, o + cnt, 0, None
        self.floor = max(self.floor, k)
        if self.o == len(self.lrs[k]):
            self.ev['record-completed-by-' + ('read-all' if n < 0 else 'exact-size' if n == exp else 'oversize')] += 1
        return None

    def skip_to_next(self, result, exc):
        if exc is not None:
            return self._exception('skipToNextLr()', exc)
        if not isinstance(result, int) or isinstance(result, bool):
            return ('type', 'skipToNextLr() returned %s' % type(result).__name__)
        k, o, N = self.k, self.o, self.N
        if k >= N:
            if result != 0:
                return ('skip-to-next-count', 'skipToNextLr() past the last record returned %d' % result)
            newk = N
        elif o < len(self.lrs[k]):
            if result != len(self.lrs[k]) - o:
                return ('skip-to-next-count', 'skipToNextLr() at offset %d of record %d (%d bytes) returned %d' % (o, k, len(self.lrs[k]), result))
            newk = k + 1
        elif result == 0:
            newk = k + 1
        elif k + 1 < N and result == len(self.lrs[k + 1]):
            newk = k + 2
            self.ev['skip-to-next-skipped-a-whole-record'] += 1
        else:
            return ('skip-to-next-count', 'skipToNextLr() after record %d was exhausted returned %d' % (k, result))
        self.k, self.o, self.signals, self.fresh = newk, 0, 0, None
        self.floor = min(newk, N - 1)
        return None

    def _lr_allowed(self):
        """Records whose start tellLr() may report for the present cursor (not directly after a seek)."""
        k, o, N = self.k, self.o, self.N
        if k >= N:
            allowed = [N - 1]
        elif o < len(self.lrs[k]):
            allowed = [k]
        else:
            allowed = [k] + ([k + 1] if k + 1 < N else [])
        return [j for j in allowed if j >= self.floor]

    def seek_current(self, result):
        """seekCurrentLrStart() = seekLr(tellLr()): must land on the start of a record that tellLr() may report; the
        cursor follows.  Directly after construction that is record 0; directly after a seekLr() the reader has not looked
        at the file yet (tellLr() is not asserted there, it reports 0), so record 0 and the record sought are accepted."""
        if self.fresh == 'open':
            allowed = [0]
        elif self.fresh == 'seek':
            allowed = sorted({0, self.k})
            self.ev['seekCurrentLrStart-after-seek'] += 1
        else:
            allowed = self._lr_allowed()
        for j in allowed:
            if result == self.starts[j]:
                self.ev['seekCurrentLrStart'] += 1
                return self.seek(j, result)
        return ('seek-current', 'seekCurrentLrStart() returned %r, expected %s' % (result, ' or '.join(str(self.starts[j]) for j in allowed)))

    def tell_lr(self, v):
        if self.fresh == 'seek':
            self.ev['tellLr-after-seek-unasserted'] += 1
            if v == self.starts[self.k]:
                self.ev['tellLr-after-seek-is-record-start'] += 1
            return None
        allowed = self._lr_allowed()
        for j in allowed:
            if v == self.starts[j]:
                self.floor = j
                return None
        return ('tellLr', 'tellLr()=%r, expected %s' % (v, ' or '.join(str(self.starts[j]) for j in allowed)))

    def tell(self, v):
        allowed = self.physical_allowed()
        if v in allowed:
            return None
        return ('tell', 'tell()=%r, cursor (record %d offset %d) allows %s' % (v, self.k, self.o, sorted(allowed)))


# ------------------------------------------------------------------------------------------------ driving the reader
class Ctl:
    """Per shard bookkeeping."""

    def __init__(self, rec):
        self.rec = rec
        self.nviol = collections.Counter()
        self.opseqs = set()
        self.ops_by_kind = collections.Counter()
        self.events = collections.Counter()
        self.histories = 0
        self.operations = 0
        self.stream_reads = 0
        self.stream_bytes = 0
        self.stream_seeks = 0

    def violation(self, monitor, kind, msg, witness, exc=None):
        self.nviol[(monitor, kind)] += 1
        if self.nviol[(monitor, kind)] <= MAX_VIOLATIONS:
            self.rec.violation(monitor, kind, msg, witness, exc=exc)


def _short(r):
    if isinstance(r, (bytes, bytearray)):
        return 'bytes[%d]%s' % (len(r), (':' + bytes(r[:8]).hex()) if r else '')
    if isinstance(r, BaseException):
        return '%s' % type(r).__name__
    return r


def apply_op(fr, cur, op, hist):
    """Execute one operation on the real reader and feed the outcome to the automaton.  Returns (verdict, exception)."""
    kind, arg = op
    res = exc = None
    try:
        if kind == 'read':
            res = fr.readLrBytes(arg)
        elif kind == 'skip':
            res = fr.skipLrBytes(arg)
        elif kind == 'next':
            res = fr.skipToNextLr()
        elif kind == 'seek':
            res = fr.seekLr(cur.starts[arg])
        elif kind == 'rewind':
            res = fr.rewind()
        elif kind == 'seekcur':
            res = fr.seekCurrentLrStart()
        elif kind == 'unpack':
            # FileRead.unpack(struct): a sized read of struct.size bytes; issued only where the record holds that many
            res = fr.unpack(struct.Struct('%ds' % arg))
            if isinstance(res, tuple) and len(res) == 1:
                res = res[0]
        elif kind == 'tellLr':
            res = fr.tellLr()
        elif kind == 'tell':
            res = fr.tell()
        else:
            raise AssertionError(kind)
    except Exception as e:  # noqa - judged by the automaton
        exc = e
    hist.append((kind, arg, _short(exc if exc is not None else res)))
    if kind in ('read', 'skip'):
        v = cur.rw(kind, arg, res, exc)
    elif kind == 'unpack':
        v = ('exception', 'unpack(%d bytes) raised %s: %s' % (arg, type(exc).__name__, str(exc)[:200])) if exc is not None else cur.rw('read', arg, res, None)
    elif kind == 'next':
        v = cur.skip_to_next(res, exc)
    elif exc is not None:
        v = ('exception', '%s raised %s: %s' % (kind, type(exc).__name__, str(exc)[:200]))
    elif kind == 'seek':
        v = cur.seek(arg, res)
    elif kind == 'rewind':
        v = cur.seek(0, res)
    elif kind == 'seekcur':
        v = cur.seek_current(res)
    elif kind == 'tellLr':
        v = cur.tell_lr(res)
    else:
        v = cur.tell(res)
    return v, exc


def witness_of(info, model, data, target, hist, where, extra=None):
    w = {'file': info, 'layout': model.describe(), 'target': target, 'cursor_before_failure': where,
         'history_length': len(hist), 'history_tail': [list(h) for h in hist[-40:]], 'file_bytes': data if len(data) <= 4096 else data[:4096],
         'file_size': len(data)}
    if extra:
        w.update(extra)
    return w


def report(ctl, info, model, data, target, hist, where, v, exc, htype):
    kind, msg = v
    mon = {'tellLr': 'tellLr', 'tell': 'tell'}.get(kind, 'read_history')
    ctl.violation(mon, kind, '%s [%s, %s history, op %d]' % (msg, target, htype, len(hist)),
                  witness_of(info, model, data, target, hist, where, {'history_type': htype, 'kind': kind}), exc=exc)


def sizes_near(rng, cur, cap):
    to_pr, to_lr = cur.to_pr_boundary()
    c = [0, 1, 2, to_pr - 1, to_pr, to_pr + 1, to_lr - 1, to_lr, to_lr + 1, cap - 1, cap, cap + 1, 2 * cap, 3 * cap + 1,
         rng.randrange(1, to_lr + 4), to_pr + cap, to_pr + cap - 1, to_pr + cap + 1]
    n = rng.choice(c)
    return n if n >= 0 else 0


def random_history(rng, nops, cur, cap):
    """Generator of operations, adaptive to the cursor (sizes around boundaries, reseek after the end)."""
    N = cur.N
    for _ in range(nops):
        if cur.eof_seen or cur.k >= N:
            if rng.random() < 0.75:
                yield ('seek', rng.randrange(N))
                continue
        x = rng.random()
        if x < 0.36:
            n = sizes_near(rng, cur, cap)
            if n >= 1 and cur.k < N and n <= len(cur.lrs[cur.k]) - cur.o and rng.random() < 0.2:
                yield ('unpack', n)                 # the record holds n more bytes: unpack() must deliver exactly them
            else:
                yield ('read', n)
        elif x < 0.56:
            yield ('skip', sizes_near(rng, cur, cap))
        elif x < 0.64:
            yield ('read', -1)
        elif x < 0.69:
            yield ('skip', -1)
        elif x < 0.74:
            yield ('next', None)
        elif x < 0.84:
            r = rng.random()
            if r < 0.07:
                yield ('rewind', None)
            elif r < 0.15:
                yield ('seek', 0)
            elif r < 0.3 and cur.k < N:
                yield ('seek', cur.k)
            elif r < 0.45:
                yield ('seekcur', None)
            else:
                yield ('seek', rng.randrange(N))
        elif x < 0.93:
            yield ('tellLr', None)
        else:
            yield ('tell', None)


def whole_history(cur):
    for i in range(cur.N):
        yield ('read', -1)
        yield ('tellLr', None)
        if i % 3 == 0:
            yield ('tell', None)
    yield ('read', -1)
    yield ('read', -1)
    yield ('read', 1)


def permuted_history(rng, cur, cap):
    order = list(range(cur.N))
    rng.shuffle(order)
    for j in order:
        yield ('seek', j)
        if rng.random() < 0.2:
            yield ('tell', None)
        L = len(cur.lrs[j])
        style = rng.random()
        if style < 0.25:
            yield ('read', -1)
        else:
            guard = 0
            while not (cur.k == j and cur.o == L) and cur.k == j and guard < 400:
                guard += 1
                n = max(1, sizes_near(rng, cur, cap))
                yield (('read' if rng.random() < 0.7 else 'skip'), n)
        if rng.random() < 0.5:
            yield ('tellLr', None)


def run_history(ctl, File, TapFile, data, model, info, target, htype, make_ops, keep_going=False, path=None):
    """One history on a fresh FileRead.  make_ops(cur) -> iterator of operations (may look at the cursor).
    keep_going: the reader's tolerant mode (must not change anything on a conformant file).  path: read the file by its
    path (RawStream opens it) instead of from an in-memory stream."""
    tap = TapFile(data)
    try:
        fr = File.FileRead(path if path is not None else tap, 'c05', keepGoing=keep_going)
    except Exception as e:  # noqa
        ctl.violation('read_history', 'open', 'FileRead() raised %s: %s [%s]' % (type(e).__name__, e, target),
                      witness_of(info, model, data, target, [], None, {'kind': 'open'}), exc=e)
        return None
    cur = Cursor(model, File.ExceptionFileRead)
    hist = []
    ok = True
    for op in make_ops(cur):
        before = cur.where()
        v, exc = apply_op(fr, cur, op, hist)
        ctl.ops_by_kind[op[0]] += 1
        if v is not None:
            report(ctl, info, model, data, target, hist, before, v, exc, htype)
            ok = False
            break
    rec = ctl.rec
    rec.mon('read_history')
    nd = sum(1 for h in hist if h[0] in ('read', 'skip', 'next'))
    rec.mon('read_data', nd)
    rec.mon('tellLr', sum(1 for h in hist if h[0] == 'tellLr'))
    rec.mon('tell', sum(1 for h in hist if h[0] == 'tell'))
    ctl.histories += 1
    ctl.operations += len(hist)
    ctl.events.update(cur.ev)
    ctl.stream_reads += tap.n_reads
    ctl.stream_bytes += tap.bytes_read
    ctl.stream_seeks += tap.n_seeks
    ops = [(h[0], h[1]) for h in hist]
    ctl.opseqs.add(hashlib.blake2b(repr(ops).encode(), digest_size=8).digest())
    rev = bool(fr._prh.tif.isReversed) if getattr(fr._prh, 'tif', None) is not None else False
    classes = ['history:' + htype, 'target:' + target]
    if keep_going:
        classes.append('reader-keep-going')
    if path is not None:
        classes.append('reader-opened-by-path')
        try:
            fr._prh.close()
        except Exception:  # noqa
            pass
    if rev:
        classes.append('reader-detected-reversed-tif')
    if cur.crossed:
        classes.append('nontrivial:sized-op-across-pr-boundary')
    if cur.out_of_order:
        classes.append('nontrivial:seek-out-of-order')
    rec.case((info['digest'], target, htype, keep_going, path is not None, ops), cur.crossed or cur.out_of_order, classes=classes,
             sample={'file': info, 'target': target, 'history_type': htype, 'operations': len(hist), 'first_operations': [list(h) for h in hist[:12]]})
    return ok


def scan_generators(ctl, T, data, model, info, target, rng):
    """The scanning generators of the physical record reader (what ScanPhysRec / ScanLogiData and the padding scan use): genLd() gives,
    physical record by physical record in file order, the logical data of each and whether it begins a logical record; genPr() gives
    one step per physical record.  Both rewind first, so they are started after some ordinary reads from any position."""
    rec = ctl.rec
    tap = T['TapFile'](data)
    try:
        prh = T['PhysRec'].PhysRecRead(tap, 'c05', False)
        # ordinary use first: a whole record or two and a sized read, so that the generator has a state to rewind from
        for _ in range(rng.randrange(0, 3)):
            if prh.readLrBytes(rng.choice([-1, 1, 2, 7])) is None:
                break
        expected = [(data[p.payload_position:p.payload_end], p.lr_offset == 0) for p in model.phys]
        got = []
        for ld, is_start in prh.genLd():
            got.append((bytes(ld), bool(is_start)))
            if len(got) > len(expected) + 4:
                break
        rec.mon('scan_generators')
        rec.add('scan_generator_physical_records', len(got))
        if got != expected:
            k = next((i for i, (a, b) in enumerate(zip(got, expected)) if a != b), min(len(got), len(expected)))
            ctl.violation('scan_generators', 'genLd', 'genLd() gives %d pieces for %d physical records; first difference at piece %d: got %r, written %r [%s]' % (
                len(got), len(expected), k, (_short(got[k][0]), got[k][1]) if k < len(got) else None, (_short(expected[k][0]), expected[k][1]) if k < len(expected) else None, target),
                witness_of(info, model, data, target, [], None, {'kind': 'genLd', 'piece': k}))
            return
        # the logical records are the pieces joined from one start mark to the next
        n = 0
        for _ in prh.genPr():
            n += 1
            if n > len(expected) + 4:
                break
        if n != len(expected):
            ctl.violation('scan_generators', 'genPr', 'genPr() steps through %d physical records, the file has %d [%s]' % (n, len(expected), target),
                          witness_of(info, model, data, target, [], None, {'kind': 'genPr', 'steps': n}))
    except Exception as e:  # noqa
        ctl.violation('scan_generators', 'raised', 'scanning generators raised %s: %s [%s]' % (type(e).__name__, e, target),
                      witness_of(info, model, data, target, [], None, {'kind': 'scan-raised'}), exc=e)


def drain_contracts(ctl, T, info, model):
    """Contract breaches recorded while this file was being read (conditions never raise)."""
    for name, msg in T['contracts'].drain():
        ctl.violation('contract:' + name, 'breach', msg, {'contract': name, 'message': msg, 'file': info,
                                                          'layout': model.describe() if model else None, 'kind': 'contract'})


# ------------------------------------------------------------------------------------------------ writer side
def write_real(T, lrs, pr_len, tr, tif, use_defaults=False, path=None):
    """The real writer on a CaptureIO (or on a file it opens itself by path) with a *fresh* PhysRecTail.  Returns
    (bytes, positions).  use_defaults: arguments that equal the documented defaults (no TIF, maximum physical record
    length, no trailer) are left out, so the writer's own default objects are used."""
    cap = T['CaptureIO']()
    kw = {}
    if not (use_defaults and not tif):
        kw['hasTif'] = bool(tif)
    if not (use_defaults and pr_len == 65535):
        kw['thePrLen'] = pr_len
    if not (use_defaults and tr.length == 0):
        kw['thePrt'] = T['PhysRec'].PhysRecTail(tr.record_number, tr.file_number, tr.checksum)
    fw = T['File'].FileWrite(path if path is not None else cap, 'c05', **kw)
    pos = [fw.write(l) for l in lrs]
    fw.close()
    if path is not None:
        with open(path, 'rb') as f:
            return f.read(), pos
    return cap.value(), pos


def first_difference(a, b):
    n = min(len(a), len(b))
    for i in range(n):
        if a[i] != b[i]:
            return i
    return n if len(a) != len(b) else None


def lis79_checksum(b):
    """The LIS-79 physical record checksum (type 01) as this harness reads the standard: the 16 bit big-endian words of the
    record up to the checksum are added with end-around carry, the sum being rotated left one bit after every word."""
    return _checksum_from(0, b)


def _checksum_from(c, b):
    for i in range(0, len(b) - 1, 2):
        c += (b[i] << 8) | b[i + 1]
        c = (c & 0xFFFF) + (c >> 16)
        c = ((c << 1) & 0xFFFF) | (c >> 15)
    return c


def aim_checksums(G, lrs, pr_len, tr, tif, rng):
    """Rewrite the last aligned payload word of up to three physical records so that their checksum is an extreme of the
    16 bit range (0xFFFF: the 'minus zero' of the end-around sum, 0x0000, 0x8000, 0x0001).  Returns the new record list."""
    if not tr.checksum:
        return lrs
    lrs = [bytearray(l) for l in lrs]
    for target in rng.sample([0xFFFF, 0xFFFF, 0x0000, 0x8000, 0x0001, 0x7FFF], 3):
        data, model = G.frame_file([bytes(l) for l in lrs], pr_len, tr, 'le' if tif else None, checksum=lis79_checksum)
        cands = [p for p in model.phys if p.checksum_position is not None and p.trailer_position - p.payload_position >= 2]
        if not cands:
            break
        p = rng.choice(cands)
        n = p.trailer_position - p.payload_position
        k = (n - 2) & ~1                                   # word aligned from the start of the physical record
        head = data[p.header_position:p.payload_position + k]
        tail = data[p.payload_position + k + 2:p.checksum_position]
        if len(head) % 2:
            continue
        state = lis79_checksum(head)
        for w in range(0x10000):
            if _checksum_from(state, bytes([w >> 8, w & 0xFF]) + tail) == target:
                lr = lrs[p.lr_index]
                o = p.lr_offset + k
                lr[o:o + 2] = bytes([w >> 8, w & 0xFF])
                break
    return [bytes(l) for l in lrs]


def check_writer(ctl, T, G, lrs, pr_len, tr, tif, info, use_defaults=False, path=None):
    """Returns (real bytes, model) or None when the writer cannot be compared."""
    rec = ctl.rec
    exp, model = G.frame_file(lrs, pr_len, tr, 'le' if tif else None)
    try:
        got, pos = write_real(T, lrs, pr_len, tr, tif, use_defaults, path)
    except Exception as e:  # noqa
        ctl.violation('writer_vs_encoder', 'writer-exception', 'FileWrite raised %s: %s' % (type(e).__name__, e),
                      {'file': info, 'layout': model.describe(), 'kind': 'writer-exception'}, exc=e)
        return None
    rec.mon('writer_vs_encoder')
    rec.add('bytes_written_compared', len(exp))
    rec.add('physical_records_compared', len(model.phys))
    ok = True
    if G.mask_checksums(got, model) != exp:
        ok = False
        d = first_difference(G.mask_checksums(got, model), exp)
        where = None
        for p in model.phys:
            if p.position <= d < p.end:
                where = {'physical_record': model.phys.index(p), 'pr_position': p.position, 'offset_in_pr': d - p.position,
                         'region': ('tif' if p.tif_position is not None and d < p.header_position else 'length' if d < p.header_position + 2
                                    else 'attributes' if d < p.payload_position else 'payload' if d < p.trailer_position else 'trailer'),
                         'expected_pr': p.as_dict()}
                break
        if where is None:
            where = {'region': 'eof-markers-or-size'}
        lo = max(0, d - 16)
        ctl.violation('writer_vs_encoder', 'bytes-' + where['region'],
                      'FileWrite output differs from the LIS-79 layout at byte %d (%s): %d bytes written, %d expected' % (d, where['region'], len(got), len(exp)),
                      {'file': info, 'layout': model.describe(), 'first_difference': d, 'where': where, 'got_around': got[lo:d + 32],
                       'expected_around': exp[lo:d + 32], 'got_size': len(got), 'expected_size': len(exp), 'kind': 'bytes'})
    rec.mon('write_positions')
    if pos != model.starts:
        ok = False
        bad = [i for i, (a, b) in enumerate(itertools.zip_longest(pos, model.starts)) if a != b][:10]
        ctl.violation('write_positions', 'position', 'FileWrite.write() reported %r for records %r, the records start at %r' % (
            [pos[i] for i in bad], bad, [model.starts[i] for i in bad]),
            {'file': info, 'layout': model.describe(), 'reported': pos[:60], 'expected': model.starts[:60], 'kind': 'position'})
    if model.checksum_ranges and ok:
        # the checksum values, against the harness's own reading of the LIS-79 checksum
        rec.mon('checksum_values', len(model.checksum_ranges))
        for p in model.phys:
            if p.checksum_position is None:
                continue
            want = lis79_checksum(got[p.header_position:p.checksum_position])
            have = int.from_bytes(got[p.checksum_position:p.checksum_position + 2], 'big')
            rec.cls('checksum-value:%s' % ('0xFFFF' if want == 0xFFFF else '0x0000' if want == 0 else 'other'))
            if have != want:
                ok = False
                ctl.violation('checksum_values', 'value', 'physical record %d (at %d, %d bytes): checksum written %#06x, the words of the record sum (end-around carry, rotate) to %#06x' % (
                    model.phys.index(p), p.position, p.length, have, want),
                    {'file': info, 'layout': model.describe(), 'physical_record': model.phys.index(p), 'written': have, 'expected': want,
                     'record_bytes': got[p.header_position:p.checksum_position + 2][:600], 'kind': 'checksum'})
                break
    return (got, model) if ok else None


def check_strip(ctl, T, G, lrs, pr_len, tr, marked, model, info, use_defaults=False):
    rec = ctl.rec
    try:
        unmarked, _ = write_real(T, lrs, pr_len, tr, False, use_defaults)
        out = io.BytesIO()
        T['DeTif'].strip_tif(io.BytesIO(marked), out)
        got = out.getvalue()
    except Exception as e:  # noqa
        ctl.violation('strip_tif', 'exception', 'strip_tif raised %s: %s' % (type(e).__name__, e),
                      {'file': info, 'layout': model.describe(), 'marked': marked, 'kind': 'exception'}, exc=e)
        return
    rec.mon('strip_tif')
    exp_unmarked, m0 = G.frame_file(lrs, pr_len, tr, None)
    if got != unmarked or G.mask_checksums(got, m0) != exp_unmarked:
        d = first_difference(got, unmarked)
        ctl.violation('strip_tif', 'bytes', 'strip_tif(marked) differs from the unmarked file at byte %r: %d bytes, expected %d' % (d, len(got), len(unmarked)),
                      {'file': info, 'layout': model.describe(), 'first_difference': d, 'got_size': len(got), 'expected_size': len(unmarked),
                       'marked': marked, 'stripped': got, 'unmarked': unmarked, 'kind': 'bytes'})


# ------------------------------------------------------------------------------------------------ file generation
def unique_records(rng, lengths):
    seen = set()
    out = []
    for n in lengths:
        for _ in range(50):
            b = rng.randbytes(n)
            if b not in seen:
                break
        seen.add(b)
        out.append(b)
    return out


def gen_file(rng, fi, G):
    combo = fi % 8
    fileno = rng.choice([0, 1, 7, 255, 256, 0x7FFF, 0x8000, 65535, rng.randrange(65536)])
    tr = G.Trailer(bool(combo & 1), fileno if combo & 2 else None, bool(combo & 4))
    tif = bool((fi // 8) % 2)
    lo = G.min_pr_len(tr)
    x = rng.random()
    large = False
    first_full = False
    if x < 0.02:
        large = True
        pr_len = rng.choice([65535, 65535, 65524, rng.randrange(20000, 65536)])
        first_full = pr_len == 65524
        klass = 'large'
    elif x < 0.06:
        pr_len, first_full, klass = 244, True, 'first-pr-244'
    elif x < 0.11:
        # first TIF next pointer 12 + length with a zero low byte / small high byte: the boundary of byte-order detection
        pr_len, first_full, klass = rng.choice([256 * rng.randrange(2, 256) - 12, 256 * rng.randrange(2, 8) - 12, 0x10100 - 12 - 256 * rng.randrange(1, 4)]), True, 'first-next-multiple-of-256'
    elif x < 0.30:
        pr_len, klass = lo + rng.randrange(0, 4), 'minimal'
    elif x < 0.55:
        pr_len, klass = rng.randrange(lo, lo + 40), 'small'
    elif x < 0.75:
        pr_len, klass = rng.randrange(lo + 20, 400), 'medium'
    elif x < 0.9:
        pr_len, klass = rng.choice([512, 1024, 2048, 4096, rng.randrange(400, 8000)]), 'typical'
    else:
        pr_len, klass = rng.choice([65535, 65534, 32768, rng.randrange(8000, 65536)]), 'maximal'
    cap = G.capacity(pr_len, tr)
    nrec = rng.randrange(2, 4) if large else rng.randrange(2, 26)
    # a list of one record is a list too: 4 % of the files hold a single logical record, half of them a tiny one (the whole
    # file is then shorter than one TIF marker, which is how the reader decides that a file has none)
    single = (not large) and rng.random() < 0.04
    tiny = single and rng.random() < 0.5
    if single:
        nrec = 1
    lengths = []
    for i in range(nrec):
        n = rng.choice([2, 3, cap - 1, cap, cap + 1, 2 * cap - 1, 2 * cap, 2 * cap + 1, 3 * cap, int(3.5 * cap),
                        rng.randrange(2, int(3.5 * cap) + 3), rng.randrange(2, int(3.5 * cap) + 3)])
        n = max(2, min(n, int(3.5 * cap)))
        if tiny:
            n = rng.randrange(2, 8)
        elif not large and n > MAX_LR:
            # single physical record territory: vary the length instead of clipping everything to the cap
            n = rng.choice([MAX_LR, rng.randrange(2, 300), rng.randrange(2, MAX_LR + 1)])
        elif i == 0:
            n = max(n, cap + 1)
        lengths.append(n)
    if first_full and not tiny:
        lengths[0] = max(lengths[0], min(cap + rng.randrange(0, 3), int(3.5 * cap)))
    if not large and not tiny and cap <= 100 and rng.random() < 0.12:
        # "several physical records" is not "at most four": one record of this file spans 5..60 of them
        k = rng.randrange(len(lengths))
        lengths[k] = max(2, min(MAX_LR, cap * rng.randrange(5, 61) + rng.choice([-1, 0, 0, 1, cap // 2])))
        klass += '+many-pr-record'
    if single:
        klass += '+single-record'
    lrs = unique_records(rng, lengths)
    return lrs, pr_len, tr, tif, klass


def file_info(lrs, pr_len, tr, tif, klass, part, fi):
    h = hashlib.blake2b(digest_size=8)
    for l in lrs:
        h.update(len(l).to_bytes(4, 'big'))
        h.update(l)
    h.update(repr((pr_len, tr.as_dict(), tif)).encode())
    return {'part': part, 'file_index': fi, 'pr_len': pr_len, 'trailer': tr.as_dict(), 'tif': tif, 'class': klass,
            'lr_lengths': [len(l) for l in lrs][:60], 'records': len(lrs), 'digest': h.hexdigest()}


def read_targets(G, got, model):
    """[(name, bytes, model)] to read: the file as written, and its byte-reversed TIF twin."""
    if model.tif is None:
        return [('no-tif', got, model)], False
    out = [('tif', got, model)]
    ambiguous = G.tif_byte_order_ambiguous(model.tif_markers[0].next)
    if not ambiguous:
        out.append(('tif-reversed', G.rewrite_tif(got, model, 'be'), model))
    return out, ambiguous


def do_file(ctl, T, G, seed, part, fi, tier):
    rng = random.Random('C05:%s:%s:%s' % (seed, part, fi))
    lrs, pr_len, tr, tif, klass = gen_file(rng, fi, G)
    if tr.checksum and rng.random() < 0.5 and sum(len(l) for l in lrs) < 40000:
        # checksums at the ends of their range: 0xFFFF and 0x0000 are the two zeros of the end-around sum
        lrs = aim_checksums(G, lrs, pr_len, tr, tif, rng)
    info = file_info(lrs, pr_len, tr, tif, klass, part, fi)
    rec = ctl.rec
    rec.cls('file-trailer:%s%s%s' % ('R' if tr.record_number else '-', 'F' if tr.file_number is not None else '-', 'C' if tr.checksum else '-'))
    rec.cls('file-tif:%s' % ('on' if tif else 'off'))
    for part_klass in klass.split('+'):
        rec.cls('file-prlen:' + part_klass)
    # writer options left at their defaults where the file's configuration is the default one (no TIF / 65535 / no trailer)
    use_defaults = rng.random() < 0.5
    if use_defaults and (not tif or pr_len == 65535 or tr.length == 0):
        rec.cls('writer-arguments-left-at-defaults')
    # three files per shard are written to and read from a path (the writer / reader open the file themselves)
    path = None
    tmpdir = os.environ.get('VERIF_SHARD_TMP')
    if tmpdir and fi % 20 == 7:
        path = os.path.join(tmpdir, 'c05_%d_%d.lis' % (part, fi))
    r = check_writer(ctl, T, G, lrs, pr_len, tr, tif, info, use_defaults, path)
    if r is None:
        return
    got, model = r
    if path is not None:
        rec.cls('writer-opened-by-path')
    rec.maxi('max_physical_records_in_a_file', len(model.phys))
    rec.maxi('max_physical_records_in_a_logical_record', max(len(x.phys) for x in model.records))
    rec.maxi('max_logical_records_in_a_file', len(lrs))
    rec.extra['min_file_size'] = min(rec.extra.get('min_file_size', len(got)), len(got))
    if tif:
        check_strip(ctl, T, G, lrs, pr_len, tr, got, model, info, use_defaults)
    targets, ambiguous = read_targets(G, got, model)
    if ambiguous:
        rec.cls('reversed-tif-ambiguous-first-marker-not-read')
    cap = model.capacity
    File, TapFile = T['File'], T['TapFile']
    for name, data, m in targets:
        run_history(ctl, File, TapFile, data, m, info, name, 'whole-records', whole_history,
                    path=path if data is got else None)
        hr = random.Random('C05h:%s:%s:%s:%s' % (seed, part, fi, name))
        run_history(ctl, File, TapFile, data, m, info, name, 'seek-permutation', lambda cur: permuted_history(hr, cur, cap))
        nh = 1 if tier == 'quick' else 2
        for h in range(nh):
            nops = hr.randrange(30, 301)
            # a third of the random histories use the reader's tolerant mode: on a conformant file it must change nothing
            kg = hr.random() < 0.33
            run_history(ctl, File, TapFile, data, m, info, name, 'random', lambda cur: random_history(hr, nops, cur, cap), keep_going=kg)
    for name, data, m in targets:
        scan_generators(ctl, T, data, m, info, name, random.Random('C05g:%s:%s:%s:%s' % (seed, part, fi, name)))
    if path is not None:
        try:
            os.remove(path)
        except OSError:
            pass
    drain_contracts(ctl, T, info, model)


def do_wrap_file(ctl, T, G, seed, part, variant):
    """> 65536 physical records: the trailer record number wraps."""
    rng = random.Random('C05wrap:%s:%s' % (seed, part))
    tr = G.Trailer(True, 7 if variant & 1 else None, bool(variant & 4))
    tif = bool(variant & 2)
    cap = rng.choice([1, 1, 2])
    pr_len = G.min_pr_len(tr) + cap - 1
    n = 65536 // 4 + rng.randrange(200, 700)
    lrs = [(i * 2654435761 & 0xFFFFFFFF).to_bytes(4, 'big') for i in range(n)]
    if cap == 2:
        lrs = [l + l[::-1] for l in lrs]
    info = file_info(lrs, pr_len, tr, tif, 'record-number-wrap', part, -1 - variant)
    ctl.rec.cls('file-prlen:record-number-wrap')
    r = check_writer(ctl, T, G, lrs, pr_len, tr, tif, info)
    if r is None:
        return
    got, model = r
    ctl.rec.maxi('max_physical_records_in_a_file', len(model.phys))
    if tif:
        check_strip(ctl, T, G, lrs, pr_len, tr, got, model, info)
    wrap_rec = next(p.lr_index for p in model.phys[1:] if p.record_number == 0)
    File, TapFile = T['File'], T['TapFile']

    def ops(cur):
        for j in (wrap_rec - 1, wrap_rec, n - 2, 0, wrap_rec - 2):
            yield ('seek', j)
            for _ in range(6):
                yield ('read', rng.choice([-1, 1, 2, 3, 4, 5]))
                yield ('tellLr', None)
                yield ('tell', None)
    targets, _ = read_targets(G, got, model)
    for name, data, m in targets:
        run_history(ctl, File, TapFile, data, m, info, name, 'around-record-number-wrap', ops)
    drain_contracts(ctl, T, info, model)


# ------------------------------------------------------------------------------------------------ exhaustive splits
def record_plans(L):
    """Every composition of L into sized operations, each a read or a skip, last one exact / oversize / -1."""
    out = []
    for mask in range(1 << (L - 1)):
        parts, run = [], 1
        for i in range(L - 1):
            if mask >> i & 1:
                parts.append(run)
                run = 1
            else:
                run += 1
        parts.append(run)
        m = len(parts)
        for rs in range(1 << m):
            base = [('skip' if rs >> i & 1 else 'read', parts[i]) for i in range(m)]
            for variant in range(3):
                ops = list(base)
                kind, n = ops[-1]
                if variant == 1:
                    ops[-1] = (kind, n + 1)
                elif variant == 2:
                    ops[-1] = (kind, -1)
                out.append(tuple(ops))
    return out


def exhaustive(ctl, T, G, part, parts, lmax, combos, with_contracts=False):
    rec = ctl.rec
    File = T['File']
    plans = {L: record_plans(L) for L in range(2, lmax + 1)}
    configs = [(L1, L2, cap, combo, tif) for L1 in range(2, lmax + 1) for L2 in range(2, lmax + 1) for cap in range(1, lmax + 1)
               for combo in combos for tif in (None, 'le', 'be')]
    mine = configs[part::parts]
    evals = nt = nops = 0
    label = 'read/skip splits: 2 records L1,L2 in 2..%d x capacity 1..%d x trailer combinations %s x tif none/normal/reversed x all plans' % (
        lmax, lmax, ','.join(map(str, combos))) + (' [icontract postconditions active]' if with_contracts else '')
    sample = None
    stop = False
    for (L1, L2, cap, combo, tif) in mine:
        tr = G.Trailer(bool(combo & 1), 3 if combo & 2 else None, bool(combo & 4))
        pr_len = G.min_pr_len(tr) + cap - 1
        lrs = [bytes(range(0x41, 0x41 + L1)), bytes(range(0x61, 0x61 + L2))]
        info = file_info(lrs, pr_len, tr, bool(tif), 'exhaustive', part, -100)
        r = check_writer(ctl, T, G, lrs, pr_len, tr, bool(tif), info)
        if r is None:
            continue
        got, model = r
        data = G.rewrite_tif(got, model, 'be') if tif == 'be' else got
        target = {None: 'no-tif', 'le': 'tif', 'be': 'tif-reversed'}[tif]
        for p1 in plans[L1]:
            for p2 in plans[L2]:
                fr = File.FileRead(io.BytesIO(data), 'c05', keepGoing=False)
                cur = Cursor(model, File.ExceptionFileRead)
                hist = []
                bad = None
                where = cur.where()
                for op in itertools.chain(p1, p2):
                    # an end-of-record signal is accepted and the planned operation is issued again (bounded by the automaton)
                    for _attempt in range(MAX_SIGNALS + 2):
                        where = cur.where()
                        v, exc = apply_op(fr, cur, op, hist)
                        if v is not None:
                            bad = (v, exc)
                            break
                        if not cur.last_signal or exc is not None:
                            break
                    if bad:
                        break
                if not bad and cur.at_file_end():
                    for op in (('read', -1), ('skip', 1)):   # past the last record: signals, then ExceptionFileRead
                        where = cur.where()
                        v, exc = apply_op(fr, cur, op, hist)
                        if v is not None:
                            bad = (v, exc)
                            break
                evals += 1
                nops += len(hist)
                if cur.crossed:
                    nt += 1
                if bad:
                    report(ctl, info, model, data, target, hist, where, bad[0], bad[1], 'exhaustive-split')
                    if sum(ctl.nviol.values()) > 200:
                        stop = True
                        break
                elif not (cur.at_file_end()):
                    ctl.violation('read_history', 'plan-incomplete', 'the planned operations did not consume both records',
                                  witness_of(info, model, data, target, hist, cur.where(), {'kind': 'plan-incomplete'}))
                if sample is None and cur.crossed:
                    sample = {'file': info, 'target': target, 'plan': [list(o) for o in p1 + p2], 'observed': [list(h) for h in hist]}
            if stop:
                break
        if with_contracts:
            drain_contracts(ctl, T, info, model)
        if stop:
            break
    rec.mon('exhaustive_splits', evals)
    rec.mon('read_history', evals)
    rec.mon('read_data', nops)
    rec.bulk_cases(label, evals, nt, exhaustive=not stop, sample=sample)
    rec.add('exhaustive_histories', evals)
    rec.add('exhaustive_operations', nops)
    rec.maxi('max_exhaustive_distinct_operation_sequences', sum(len(plans[a]) * len(plans[b]) for a in plans for b in plans))
    rec.add('exhaustive_file_configurations', len(mine))
    if with_contracts:
        rec.add('exhaustive_histories_with_contracts', evals)


# ------------------------------------------------------------------------------------------------ shard
def run_shard(ctx, p):
    import logging
    logging.disable(logging.CRITICAL)
    from TotalDepth.LIS.core import File, PhysRec
    from TotalDepth import DeTif
    from tdv.gen import lis_phys as G
    from tdv.mon import contracts
    from tdv.mon.tap import TapFile, CaptureIO
    T = {'File': File, 'PhysRec': PhysRec, 'DeTif': DeTif, 'TapFile': TapFile, 'CaptureIO': CaptureIO, 'contracts': contracts}
    rec = ctx.rec
    ctl = Ctl(rec)
    part, parts = p['part'], p['parts']
    replay = p.get('_replay')
    only = None
    if replay:
        try:
            f = replay['witness']['file']
            part, only = f['part'], f['file_index']
        except Exception:
            only = None
    quick_combos = sorted({0, 7, 1 + ctx.seed % 6})
    if only is not None and only >= 0:
        contracts.install_lis_physrec_contracts()
        do_file(ctl, T, G, ctx.seed, part, only, ctx.tier)
    else:
        if ctx.tier == 'thorough':
            # the large enumeration runs before the icontract wrappers are installed (they cost ~4x per operation);
            # the smaller enumeration below and all random histories run with the contracts in place
            exhaustive(ctl, T, G, part, parts, p['lmax'], p.get('combos') or list(range(8)))
        contracts.install_lis_physrec_contracts()
        for fi in range(p['files']):
            do_file(ctl, T, G, ctx.seed, part, fi, ctx.tier)
            if sum(ctl.nviol.values()) > 200:
                break
        if ctx.tier == 'quick':
            if part in (0, 8):      # one file without and one with TIF markers; file number / checksum vary with the seed
                do_wrap_file(ctl, T, G, ctx.seed, part, (ctx.seed & 1) | (2 if part else 0) | (4 if ctx.seed & 2 else 0))
        elif part < 8:
            do_wrap_file(ctl, T, G, ctx.seed, part, part)
        if ctx.tier == 'thorough':
            exhaustive(ctl, T, G, part, parts, EXH_LMAX['quick'], quick_combos, with_contracts=True)
        else:
            exhaustive(ctl, T, G, part, parts, p['lmax'], p.get('combos') or quick_combos, with_contracts=True)
    # ---- evidence
    rec.add('histories', ctl.histories)
    rec.add('operations', ctl.operations)
    rec.add('distinct_operation_sequences_random_histories', len(ctl.opseqs))
    rec.note('operations_by_kind', dict(ctl.ops_by_kind))
    rec.note('automaton_events', dict(ctl.events))
    rec.add('stream_read_calls', ctl.stream_reads)
    rec.add('stream_bytes_read', ctl.stream_bytes)
    rec.add('stream_seek_calls', ctl.stream_seeks)
    for name, cnt in contracts.COUNTS.items():
        rec.mon('contract:' + name, cnt)
    for name, msg in contracts.drain():
        rec.violation('contract:' + name, 'breach', msg, {'contract': name, 'message': msg, 'kind': 'contract'})
