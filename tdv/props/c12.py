"""C12 Batch conversion isolates bad files and is independent of job scheduling."""
from tdv.core.findings import classifier
import collections
import json
import os
import re
import shutil
import subprocess
import sys
import time

ID = 'C12'
TITLE = 'Batch conversion isolates bad files and is independent of job scheduling'
NATIVE = 'plain'
RULE = ('A case is one directory (valid sources of the converter under test from the independent generators, damaged variants: '
        'truncations, bit flips, header damage, word/number overwrites, splices, empty files, and foreign formats; bad files placed '
        'first/last/biggest/smallest by name and size; names that are prefixes of one another, dotted, glob / format patterns, '
        'upper-case or missing extensions, nested directories holding the same file name twice) converted by the real batch functions in a '
        'child process: sequentially, with worker counts drawn from every band of 1..16 (per directory one of 1-3, one of 4-8, one of 9-16; '
        'thorough: 1,2,3,4,8,16 plus one other) under seeded injected delays, and file by file.  Distinct by directory content; '
        'non-trivial = >= 2 valid and >= 2 damaged files and a multi-process run in which two tasks overlapped in time.  One shard per '
        'converter (quick: RP66V1 only) also converts one directory of more than a thousand small files (byte-identical copies of three '
        'valid sources under distinct names, four damaged files among them) sequentially, with one and with eight workers: every copy must '
        'convert like the first copy of its source and the three modes must agree.')
ASSUMPTIONS = [
    'results are compared without the time field; output files without the CREA. (creation time) line, as the property allows',
    'two inputs of one directory that differ in the extension only (WELL.dlis, WELL.DLIS) are generated for 12 % of the RP66V1 directories: the '
    'RP66V1 output name drops the extension, so they write the same LAS files (known finding F28, classified by the colliding pair); the '
    'same name in two different directories of a tree is generated too',
    'a damaged file may legitimately convert, fail or be ignored: only mode-independence, no abort and no effect on other files are asserted for it',
    'schedules are those the OS produces under the injected per-file delays (0..30 ms before and after each conversion); their number is reported, not enumerated',
    'a batch run that hits the wall-clock watchdog makes the run inconclusive, never violated',
    'bounded progress ("never prevents the conversion of the others") is decided on a logical clock: each file is first converted on its own '
    'under a LINE-event counter and must end (converted, failed or ignored) within 40 million lines of Python, two to three orders of '
    'magnitude above what any generated file needs; a directory holding a file that does not is reported and not run in the batch modes',
]
MECHANISMS = []   # the mechanisms run in child processes; they are counted there through the event log (see monitors)
REQUIRED_MONITORS = ['one_result_per_input', 'no_abort', 'results_mode_independent', 'outputs_mode_independent',
                     'exactly_once_output', 'valid_files_converted', 'worker_events', 'overlapping_tasks_seen',
                     'every_conversion_ends_within_step_budget']
MIN_NONTRIVIAL = {'quick': 8, 'thorough': 60}
NSHARDS = {'quick': 8, 'thorough': 12}
DIRS = {'quick': 4, 'thorough': 12}            # directories per shard
JOBS = {'quick': [2, 4, 16], 'thorough': [1, 2, 3, 4, 8, 16]}
DELAY_SEEDS = {'quick': 1, 'thorough': 2}
BULK_FILES = {'quick': 1150, 'thorough': 2600}      # files in the 'many small files' directory
TIMEOUT_S = {'quick': 420, 'thorough': 3400}
CHILD_TIMEOUT = 180
STEP_BUDGET = 40_000_000     # lines of Python for one single-file conversion; the generated files take 10^4..10^6
CONVERTERS = ['rp66v1', 'lis', 'bit']
RE_CREA = re.compile(r'^CREA\..*$', re.M)


def plan(tier, seed):
    n = NSHARDS[tier]
    # one shard per converter (quick: the RP66V1 one only) also converts a directory of more than a thousand small files
    return [{'dirs': DIRS[tier], 'converter': CONVERTERS[i % len(CONVERTERS)],
             'bulk': BULK_FILES[tier] if (i < (1 if tier == 'quick' else len(CONVERTERS))) else 0} for i in range(n)]


def read_tree(root):
    out = {}
    for dp, dn, fn in os.walk(root):
        for f in fn:
            p = os.path.join(dp, f)
            try:
                with open(p, 'r', errors='replace') as fh:
                    txt = fh.read()
            except OSError as e:
                txt = '<unreadable %s>' % e
            out[os.path.relpath(p, root)] = RE_CREA.sub('CREA.', txt)
    return out


def run_child(tmp, spec):
    spec_path = os.path.join(tmp, 'spec_%s.json' % spec['tag'])
    spec['result'] = os.path.join(tmp, 'result_%s.json' % spec['tag'])
    spec['log'] = os.path.join(tmp, 'events_%s.jsonl' % spec['tag'])
    with open(spec_path, 'w') as f:
        json.dump(spec, f)
    env = dict(os.environ)
    env['PYTHONPATH'] = os.pathsep.join([os.path.dirname(os.path.dirname(os.path.dirname(os.path.abspath(__file__)))), env.get('PYTHONPATH', '')])
    t0 = time.time()
    try:
        p = subprocess.run([sys.executable, '-m', 'tdv.props.c12_worker', spec_path], env=env, timeout=CHILD_TIMEOUT,
                           stdout=subprocess.PIPE, stderr=subprocess.STDOUT)
        status = 'ok' if p.returncode == 0 else 'rc=%d: %s' % (p.returncode, p.stdout[-600:].decode('utf-8', 'replace'))
    except subprocess.TimeoutExpired:
        status = 'watchdog'
    res = None
    if os.path.exists(spec['result']):
        with open(spec['result']) as f:
            res = json.load(f)
    events = []
    if os.path.exists(spec['log']):
        with open(spec['log']) as f:
            for line in f:
                try:
                    events.append(json.loads(line))
                except ValueError:
                    pass
    return status, res, events, time.time() - t0


def analyse_events(events, din=None):
    """From the worker event log: completion order, pid->tasks, max concurrency, writers per output path."""
    starts, ends = {}, {}
    writers = collections.defaultdict(set)
    pids = collections.defaultdict(list)
    order = []
    for e in events:
        t = e.get('task') or ''
        t = os.path.relpath(t, din) if (din and t) else os.path.basename(t)
        if e['ev'] == 'start':
            starts[t] = e['t']
            pids[e['pid']].append(t)
        elif e['ev'] in ('end', 'raised'):
            ends[t] = e['t']
            order.append(t)
        elif e['ev'] == 'open_w':
            writers[e['path']].add(t)
    def peak(a, b):
        points = sorted([(a[t], 1) for t in a if t in b] + [(b[t], -1) for t in a if t in b])
        cur = mx = 0
        for _, d in points:
            cur += d
            mx = max(mx, cur)
        return mx
    mx = peak(starts, ends)                  # conversions proper
    tb = {(os.path.relpath(e['task'], din) if din else os.path.basename(e['task'])): e['t'] for e in events if e['ev'] == 'task_begin'}
    te = {(os.path.relpath(e['task'], din) if din else os.path.basename(e['task'])): e['t'] for e in events if e['ev'] == 'task_end'}
    mx_tasks = peak(tb, te)                  # whole tasks, injected delays included
    return {'order': order, 'pids': {str(k): v for k, v in pids.items()}, 'max_concurrency': mx, 'max_task_concurrency': mx_tasks, 'writers': writers,
            'raised': [e for e in events if e['ev'] == 'raised'],
            'logged': collections.Counter(e.get('exc', '?') for e in events if e['ev'] == 'logged_exc')}


def run_shard(ctx, p):
    from tdv.core import env
    from tdv.gen import batchdirs
    rec, rng = ctx.rec, ctx.rng
    tmp_root = os.environ['VERIF_SHARD_TMP']
    conv = p['converter']
    for d in range(p['dirs']):
        # "every worker count 1..16": the fixed list of the tier, and per directory one count drawn from each of the bands below
        # (quick: the bands only).  One worker is a pool that runs the files biggest-first in a single process: another order of
        # the same per-process state than the sequential driver's.
        bands = [rng.choice([1, 2, 3]), rng.choice([4, 5, 6, 7, 8]), rng.choice([9, 10, 11, 12, 13, 14, 15, 16])]
        jobs_list = sorted(set(bands)) if ctx.tier == 'quick' else sorted(set(JOBS[ctx.tier]) | {rng.choice([5, 6, 7, 9, 10, 11, 12, 13, 14, 15])})
        for j in jobs_list:
            rec.cls('jobs:%d' % j)
        case = batchdirs.make_directory(rng, conv, ctx.tier)
        if case is None:
            rec.inconclusive_because('no source generator for converter %s' % conv)
            return
        tmp = os.path.join(tmp_root, 'd%d' % d)
        din = os.path.join(tmp, 'in')
        os.makedirs(din)
        for fi_, f in enumerate(case['files']):
            os.makedirs(os.path.dirname(os.path.join(din, f['name'])), exist_ok=True)
            target = os.path.join(din, f['name'])
            if f.get('as_link'):
                os.makedirs(os.path.join(tmp, 'archive'), exist_ok=True)
                target = os.path.join(tmp, 'archive', 'a%03d' % fi_)
                os.symlink(target, os.path.join(din, f['name']))
            with open(target, 'wb') as fh:
                fh.write(f['data'])
        names = sorted(f['name'] for f in case['files'])
        kinds = {f['name']: f['kind'] for f in case['files']}
        opts = case['options']
        base = {'repo': env.REPO, 'converter': conv, 'dir_in': din, 'native_preseed': True, 'max_delay_ms': 30, 'recurse': case.get('recurse', False)}
        base.update(opts)
        runs = []   # (tag, mode, jobs, delay_seed)
        runs.append(('alone', 'alone', 0, 0))
        runs.append(('seq', 'seq', 0, 0))
        for ds in range(DELAY_SEEDS[ctx.tier]):
            for j in jobs_list:
                runs.append(('mp%d_s%d' % (j, ds), 'mp', j, ds))
        observed = {}
        orders = set()
        assignments = set()
        overlapped = False
        # ---- bounded progress on a logical clock, before any batch run: a file whose conversion does not end would only
        # be seen as a wall-clock watchdog hit (inconclusive) below
        spec = dict(base, tag='steps', mode='steps', jobs=0, delay_seed=0, dir_out=os.path.join(tmp, 'out_steps'), step_budget=STEP_BUDGET)
        status, res, events, wall = run_child(tmp, spec)
        shutil.rmtree(spec['dir_out'], ignore_errors=True)
        endless = []
        if status == 'ok' and res and res.get('steps'):
            for n in names:
                st = res['steps'].get(n)
                if st is None:
                    continue
                rec.mon('every_conversion_ends_within_step_budget')
                rec.maxi('max_steps_of_one_conversion', st[1])
                if st[0] == 'over':
                    endless.append(n)
                    rec.violation('every_conversion_ends_within_step_budget', 'no-end',
                                  '%s: conversion of %s (%s, %d bytes) still running after %d lines of Python (largest conversion that ended in this directory: %d lines)' % (
                                      conv, n, kinds[n], len(next(f['data'] for f in case['files'] if f['name'] == n)), st[1],
                                      max([v[1] for v in res['steps'].values() if v[0] == 'ok'] or [0])),
                                  {'converter': conv, 'file': n, 'kind': kinds[n], 'steps': st[1], 'where': st[2], 'options': opts,
                                   'input': next(f['data'] for f in case['files'] if f['name'] == n)})
        elif status == 'watchdog':
            rec.inconclusive_because('step-counted single-file runs of converter %s hit the %ds wall-clock watchdog' % (conv, CHILD_TIMEOUT))
        if endless:
            # every batch mode would sit in the same conversion until the watchdog: nothing more can be observed here
            rec.case(json.dumps([(f['name'], f['kind'], len(f['data'])) for f in case['files']]) + repr(sorted(opts.items())), False,
                     classes=['converter:' + conv, 'directory:holds-endless-conversion'])
            shutil.rmtree(tmp, ignore_errors=True)
            continue
        # a quarter of the directories: the output directory's path is a string prefix of the input paths without being their
        # ancestor (survey/ next to survey_in/), reached through a per-run link to the same input tree
        prefix_out = rng.random() < 0.25
        for tag, mode, jobs, ds in runs:
            spec = dict(base, tag=tag, mode=mode, jobs=jobs, delay_seed=ds + 1000 * ctx.seed, dir_out=os.path.join(tmp, 'out_' + tag))
            din = din0 = base['dir_in']
            if prefix_out:
                os.makedirs(os.path.join(tmp, 'r_' + tag))
                din = os.path.join(tmp, 'r_' + tag, 'survey_in')
                os.symlink(din0, din)
                spec['dir_in'] = din
                spec['dir_out'] = os.path.join(tmp, 'r_' + tag, 'survey')
            status, res, events, wall = run_child(tmp, spec)
            rec.add('batch_runs', 1)
            rec.maxi('max_batch_wall_s', round(wall, 2))
            w = {'converter': conv, 'mode': tag, 'files': {n: kinds[n] for n in names}, 'options': opts, 'same_stem': case.get('same_stem') or []}
            if status == 'watchdog':
                rec.inconclusive_because('batch run %s of converter %s hit the %ds wall-clock watchdog (files %s)' % (tag, conv, CHILD_TIMEOUT, kinds))
                continue
            ev = analyse_events(events, din)
            for exc_name, cnt in sorted(ev['logged'].items()):
                rec.add('errors_logged_by_converters:%s:%s' % (conv, exc_name), cnt)
            for lab, cnt in ((res or {}).get('mechanism_hits') or {}).items():
                rec.mechanism_hits[lab + ' [driver process]'] += cnt
            rec.mon('worker_events', len(events))
            rec.add('tasks_observed', len(ev['order']))
            # ---- no abort
            rec.mon('no_abort')
            if res is None or status != 'ok':
                rec.violation('no_abort', 'child-died', 'batch run %s died: %s' % (tag, status), dict(w, status=status))
                continue
            if res['raised']:
                bad = [os.path.relpath(e['task'], din) for e in ev['raised']]
                rec.violation('no_abort', 'batch-raised', 'batch conversion (%s, %s) raised %s; raising task(s): %s' % (conv, tag, res['raised'], [(b, kinds.get(b)) for b in bad]),
                              dict(w, raised=res['raised'], traceback=res.get('traceback'), raising_tasks=[{'name': b, 'kind': kinds.get(b)} for b in bad],
                                   raising_inputs={b: next(f['data'] for f in case['files'] if f['name'] == b) for b in bad[:1]}))
                continue
            # ---- one result per input
            rec.mon('one_result_per_input')
            got = sorted(res['results'])
            if got != names or not res.get('keys_match_path_input', True):
                rec.violation('one_result_per_input', 'result-keys', '%s %s: results for %s, inputs %s' % (conv, tag, got, names), dict(w, got=got))
            # ---- exactly once
            rec.mon('exactly_once_output')
            for path, tasks in sorted(ev['writers'].items()):
                if len(tasks) > 1:
                    rec.violation('exactly_once_output', 'two-writers', '%s %s: output %s opened for writing by tasks %s' % (conv, tag, os.path.basename(path), sorted(tasks)),
                                  dict(w, path=os.path.basename(path), tasks=sorted(tasks)))
            written_by = collections.defaultdict(list)
            for path, tasks in ev['writers'].items():
                for t in tasks:
                    written_by[t].append(os.path.relpath(path, spec['dir_out']))
            observed[tag] = {'results': res['results'], 'tree': read_tree(spec['dir_out']) if os.path.isdir(spec['dir_out']) else {},
                             'written_by': written_by}
            if mode == 'mp':
                orders.add(tuple(ev['order']))
                assignments.add(tuple(sorted((k, tuple(v)) for k, v in ev['pids'].items())))
                rec.maxi('max_concurrency_observed', ev['max_concurrency'])
                rec.maxi('max_task_concurrency_observed', ev['max_task_concurrency'])
                if ev['max_concurrency'] >= 2:
                    rec.add('runs_with_overlapping_conversions', 1)
                if ev['max_task_concurrency'] >= 2:
                    overlapped = True
                    rec.mon('overlapping_tasks_seen')
            shutil.rmtree(spec['dir_out'], ignore_errors=True)
        rec.add('distinct_completion_orders', len(orders))
        rec.add('distinct_pid_assignments', len(assignments))
        # ---- mode independence, against the file-alone ground truth
        ref = observed.get('alone')
        if ref is not None:
            for tag, ob in sorted(observed.items()):
                if tag == 'alone':
                    continue
                rec.mon('results_mode_independent')
                for n in names:
                    a, b = ref['results'].get(n), ob['results'].get(n)
                    if a != b:
                        rec.violation('results_mode_independent', 'result-differs', '%s: result of %s (%s) differs between file-alone and %s: %s vs %s' % (conv, n, kinds[n], tag, a, b),
                                      {'converter': conv, 'file': n, 'kind': kinds[n], 'alone': a, 'other_mode': tag, 'other': b, 'files': kinds, 'options': opts,
                                       'same_stem': case.get('same_stem') or []})
                        break
                rec.mon('outputs_mode_independent')
                if ref['tree'] != ob['tree']:
                    only_a = sorted(set(ref['tree']) - set(ob['tree']))
                    only_b = sorted(set(ob['tree']) - set(ref['tree']))
                    diff = sorted(k for k in set(ref['tree']) & set(ob['tree']) if ref['tree'][k] != ob['tree'][k])
                    rec.violation('outputs_mode_independent', 'tree-differs', '%s: output tree differs between file-alone and %s: only-alone %s only-%s %s content-differs %s' % (conv, tag, only_a[:4], tag, only_b[:4], diff[:4]),
                                  {'converter': conv, 'other_mode': tag, 'only_alone': only_a, 'only_other': only_b, 'content_differs': diff, 'files': kinds, 'options': opts,
                                   'same_stem': case.get('same_stem') or []})
            # ---- valid files converted
            for f in case['files']:
                if f['kind'].startswith('valid:' + conv):
                    rec.mon('valid_files_converted')
                    r = ref['results'].get(f['name'])
                    outs = sorted(k for k in ref['written_by'].get(f['name'], []) if k in ref['tree'])
                    if r is None or r['exception'] or r['ignored'] or r['las_count'] < 1 or (f.get('expect_las') is not None and r['las_count'] != f['expect_las']) or len(outs) != r['las_count']:
                        rec.violation('valid_files_converted', 'valid-not-converted', '%s: valid file %s -> %s, outputs %s (expected %s LAS files)' % (conv, f['name'], r, outs, f.get('expect_las')),
                                      {'converter': conv, 'file': f['name'], 'kind': f['kind'], 'result': r, 'outputs': outs, 'expect_las': f.get('expect_las'), 'input': f['data'], 'options': opts,
                                       'facts': f.get('facts') or {}})
        nvalid = sum(1 for f in case['files'] if f['kind'].startswith('valid:' + conv))
        ndam = sum(1 for f in case['files'] if f['kind'].startswith('damaged'))
        rec.case(json.dumps([(f['name'], f['kind'], len(f['data'])) for f in case['files']]) + repr(sorted(opts.items())),
                 nvalid >= 2 and ndam >= 2 and overlapped,
                 classes=['converter:' + conv] + sorted({'file:' + f['kind'].split(':op=')[0] for f in case['files']}) + ['placement:' + case['placement']] + (['output-path-is-a-prefix-of-the-input-paths'] if prefix_out else []),
                 sample={'converter': conv, 'files': [(f['name'], f['kind'], len(f['data'])) for f in case['files']], 'options': opts,
                         'completion_orders_seen': [list(o) for o in sorted(orders)][:3]})
        shutil.rmtree(tmp, ignore_errors=True)
    if p.get('bulk'):
        bulk_directory(ctx, conv, p['bulk'])


def bulk_directory(ctx, conv, nfiles):
    """More than a thousand small files in one directory (copies of three valid files under distinct names, a few damaged
    ones among them): whatever a process accumulates per file (queues, caches, descriptors) is exercised.  Sequential, one
    worker and eight workers must agree with each other, and every copy of a valid file must convert like its first copy."""
    from tdv.core import env
    from tdv.gen import batchdirs, corrupt
    rec, rng = ctx.rec, ctx.rng
    tmp = os.path.join(os.environ['VERIF_SHARD_TMP'], 'bulk')
    din = os.path.join(tmp, 'in')
    os.makedirs(din)
    fmt = batchdirs.FAMILY[conv][0]
    srcs = []
    for _ in range(40):
        v = batchdirs.valid_sources(rng, fmt, 1)[0]
        if len(v.data) <= 6000 and not (isinstance(v.describe, dict) and 0 in (v.describe.get('logpasses') or [])):
            srcs.append(v)
        if len(srcs) == 3:
            break
    if not srcs:
        rec.inconclusive_because('no small valid %s source for the bulk directory' % conv)
        return
    ext = batchdirs.EXT[fmt]
    names, kinds, src_of = [], {}, {}
    bad_at = set(rng.sample(range(nfiles), 4))
    for i in range(nfiles):
        name = 'k%05d%s' % (i, ext)
        if i in bad_at:
            op, data = corrupt.mutate(rng, srcs[0].data, other=srcs[-1].data, boundaries=srcs[0].boundaries)
            kinds[name] = 'damaged:%s:op=%s' % (fmt, op)
        else:
            data = srcs[i % len(srcs)].data
            kinds[name] = 'valid:%s:%s' % (conv, fmt)
            src_of[name] = i % len(srcs)
        with open(os.path.join(din, name), 'wb') as fh:
            fh.write(data)
        names.append(name)
    opts = {'array_reduction': 'first', 'frame_slice': {}, 'channels': [], 'field_width': 16, 'float_format': '.3f'}
    base = {'repo': env.REPO, 'converter': conv, 'dir_in': din, 'native_preseed': True, 'max_delay_ms': 0, 'recurse': False}
    base.update(opts)
    observed = {}
    for tag, mode, jobs in (('bulk_seq', 'seq', 0), ('bulk_mp1', 'mp', 1), ('bulk_mp8', 'mp', 8)):
        spec = dict(base, tag=tag, mode=mode, jobs=jobs, delay_seed=0, dir_out=os.path.join(tmp, 'out_' + tag))
        status, res, events, wall = run_child(tmp, spec)
        rec.add('bulk_batch_runs', 1)
        rec.maxi('max_bulk_batch_wall_s', round(wall, 2))
        w = {'converter': conv, 'mode': tag, 'files': '%d files: %d copies of %d valid sources, damaged at %s' % (nfiles, nfiles - len(bad_at), len(srcs), sorted(bad_at)), 'options': opts}
        if status == 'watchdog':
            rec.inconclusive_because('bulk run %s of converter %s hit the %ds wall-clock watchdog' % (tag, conv, CHILD_TIMEOUT))
            continue
        rec.mon('no_abort')
        if res is None or status != 'ok':
            rec.violation('no_abort', 'child-died', 'bulk batch run %s died: %s' % (tag, status), dict(w, status=status))
            continue
        if res['raised']:
            rec.violation('no_abort', 'batch-raised', 'bulk batch conversion (%s, %s, %d files) raised %s' % (conv, tag, nfiles, res['raised']), dict(w, raised=res['raised'], traceback=res.get('traceback')))
            continue
        rec.mon('one_result_per_input')
        got = sorted(res['results'])
        if got != names:
            rec.violation('one_result_per_input', 'result-keys', '%s %s: %d results for %d inputs (missing %s, extra %s)' % (
                conv, tag, len(got), len(names), sorted(set(names) - set(got))[:5], sorted(set(got) - set(names))[:5]), dict(w, got=len(got)))
        ev = analyse_events(events, din)
        rec.mon('worker_events', len(events))
        rec.add('tasks_observed', len(ev['order']))
        rec.mon('exactly_once_output')
        for path, tasks in sorted(ev['writers'].items()):
            if len(tasks) > 1:
                rec.violation('exactly_once_output', 'two-writers', '%s %s: output %s opened for writing by tasks %s' % (conv, tag, os.path.basename(path), sorted(tasks)), dict(w, path=os.path.basename(path), tasks=sorted(tasks)))
                break
        tree = read_tree(spec['dir_out']) if os.path.isdir(spec['dir_out']) else {}
        observed[tag] = {'results': res['results'], 'tree': tree}
        # every copy of a valid source converts like the first copy of that source in this very run
        rec.mon('valid_files_converted')
        first = {}
        for n in names:
            if n not in src_of or n not in res['results']:
                continue
            r = res['results'][n]
            sig = (r['binary_file_type'], r['size_input'], r['size_output'], r['las_count'], r['exception'], r['ignored'])
            k = src_of[n]
            if k not in first:
                first[k] = (n, sig)
                if r['exception'] or r['ignored'] or r['las_count'] < 1:
                    rec.violation('valid_files_converted', 'valid-not-converted', '%s %s: valid file %s -> %s' % (conv, tag, n, r), dict(w, file=n, result=r, input=srcs[k].data))
            elif sig != first[k][1]:
                rec.violation('valid_files_converted', 'copy-differs', '%s %s: %s is a byte-identical copy of %s but its result is %s, not %s (file %d of %d in name order)' % (
                    conv, tag, n, first[k][0], sig, first[k][1], names.index(n) + 1, len(names)), dict(w, file=n, first_copy=first[k][0], result=r, position=names.index(n)))
                break
        shutil.rmtree(spec['dir_out'], ignore_errors=True)
    ref = observed.get('bulk_seq')
    for tag, ob in sorted(observed.items()):
        if ref is None or tag == 'bulk_seq':
            continue
        rec.mon('results_mode_independent')
        diff = [n for n in names if ref['results'].get(n) != ob['results'].get(n)]
        if diff:
            rec.violation('results_mode_independent', 'result-differs', '%s bulk: results of %d files differ between sequential and %s, first %s: %s vs %s' % (
                conv, len(diff), tag, diff[0], ref['results'].get(diff[0]), ob['results'].get(diff[0])), {'converter': conv, 'other_mode': tag, 'differing': diff[:20], 'options': opts})
        rec.mon('outputs_mode_independent')
        if ref['tree'] != ob['tree']:
            only_a = sorted(set(ref['tree']) - set(ob['tree']))
            only_b = sorted(set(ob['tree']) - set(ref['tree']))
            dif = sorted(k for k in set(ref['tree']) & set(ob['tree']) if ref['tree'][k] != ob['tree'][k])
            rec.violation('outputs_mode_independent', 'tree-differs', '%s bulk: output tree differs between sequential and %s: only-sequential %s only-%s %s content-differs %s' % (
                conv, tag, only_a[:4], tag, only_b[:4], dif[:4]), {'converter': conv, 'other_mode': tag, 'only_seq': only_a[:50], 'only_other': only_b[:50], 'content_differs': dif[:50], 'options': opts})
    rec.case('bulk:%s:%d:%s' % (conv, nfiles, [len(v.data) for v in srcs]), len(observed) == 3, classes=['converter:' + conv, 'directory:bulk-%d-files' % nfiles])
    shutil.rmtree(tmp, ignore_errors=True)


def _same_stem_prefixes(w):
    """Output path prefixes (directory + stem + '_') of the input pairs that differ in their extension only."""
    out = []
    for pair in w.get('same_stem') or []:
        stems = {os.path.splitext(n)[0] for n in pair}
        if len(pair) == 2 and len(stems) == 1:
            out.append((sorted(pair), stems.pop() + '_'))
    return out


@classifier('c12_rp66v1_same_stem_one_output')
def _c12_same_stem(v):
    """RP66V1 las_file_name() drops the input extension: WELL.dlis and WELL.DLIS in one directory write the same LAS files."""
    w = v.get('witness') or {}
    pre = _same_stem_prefixes(w)
    if w.get('converter') != 'rp66v1' or not pre:
        return False
    if v['monitor'] == 'exactly_once_output' and v['kind'] == 'two-writers':
        return any(sorted(w.get('tasks') or []) == pair for pair, _ in pre)
    if v['monitor'] == 'outputs_mode_independent' and v['kind'] == 'tree-differs':
        paths = (w.get('only_alone') or []) + (w.get('only_other') or []) + (w.get('content_differs') or [])
        return bool(paths) and all(any(p.startswith(px) for _, px in pre) for p in paths)
    if v['monitor'] == 'results_mode_independent' and v['kind'] == 'result-differs':
        # size_output is measured on the shared output files, which the other input of the pair may have rewritten meanwhile
        a, b = w.get('alone') or {}, w.get('other') or {}
        return (any(w.get('file') in pair for pair, _ in pre) and isinstance(a, dict) and isinstance(b, dict)
                and {k for k in set(a) | set(b) if a.get(k) != b.get(k)} == {'size_output'})
    return False


@classifier('c12_lis_log_pass_without_frames')
def _c12_lis_empty_pass(v):
    """LIS ToLAS on a logical file whose log pass (DFSR) has no frame data: RLEType01.frameSpacing() subtracts None and raises TypeError."""
    w = v.get('witness') or {}
    r = w.get('result') or {}
    fr = (w.get('facts') or {}).get('frames_per_log_pass') or []
    # las_count counts the logical files written before the frameless one was reached
    return v['monitor'] == 'valid_files_converted' and w.get('converter') == 'lis' and 0 in fr and r.get('exception') is True


LEVEL_TEXT = ('The real batch converters are run in child processes on generated directories (valid + damaged + foreign files) sequentially, '
              'with 1-16 worker processes under injected delays, and file by file; result dictionaries and output trees are compared '
              'between all modes with the file-alone run as ground truth, an open() audit hook in the workers checks that every output '
              'file has exactly one writing task, and the worker event log shows which interleavings were actually observed.  Before the batch runs '
              'every file is converted alone under a LINE-event counter (bounded progress on a logical clock), and one directory of more than a '
              'thousand small files per converter exercises whatever a process accumulates per file.')
LEVEL_NOTE = ('Trusted: the OS scheduler to produce varied interleavings under delays (count reported), the independent generators for what a '
              'valid file is. Process-level only: there are no threads in the subject.')
TECHNIQUE = 'runtime monitoring: metamorphic comparison of sequential / multi-process / file-alone executions with worker event logs, audit-hook exactly-once check, schedule perturbation and a sys.monitoring step budget per file'
