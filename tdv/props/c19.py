"""C19 Plotted curves stay inside their track and wrap consistently."""
import decimal
import hashlib
import math
import os
import re
import sys
from fractions import Fraction

from tdv.core.findings import classifier

ID = 'C19'
TITLE = 'Plotted curves stay inside their track and wrap consistently'
NATIVE = 'plain'
NEEDS = ('icontract',)
RULE = ('(a) (kind, left position, right position, left edge, right edge, value, back-up mode) tuples for LineTransLin / LineTransLog10: '
        'edges and values over 40 decades of magnitude (10^-20..10^20), both directions, values on / one ulp next to the edges, k whole '
        'wraps away, far away; distinct by the tuple; non-trivial = the value is not inside the unwrapped scale (wrap != 0) or lies on / next '
        'to an edge.  (b) one case per plot (source file digest, film / format id): generated LIS files with random FILM + PRES tables '
        '(every track layout, every depth scale, every back-up mode, linear and logarithmic) and curves that are constant / on-edge / ramp / '
        'sine / spiky / huge / tiny / negative-on-log / partly or wholly absent; one to three films (documented GCOD/GDEC spellings included), PRES destinations '
        'naming one film, BOTH, ALL or several films by character, absent values -999.25 / -9999 / -32768 / -999 / 1e30 / 0, an integer plot scale override for a '
        'third of the files, and for every other file a second log pass (other data, other absent value) plotted through the same Plot object; '
        'XML-format and LAS plots likewise reuse one Plot object per format for half of the log passes; LIS files whose channels are named as each built-in XML '
        'plot format expects, the repository example LIS files, LAS text with the same names, PlotLogs end to end; non-trivial = the plot '
        'has at least one curve polyline.')
ASSUMPTIONS = [
    'the unwrapped scale position is lP + (v - lL)/(rL - lL) * (rP - lP) (linear) or lP + ln(v/lL)/ln(rL/lL) * (rP - lP) (log), evaluated '
    'exactly (fractions) or with 60 decimal digits; "equals" allows the rounding of a double evaluation: 8 eps * ((|wrap|+1) * width + |lP| + |rP|) '
    'plus, for log scales, the conditioning of the two logarithms',
    'values / edges beyond 10^+-20 are a separately labelled class: when an intermediate (v - lL, v / lL) overflows or underflows a double the '
    'case is counted, not judged',
    'a position is "within the track" up to 4 eps * max(|lP|, |rP|, width); SVG coordinates are printed with one decimal, so containment allows 0.051 view box units',
    'left and right plot margins are the quarter inch margins of the 8.5 in roll (24 .. 792 view box units); track limits of generated FILM tables '
    'come from the harness own table of LIS film layouts',
    'absent values are generated in runs of even length so that no interpolated edge crossing can fall on the depth of an absent frame',
    'frame depths are identified inside the SVG by a reference curve (constant, always present) plotted in the same film',
    'back-up modes: NB / GRAD draw only the unwrapped position, SHIF one back-up either side, WRAP (and unknown modes) every wrap; a point at the position of a suppressed wrap counts as unexplained',
    'the last one or two frames of the interval need not be plotted (the frame slice of the plot excludes its stop, which is found by a floor division of X values)',
    'a PRES destination names a film by its identifier, two films by BOTH, all by ALL, otherwise every character of it that is a film identifier (FILMCfg documents "123"); '
    'an output feeding a curve of the film must have its section in the plot',
    'section comments carry the output name with markup characters escaped (Q&gt;): names are unescaped before they are matched with the model',
    'a value <= 0 has no position on a logarithmic scale: wrapPos may raise; if it returns, the position must be inside the track',
    'the plot scale override is an integer (XGrid documents and enforces an integral scale; the command line option is type=int) not larger than the largest film scale of the file',
]
MECHANISMS = [
    ('TotalDepth.util.plot.PRESCfg', 'LineTransLin.wrapPos'), ('TotalDepth.util.plot.PRESCfg', 'LineTransLog10.wrapPos'),
    ('TotalDepth.util.plot.PRESCfg', 'LineTransLin.L2P'), ('TotalDepth.util.plot.PRESCfg', 'LineTransLog10.L2P'),
    ('TotalDepth.util.plot.Plot', 'Plot._plotSingleOutput'), ('TotalDepth.util.plot.Plot', 'Plot._retInterpolateWrapPoints'),
    ('TotalDepth.util.plot.Plot', 'Plot._filterCrossLineList'), ('TotalDepth.util.plot.Plot', 'PlotRoll.xDepth'),
    ('TotalDepth.util.plot.Plot', 'PlotRoll.polyLinePt'),
]
REQUIRED_MONITORS = ['wrap_identity_lin', 'wrap_identity_log', 'wrap_in_track', 'l2p_vs_exact', 'svg_wellformed', 'svg_in_viewbox',
                     'svg_in_margins', 'svg_in_track', 'svg_no_point_for_absent', 'svg_points_explained', 'svg_edge_side', 'lis_produces_plot',
                     'las_produces_plot', 'plotlogs_directory']
MIN_NONTRIVIAL = {'quick': 60000, 'thorough': 2000000}
TIMEOUT_S = {'quick': 400, 'thorough': 3300}
NSHARDS = 16
N_WRAP = {'quick': 200000, 'thorough': 10000000}
N_GEN = {'quick': 6, 'thorough': 170}          # generated FILM/PRES files per shard (1-2 films each)
N_XML = {'quick': 2, 'thorough': 56}          # XML-format LIS files per shard (each plotted with every matching format)
N_LAS = {'quick': 6, 'thorough': 48}
EPS = sys.float_info.epsilon
TOL_PT = 0.051
MARGIN_L, MARGIN_R = 24.0, 792.0

decimal.getcontext().prec = 60


def plan(tier, seed):
    return [{'part': i, 'parts': NSHARDS, 'n_wrap': N_WRAP[tier] // NSHARDS, 'n_gen': N_GEN[tier], 'n_xml': N_XML[tier], 'n_las': N_LAS[tier]}
            for i in range(NSHARDS)]


# ------------------------------------------------------------------------------------------------ (a) wrapPos
BACKUPS = [('none', (1, -1)), ('all', (0, 0)), ('once', (-1, 1)), ('twice', (-2, 2)), ('left', (0, -1)), ('right', (1, 0))]
PHYS = [(0.0, 2.4), (2.4, 3.2), (3.2, 5.6), (5.6, 8.0), (3.2, 8.0), (0.0, 1.2), (1.0, 2.75), (6.25, 8.0), (2.0, 5.0)]


def _mag(rng, lo=-20, hi=20):
    return 10.0 ** rng.uniform(lo, hi)


def gen_wrap_case(rng, extreme=False):
    log = rng.random() < 0.45
    if rng.random() < 0.7:
        lp, rp = rng.choice(PHYS)
    else:
        lp = rng.choice([0.0, rng.uniform(-5, 5), _mag(rng, -3, 3)])
        rp = lp + rng.choice([1e-3, 0.5, 2.4, 8.0, _mag(rng, -3, 3)])
    lo_e, hi_e = (-300, 300) if extreme else (-20, 20)
    if log:
        ll = _mag(rng, lo_e, hi_e) if rng.random() < 0.6 else rng.choice([0.2, 1.0, 2.0, 0.02, 10.0, 2000.0])
        ratio = rng.choice([10.0, 100.0, 1e4, 1e4, 2.0, 1.001, 7.5, _mag(rng, 0.001, 6)])
        rl = ll * ratio if rng.random() < 0.75 else ll / ratio
    else:
        k = rng.random()
        if k < 0.25:
            ll, rl = rng.choice([(0.0, 150.0), (-80.0, 20.0), (6.0, 16.0), (0.45, -0.15), (1.95, 2.95), (140.0, 40.0), (-0.25, 0.25), (2000.0, 7000.0)])
        else:
            ll = rng.choice([0.0, 0.0, _mag(rng, lo_e, hi_e), -_mag(rng, lo_e, hi_e)])
            w = _mag(rng, lo_e, hi_e) if rng.random() < 0.7 else abs(ll) * rng.choice([1e-6, 1e-3, 0.5, 2.0])
            rl = ll + w if rng.random() < 0.6 else ll - w
    if rl == ll or (log and (ll <= 0 or rl <= 0)) or math.isinf(rl) or math.isinf(ll):
        ll, rl = (0.2, 2000.0) if log else (0.0, 150.0)
    # value
    c = rng.random()
    if c < 0.12:
        v, vc = rng.choice([ll, rl]), 'on-edge'
    elif c < 0.27:
        e = rng.choice([ll, rl])
        v, vc = math.nextafter(e, rng.choice([math.inf, -math.inf])), 'next-to-edge'
    elif c < 0.47:
        f = rng.random()
        v = (ll * (rl / ll) ** f) if log else ll + (rl - ll) * f
        vc = 'inside'
    elif c < 0.67:
        k = rng.choice([-1000, -7, -3, -2, -1, 1, 2, 3, 7, 1000, 137166])
        if log:
            try:
                v = ll * (rl / ll) ** k
            except OverflowError:
                v = ll
            if not (0 < v < math.inf):
                v = ll * (rl / ll) ** rng.choice([-2, -1, 1, 2])
        else:
            v = ll + (rl - ll) * k
        if rng.random() < 0.5:
            v = math.nextafter(v, rng.choice([math.inf, -math.inf]))
        vc = 'whole-wraps-away'
    elif c < 0.9:
        v = _mag(rng, lo_e, hi_e)
        if not log and rng.random() < 0.5:
            v = -v
        vc = 'far'
    else:
        v = rng.choice([0.0, -0.0, 5e-324, -5e-324, 1.0, -1.0, -999.25]) if not log else rng.choice([5e-324, 1.0, 1e-300 if extreme else 1e-20])
        vc = 'special'
    if log and v <= 0:
        v = ll
    if math.isinf(v) or v != v:
        v = ll
    if log and rng.random() < 0.03:
        # no position exists for a non-positive value on a logarithmic scale: whatever wrapPos does, it must not hand out a
        # position outside the track (the plot code skips the sample when the documented math exception is raised)
        v, vc = rng.choice([0.0, -0.0, -1.0, -ll, -rl, -5e-324, -1e300, -999.25]), 'nonpositive-on-log'
    bu = rng.choice(BACKUPS)
    return log, lp, rp, ll, rl, v, bu, vc


def exact_p(log, ll, rl, v):
    """Reference normalised scale position (decimal, 60 digits; exact rational for linear scales)."""
    if log:
        D = decimal.Decimal
        n = (D(v) / D(ll)).ln()
        d = (D(rl) / D(ll)).ln()
        return n / d, n, d
    p = (Fraction(v) - Fraction(ll)) / (Fraction(rl) - Fraction(ll))
    return p, None, None


def check_wrap_case(rec, P, case, cap):
    log, lp, rp, ll, rl, v, (bname, bu), vc = case
    klass = P.LineTransLog10 if log else P.LineTransLin
    w_ = {'kind': 'log' if log else 'lin', 'leftP': lp, 'rightP': rp, 'leftL': ll, 'rightL': rl, 'value': v, 'backup': bname,
          'leftL_hex': float(ll).hex(), 'rightL_hex': float(rl).hex(), 'value_hex': float(v).hex(), 'value_class': vc}
    # "all finite values": an intermediate (v - lL, rL - lL, v / lL, rL / lL or their quotient) that leaves the normal double range
    # makes the case a separately labelled class that is counted, not judged
    if log and v <= 0:
        rec.mon('wrap_in_track')
        try:
            w, pos = klass(lp, rp, ll, rl, bu).wrapPos(v)
        except Exception as e:  # noqa
            rec.cls('wrap:nonpositive-on-log:raises-' + type(e).__name__)
            return None
        rec.cls('wrap:nonpositive-on-log:returns')
        tolp = 4 * EPS * max(abs(lp), abs(rp), rp - lp)
        if not (isinstance(pos, (int, float)) and lp - tolp <= pos <= rp + tolp) and cap['n'] < 20:
            cap['n'] += 1
            rec.violation('wrap_in_track', 'outside-track', 'wrapPos(%r) on log %r..%r -> wrap %r position %r outside [%r, %r]' % (v, ll, rl, w, pos, lp, rp), dict(w_, wrap=repr(w), pos=repr(pos)))
        return None
    big, small = Fraction(sys.float_info.max), Fraction(sys.float_info.min)
    if log:
        inters = [abs(Fraction(v) / Fraction(ll)), abs(Fraction(rl) / Fraction(ll))]
    else:
        a, b = abs(Fraction(v) - Fraction(ll)), abs(Fraction(rl) - Fraction(ll))
        inters = [a, b] + ([a / b] if b else [])
    out_of_range = any(x > big or (x != 0 and x < small) for x in inters)
    extreme = max(abs(ll), abs(rl), abs(v)) > 1e21 or any(0 < abs(x) < 1e-21 for x in (ll, rl, v))
    try:
        t = klass(lp, rp, ll, rl, bu)
        w, pos = t.wrapPos(v)
        l2p = t.L2P(v)
    except (OverflowError, ValueError, ZeroDivisionError) as e:
        if out_of_range:
            rec.cls('wrap:intermediate-out-of-double-range:raises-' + type(e).__name__)
            return None
        if cap['n'] < 20:
            cap['n'] += 1
            rec.violation('wrap_identity_' + w_['kind'], 'raises', 'wrapPos(%r) on %s scale %r..%r raised %s: %s' % (v, w_['kind'], ll, rl, type(e).__name__, e),
                          dict(w_, exception=type(e).__name__), exc=e)
        return None
    if out_of_range:
        rec.cls('wrap:intermediate-out-of-double-range:returns')
        return None
    rec.mon('wrap_identity_' + w_['kind'])
    rec.mon('wrap_in_track')
    rec.mon('l2p_vs_exact')
    W = Fraction(rp) - Fraction(lp)
    Wf = float(W)
    p, n, d = exact_p(log, ll, rl, v)
    if log:
        Wd = decimal.Decimal(W.numerator) / decimal.Decimal(W.denominator)
        U = decimal.Decimal(lp) + p * Wd
        got = decimal.Decimal(pos) + decimal.Decimal(w) * Wd
        err = abs(float(got - U))
        pa, na, da = abs(float(p)), abs(float(n)), abs(float(d))
        # v / lL and rL / lL are rounded before the logarithm is taken and each log10 carries its own rounding: the
        # normalised position inherits (1 + |N|) / |D| + |N| (1 + |D|) / D^2 relative roundings (N, D the two natural logs)
        cond = 4 * EPS * ((1 + na) / da + na * (1 + da) / (da * da)) * Wf
        tol = 8 * EPS * ((abs(w) + 1) * Wf + abs(lp) + abs(rp)) + cond
        l2p_err = abs(float(decimal.Decimal(l2p) - U))
        # L2P subtracts two scaled logarithms that may nearly cancel: bounded by the magnitude of each term
        lg = abs(math.log10(ll)) + abs(math.log10(v)) + 1
        tol_l2p = 16 * EPS * (abs(lp) + abs(rp) + Wf * lg / (da / math.log(10))) + cond
    else:
        U = Fraction(lp) + p * W
        got = Fraction(pos) + w * (Fraction(rp) - Fraction(lp))
        err = abs(float(got - U))
        pa = abs(float(p)) if abs(p) < Fraction(10) ** 300 else 1e300
        tol = 8 * EPS * ((abs(w) + 1) * Wf + abs(lp) + abs(rp)) + 4 * EPS * pa * Wf
        l2p_err = abs(float(Fraction(l2p) - U)) if math.isfinite(l2p) else math.inf
        scale = Wf / abs(rl - ll) if rl != ll else math.inf
        tol_l2p = 16 * EPS * (abs(lp) + abs(rp) + scale * (abs(ll) + abs(v)) + Wf)
    tolp = 4 * EPS * max(abs(lp), abs(rp), Wf)
    if not (lp - tolp <= pos <= rp + tolp):
        if cap['n'] < 20:
            cap['n'] += 1
            rec.violation('wrap_in_track', 'outside-track', 'wrapPos(%r) on %s %r..%r -> wrap %r position %r outside [%r, %r]' % (v, w_['kind'], ll, rl, w, pos, lp, rp),
                          dict(w_, wrap=w, pos=pos))
    if not isinstance(w, int) or isinstance(w, bool):
        if cap['n'] < 20:
            cap['n'] += 1
            rec.violation('wrap_identity_' + w_['kind'], 'wrap-not-integer', 'wrap count %r is not an integer' % (w,), dict(w_, wrap=repr(w)))
    elif err > tol:
        if cap['n'] < 20:
            cap['n'] += 1
            rec.violation('wrap_identity_' + w_['kind'], 'identity',
                          'wrapPos(%r) on %s %r..%r -> (%r, %r): pos + wrap*width differs from the unwrapped position %.17g by %.3g (allowed %.3g)' % (
                              v, w_['kind'], ll, rl, w, pos, float(U), err, tol), dict(w_, wrap=w, pos=pos, unwrapped=float(U), error=err, allowed=tol))
    if math.isfinite(tol_l2p) and l2p_err > tol_l2p and not extreme:
        if cap['n'] < 20:
            cap['n'] += 1
            rec.violation('l2p_vs_exact', 'l2p', 'L2P(%r) on %s %r..%r = %r, unwrapped position is %.17g (error %.3g allowed %.3g)' % (
                v, w_['kind'], ll, rl, l2p, float(U), l2p_err, tol_l2p), dict(w_, l2p=l2p, unwrapped=float(U), error=l2p_err, allowed=tol_l2p))
    return w


def run_wrap(ctx, n):
    from TotalDepth.util.plot import PRESCfg as P
    rec, rng = ctx.rec, ctx.rng
    cap = {'n': 0}
    sample_done = False
    for i in range(n):
        extreme = i % 25 == 24
        case = gen_wrap_case(rng, extreme)
        log, lp, rp, ll, rl, v, (bname, bu), vc = case
        w = check_wrap_case(rec, P, case, cap)
        nt = (w is not None and w != 0) or vc in ('on-edge', 'next-to-edge')
        classes = ['wrap:log' if log else 'wrap:lin', 'wrap:dir-' + ('increasing' if rl > ll else 'decreasing'), 'wrap:backup-' + bname, 'wrap:value-' + vc]
        if extreme:
            classes.append('wrap:extreme-magnitudes')
        if w is not None:
            classes.append('wrap:count-' + ('0' if w == 0 else '+-1' if abs(w) == 1 else '2..9' if abs(w) < 10 else '10..1e6' if abs(w) < 1e6 else '>1e6'))
        rec.case(('w', log, lp, rp, float(ll).hex(), float(rl).hex(), float(v).hex(), bname), nt, classes=classes,
                 sample=None if sample_done or w in (None, 0) else {'kind': 'log' if log else 'lin', 'leftP': lp, 'rightP': rp, 'leftL': ll, 'rightL': rl, 'value': v, 'wrap': w})
        if w not in (None, 0):
            sample_done = True
        # the back-up mode never changes the mapping
    # offScale semantics of the back-up tuples (used by the SVG model): exhaustive small scope, differential against the definition
    for bname, bu in BACKUPS:
        t = P.LineTransLin(0.0, 1.0, 0.0, 1.0, bu)
        for w in range(-4, 5):
            exp = 0
            if bname == 'none' and w != 0:
                exp = -1 if w < 0 else 1
            elif bname == 'once' and abs(w) > 1:
                exp = -1 if w < 0 else 1
            elif bname == 'twice' and abs(w) > 2:
                exp = -1 if w < 0 else 1
            elif bname == 'left' and w > 0:
                exp = 1
            elif bname == 'right' and w < 0:
                exp = -1
            rec.mon('backup_offscale')
            if t.offScale(w) != exp:
                rec.violation('backup_offscale', 'offscale', 'back-up %s: offScale(%d) = %r expected %r' % (bname, w, t.offScale(w), exp), {'backup': bname, 'wrap': w})


# ------------------------------------------------------------------------------------------------ SVG oracle
def parse_svg(path):
    """-> (lxml root or None, [(parser, error)])"""
    import xml.etree.ElementTree as ET
    from lxml import etree
    errs = []
    with open(path, 'rb') as f:
        raw = f.read()
    try:
        ET.fromstring(raw)
    except Exception as e:  # noqa
        errs.append(('expat', '%s: %s' % (type(e).__name__, e)))
    root = None
    try:
        root = etree.fromstring(raw, etree.XMLParser(resolve_entities=False, no_network=True, load_dtd=False))
    except Exception as e:  # noqa
        errs.append(('lxml', '%s: %s' % (type(e).__name__, e)))
    return root, errs, raw


RE_OUT = re.compile(r'Output (.*?) (START|END)')


def _section_name(text):
    """The output name of a section comment.  The writer escapes markup characters in comment text as it does in character
    data (a parser hands a comment over literally), so a channel called Q> is announced as Q&gt; - undo that."""
    from xml.sax.saxutils import unescape
    return unescape(text.strip(), {'&quot;': '"', '&apos;': "'", '&#39;': "'", '&#34;': '"'}).strip()


def svg_sections(root):
    """[(section name or None, [(x, y)], tag)] for every polyline / polygon / path in document order."""
    from lxml import etree
    out = []
    cur = None
    for e in root.iter():
        if isinstance(e, etree._Comment):
            m = RE_OUT.search(e.text or '')
            if m:
                cur = _section_name(m.group(1)) if m.group(2) == 'START' else None
            continue
        if not isinstance(e.tag, str):
            continue
        tag = e.tag.rsplit('}', 1)[-1]
        if tag in ('polyline', 'polygon'):
            pts = []
            for tok in (e.get('points') or '').split():
                a, b = tok.split(',')
                pts.append((float(a), float(b)))
            out.append((cur, pts, tag))
        elif tag == 'path':
            nums = [float(x) for x in re.findall(r'[-+]?\d*\.?\d+(?:[eE][-+]?\d+)?', e.get('d') or '')]
            out.append((cur, list(zip(nums[0::2], nums[1::2])), tag))
    return out


def svg_started(root):
    """Names of the outputs for which the plot opened a section ("Output NAME START" comment), with or without polylines."""
    from lxml import etree
    out = set()
    for e in root.iter():
        if isinstance(e, etree._Comment):
            m = RE_OUT.search(e.text or '')
            if m and m.group(2) == 'START':
                out.add(_section_name(m.group(1)))
    return out


def wrap_signatures(values, absent, scales):
    """Per frame: the tuple of wrap counts of the value on every scale it is drawn with, or None when the frame is absent or a wrap
    count is not certain (value next to a scale edge, no position on a logarithmic scale)."""
    from tdv.gen import plotsrc as PS
    out = []
    for i, v in enumerate(values):
        if i in absent:
            out.append(None)
            continue
        sig = []
        for l, r, lg in scales:
            try:
                e = PS.exact_wrap(v, l, r, lg) if l != r and not (lg and (l <= 0 or r <= 0)) else None
            except (ValueError, ZeroDivisionError, OverflowError):
                e = None
            if e is None or e[1] < Fraction(1, 10 ** 4) or e[1] > 1 - Fraction(1, 10 ** 4):
                sig = None
                break
            sig.append(e[0])
        out.append(tuple(sig) if sig is not None else None)
    return out


def check_svg(rec, path, what, cap, model=None, film=None, ref_name=None, absent_by_section=None, nframes=None, witness=None, wraps_by_section=None):
    """Parse one SVG and apply the oracles.  Returns number of curve polylines (or None when unparseable)."""
    wit = dict(witness or {})
    wit['plot'] = what
    root, errs, raw = parse_svg(path)
    rec.mon('svg_wellformed')
    rec.add('svg_bytes', len(raw))
    if errs:
        if cap['n'] < 20:
            cap['n'] += 1
            rec.violation('svg_wellformed', 'unparseable', '%s: %s' % (what, errs[0][1]), dict(wit, errors=errs, head=raw[:300]))
        return None
    vb = (root.get('viewBox') or '').split()
    try:
        x0, y0, W, H = [float(t) for t in vb]
    except Exception:  # noqa
        rec.violation('svg_in_viewbox', 'no-viewbox', '%s: viewBox %r' % (what, root.get('viewBox')), wit)
        return None
    secs = svg_sections(root)
    npoly = len(secs)
    rec.add('svg_polylines', npoly)
    bad_vb = bad_m = 0
    for name, pts, tag in secs:
        rec.add('svg_points', len(pts))
        for (x, y) in pts:
            if not (x0 - TOL_PT <= x <= x0 + W + TOL_PT and y0 - TOL_PT <= y <= y0 + H + TOL_PT) or x != x or y != y:
                bad_vb += 1
                if bad_vb == 1 and cap['n'] < 20:
                    cap['n'] += 1
                    rec.violation('svg_in_viewbox', 'outside-viewbox', '%s: output %s point (%r, %r) outside viewBox %s' % (what, name, x, y, ' '.join(vb)),
                                  dict(wit, output=name, point=[x, y], viewBox=vb))
            if not (MARGIN_L - TOL_PT <= x <= MARGIN_R + TOL_PT):
                bad_m += 1
                if bad_m == 1 and cap['n'] < 20:
                    cap['n'] += 1
                    rec.violation('svg_in_margins', 'outside-margins', '%s: output %s point x=%r outside the plot margins %r..%r' % (what, name, x, MARGIN_L, MARGIN_R),
                                  dict(wit, output=name, point=[x, y]))
    rec.mon('svg_in_viewbox')
    rec.mon('svg_in_margins')
    if model is None and not absent_by_section:
        return npoly
    # ---- frame depths from the reference curve
    yref = None
    if ref_name is not None:
        # the reference channel may feed several curves of the format: each gives the same depths
        polys = [pts for name, pts, tag in secs if name == ref_name]
        ys = []
        seen = set()
        const_x = all(len({round(x, 1) for x, y in pts}) == 1 for pts in polys)
        for pts in polys:
            for x, y in pts:
                if y not in seen:
                    seen.add(y)
                    ys.append(y)
        mono = all(b > a for a, b in zip(ys, ys[1:])) or all(b < a for a, b in zip(ys, ys[1:]))
        if nframes is not None and len(ys) in (nframes - 2, nframes - 1, nframes) and const_x and mono and polys:
            yref = ys
        else:
            rec.add('reference_curve_unusable')
            rec.note('reference_unusable_example', {'plot': what, 'ref': ref_name, 'polylines': len(polys), 'depths': len(ys), 'frames': nframes, 'const_x': const_x})
    if yref is None:
        return npoly
    # ---- no point for absent values
    if model is not None and wraps_by_section is None and absent_by_section:
        wraps_by_section = {}
        fm_ = model.films[film]
        for sec, absent in absent_by_section.items():
            try:
                cs = [c for c in model.curves if fm_.ident in [f for f in c.films(model)] and c.outp.strip().decode('ascii') == sec]
                vals_ = model.channels[(sec.encode('ascii') + b'    ')[:4]]
            except (KeyError, UnicodeError):
                continue
            if cs:
                wraps_by_section[sec] = wrap_signatures(vals_, absent, [(c.ledg, c.redg, c.log) for c in cs])
    for sec, absent in sorted((absent_by_section or {}).items()):
        if not absent:
            continue
        ys = sorted(y for name, pts, tag in secs if name == sec for (x, y) in pts)
        rec.mon('svg_no_point_for_absent')
        hit = None
        import bisect
        sigs = (wraps_by_section or {}).get(sec)
        for i in sorted(absent):
            if i >= len(yref):
                continue
            # an absent run between two frames on different wraps is crossed by the wrap lines of that change: their points lie on
            # the track edges at depths spread over the gap (an absent frame's depth among them when frames are close on paper or
            # the wrap count is large).  Judged only where no such lines can be: the run touches an end of the log, or both
            # neighbours certainly have the same wrap count on every scale of the output
            a = next((j for j in range(i - 1, -1, -1) if j not in absent), None)
            b = next((j for j in range(i + 1, len(yref)) if j not in absent), None)
            if a is not None and b is not None:
                if sigs is None or a >= len(sigs) or b >= len(sigs) or sigs[a] is None or sigs[b] is None or sigs[a] != sigs[b]:
                    rec.add('absent_frames_inside_a_wrap_change_not_judged')
                    continue
            rec.add('absent_frames_judged')
            k = bisect.bisect_left(ys, yref[i] - TOL_PT)
            if k < len(ys) and ys[k] <= yref[i] + TOL_PT:
                hit = (i, ys[k])
                break
        if hit and cap['n'] < 20:
            cap['n'] += 1
            rec.violation('svg_no_point_for_absent', 'point-at-absent-frame',
                          '%s: output %s has a curve point at y=%r, the depth of frame %d whose value is absent' % (what, sec, hit[1], hit[0]),
                          dict(wit, output=sec, frame=hit[0], y=hit[1], absent_frames=sorted(absent)[:40], frames=len(yref),
                               frame_depths_around=yref[max(0, hit[0] - 3):hit[0] + 4],
                               points_around=[[x, y] for name, pts, tag in secs if name == sec for (x, y) in pts if abs(y - hit[1]) < 3.0][:40]))
    if model is None:
        return npoly
    # ---- generated FILM/PRES: track limits and point-by-point explanation
    fm = model.films[film]
    by_out = {}
    for c in model.curves:
        if fm.ident in [f for f in c.films(model)]:
            by_out.setdefault(c.outp.strip().decode('ascii'), []).append(c)
    # every output that feeds a curve of this film has its section in the plot (a curve dropped from the film's
    # configuration altogether would otherwise leave nothing to compare)
    started = svg_started(root)
    gone = sorted(o for o in by_out if o not in started)
    if gone and cap['n'] < 20:
        cap['n'] += 1
        rec.violation('svg_points_explained', 'curve-section-missing', '%s: the plot has no section for output(s) %r although the PRES table sends %s to this film' % (
            what, gone, [repr(c.mnem) for o in gone for c in by_out[o]]), dict(wit, outputs=gone, sections=sorted(started)))
    for sec in sorted({name for name, pts, tag in secs if name is not None}):
        curves = by_out.get(sec)
        if not curves:
            continue
        tracks = []
        for c in curves:
            tl, tr = c.track(fm)
            tracks.append((MARGIN_L + tl * 96.0, MARGIN_L + tr * 96.0))
        # expected data points per curve
        vals = model.channels[(sec.encode('ascii') + b'    ')[:4]]
        expected = []          # (x, y, frame, curve index)
        from tdv.gen import plotsrc as PS
        for ci, c in enumerate(curves):
            xl, xr = tracks[ci]
            for i in range(len(yref)):
                v = vals[i]
                if v == model.null:
                    continue
                r = PS.exact_wrap(v, c.ledg, c.redg, c.log)
                if r is None:
                    continue
                w, fr = r
                # the double evaluation of the normalised position carries a relative error of a few eps: its effect on the
                # in-track position grows with |wrap|; when it reaches a quarter of the track the position is unconstrained
                slack = 16 * EPS * (abs(w) + 1) * (xr - xl) * (1 + (1 / abs(math.log(c.redg / c.ledg)) if c.log else 0))
                if slack > (xr - xl) / 4:
                    expected.append((i, ci, None, 0.0 if c.on_scale(w) else -1.0))     # -1: suppressed by the back-up mode, no point at all
                    continue
                cands = [(w, fr)]
                edge = Fraction(1, 10 ** 6) + Fraction(slack / (xr - xl))
                if fr < edge:
                    cands.append((w - 1, Fraction(1)))
                elif fr > 1 - edge:
                    cands.append((w + 1, Fraction(0)))
                expected.append((i, ci, [(ww, xl + float(ff) * (xr - xl)) for ww, ff in cands], slack))
        sec_polys = [pts for name, pts, tag in secs if name == sec]
        rec.mon('svg_in_track')
        for pts in sec_polys:
            ok = any(all(xl - TOL_PT <= x <= xr + TOL_PT for x, y in pts) for xl, xr in tracks)
            if not ok and cap['n'] < 20:
                cap['n'] += 1
                rec.violation('svg_in_track', 'outside-track', '%s: output %s polyline leaves its track (tracks %r): %r' % (what, sec, tracks, pts[:6]),
                              dict(wit, output=sec, tracks=tracks, points=pts[:40]))
                break
        # every expected on-scale data point is there; every point is a data point or an edge point
        rec.mon('svg_points_explained')
        allpts = [(x, y) for pts in sec_polys for x, y in pts]
        ymap = {}
        for x, y in allpts:
            ymap.setdefault(round(y, 1), []).append(x)
        missing = None
        data_xy = set()
        wild_y = set()
        for i, ci, cands, slack in expected:
            c = curves[ci]
            y = yref[i]
            if cands is None:
                if slack == 0.0:
                    for dy in (-0.1, 0.0, 0.1):
                        wild_y.add(round(y + dy, 1))
                continue
            need = [xx for ww, xx in cands if c.on_scale(ww)]
            xs_here = [x for k in (round(y - 0.1, 1), round(y, 1), round(y + 0.1, 1)) for x in ymap.get(k, [])]
            for ww, xx in cands:
                if not c.on_scale(ww):
                    continue            # a wrap that the back-up mode suppresses explains no point
                for dx in (-0.1, 0.0, 0.1):
                    data_xy.add((round(xx + dx, 1), round(y, 1)))
                if slack > 0.02:
                    for j in range(int(slack / 0.1) + 2):
                        data_xy.add((round(xx + 0.1 * j, 1), round(y, 1)))
                        data_xy.add((round(xx - 0.1 * j, 1), round(y, 1)))
            if len(need) == len(cands) and need:
                if not any(abs(x - xx) <= TOL_PT + 0.05 + slack for x in xs_here for xx in need):
                    missing = (i, ci, need, y, xs_here[:6])
                    break
        if missing and cap['n'] < 20:
            cap['n'] += 1
            i, ci, need, y, near = missing
            c = curves[ci]
            rec.violation('svg_points_explained', 'data-point-missing',
                          '%s: curve %r (scale %r..%r %s, mode %r) frame %d value %r: expected a point at x=%r y=%r, found x=%r at that depth' % (
                              what, c.mnem, c.ledg, c.redg, 'log' if c.log else 'lin', c.mode, i, vals[i], need, y, near),
                          dict(wit, output=sec, curve=repr(c.mnem), ledg=c.ledg, redg=c.redg, log=c.log, mode=repr(c.mode), frame=i, value=vals[i], expected_x=need, y=y, found_x=near))
        # ---- side of the track edge at a wrap: leaving towards a higher wrap count goes to the right edge, the curve
        # re-enters from the left edge (and the reverse); judged for outputs that feed one curve, on unambiguous frames
        if len(curves) == 1:
            c = curves[0]
            xl, xr = tracks[0]
            seq = []                       # frames with a computed wrap, in plotting order: (frame, wrap or None when ambiguous)
            expx = {}
            for i, ci, cands, slack in expected:
                if cands is None or len(cands) != 1 or slack > 0.02:
                    seq.append((i, None))
                else:
                    seq.append((i, cands[0][0]))
                    expx[i] = cands[0][1]
            # frames whose value has no position at all (non-positive on a log scale) keep the previous wrap: they are not in seq
            pos_in_seq = {i: k for k, (i, w) in enumerate(seq)}
            ykey = {round(y, 1): i for i, y in enumerate(yref)}

            def token(pt):
                x, y = pt
                fr = None
                for dy in (0.0, -0.1, 0.1):
                    i = ykey.get(round(y + dy, 1))
                    if i is not None and i in expx and abs(expx[i] - x) <= TOL_PT + 0.05:
                        fr = i
                        break
                eL, eR = abs(x - xl) <= TOL_PT, abs(x - xr) <= TOL_PT
                return fr, eL, eR
            rec.mon('svg_edge_side')
            wrong = None
            for pts in sec_polys:
                toks = [token(pt) for pt in pts]
                for a, b, pa, pb in zip(toks, toks[1:], pts, pts[1:]):
                    fa, aL, aR = a
                    fb, bL, bR = b
                    if fa is not None and not (aL or aR) and fb is None and (bL != bR):
                        k = pos_in_seq.get(fa)
                        if k is None or k + 1 >= len(seq) or seq[k][1] is None or seq[k + 1][1] is None or seq[k + 1][1] == seq[k][1]:
                            continue
                        want_right = seq[k + 1][1] > seq[k][1]
                        if want_right != bR:
                            wrong = ('leaves', fa, seq[k][1], seq[k + 1][1], pa, pb)
                    elif fb is not None and not (bL or bR) and fa is None and (aL != aR):
                        k = pos_in_seq.get(fb)
                        if k is None or k == 0 or seq[k][1] is None or seq[k - 1][1] is None or seq[k - 1][1] == seq[k][1]:
                            continue
                        want_left = seq[k][1] > seq[k - 1][1]
                        if want_left != aL:
                            wrong = ('enters', fb, seq[k - 1][1], seq[k][1], pa, pb)
                if wrong:
                    break
            if wrong and cap['n'] < 20:
                cap['n'] += 1
                rec.violation('svg_edge_side', 'wrong-edge',
                              '%s: curve %r %s the track at frame %d on the wrong side: wrap count goes %d -> %d but the segment is %r -> %r (track %r..%r)' % (
                                  what, c.mnem, wrong[0], wrong[1], wrong[2], wrong[3], wrong[4], wrong[5], xl, xr),
                              dict(wit, output=sec, curve=repr(c.mnem), frame=wrong[1], wrap_before=wrong[2], wrap_after=wrong[3], segment=[wrong[4], wrong[5]], track=[xl, xr]))
        stray = None
        yset = sorted(yref)
        import bisect
        for x, y in allpts:
            on_edge = any(abs(x - e) <= TOL_PT for t in tracks for e in t)
            if on_edge:
                continue
            # a data point of some frame?
            k = bisect.bisect_left(yset, y - TOL_PT)
            at_frame = k < len(yset) and yset[k] <= y + TOL_PT
            if at_frame and (round(y, 1) in wild_y or any((round(x + dx, 1), round(y + dy, 1)) in data_xy for dx in (-0.1, 0, 0.1) for dy in (-0.1, 0, 0.1))):
                continue
            stray = (x, y, at_frame)
            break
        if stray and cap['n'] < 20:
            cap['n'] += 1
            rec.violation('svg_points_explained', 'unexplained-point',
                          '%s: output %s has a point (%r, %r) that is neither the position of a frame value nor on a track edge' % (what, sec, stray[0], stray[1]),
                          dict(wit, output=sec, point=[stray[0], stray[1]], at_frame_depth=stray[2], tracks=tracks))
    return npoly


# ------------------------------------------------------------------------------------------------ (b) plots
def _h(b):
    return hashlib.blake2b(b, digest_size=12).hexdigest()


def _tmp(ctx, name):
    d = os.environ.get('VERIF_SHARD_TMP') or '.'
    os.makedirs(d, exist_ok=True)
    return os.path.join(d, name)


def plot_generated_lis(ctx, k, cap, single_record=False):
    """One generated LIS file with FILM / PRES tables, every film plotted; for every other file a second log pass (other
    data, another absent value, same curves) is plotted with the *same* Plot object, as a caller that keeps the plot
    configuration of a run of files would."""
    from tdv.gen import plotsrc as PS
    from TotalDepth.LIS.core import File, FileIndexer, LogiRec
    from TotalDepth.util.plot import Plot
    rec = ctx.rec
    rng = ctx.sub_rng('gen', k, single_record)
    spec = PS.random_plot_spec(rng)
    if single_record:
        spec['single_record'] = True
    data, m = PS.lis_plot_file(rng, spec)
    fp = _tmp(ctx, 'gen%d%s.lis' % (k, 's' if single_record else ''))
    with open(fp, 'wb') as f:
        f.write(data)
    # scale override of the plot (0 = the film's own scale); never smaller-scaled than the films (frame spacing, see plotsrc)
    maxscale = max(f.scale for f in m.films.values())
    override = rng.choice([0, 0, 0] + [x for x in (20, 40, 100, 200, 240) if x <= maxscale])
    fi = File.FileRead(fp, theFileId=fp, keepGoing=False)
    idx = FileIndexer.FileIndex(fi)
    nrec = 0
    pl = None
    for prs in idx.genPlotRecords(fromInternalRecords=True):
        nrec += 1
        lp = prs.logPass
        fi.seekLr(prs.tellFilm)
        lrF = LogiRec.LrTableRead(fi)
        fi.seekLr(prs.tellPres)
        lrP = LogiRec.LrTableRead(fi)
        try:
            pl = Plot.PlotReadLIS(lrF, lrP, theScale=override) if override else Plot.PlotReadLIS(lrF, lrP)
        except Exception as e:  # noqa - the FILM / PRES tables are well formed: no plot configuration means no plot
            pl = None
            rec.mon('lis_produces_plot')
            rec.case(('genplot', _h(data), 'config'), False, classes=['plot:lis-film', 'plot:raised'] + ['pres:without-' + d for d in m.dropped_columns])
            if cap['n'] < 20:
                cap['n'] += 1
                rec.violation('lis_produces_plot', 'raises', 'reading the FILM and PRES tables of a generated LIS file raised %s: %s (PRES columns dropped: %s)' % (
                    type(e).__name__, e, m.dropped_columns or 'none'),
                    {'source': 'generated LIS', 'exception': type(e).__name__, 'message': str(e)[:300], 'dropped_columns': m.dropped_columns,
                     'films': [[repr(f.ident), repr(f.gcod), repr(f.gdec), repr(f.dsca)] for f in m.films.values()],
                     'curves': [[repr(c.mnem), repr(c.outp), repr(c.trac), repr(c.dest), repr(c.mode), c.ledg, c.redg] for c in m.curves], 'data_records': -(-len(m.x) // m.frames_per_record)}, exc=e)
            continue
        if lp.totalFrames != len(m.x):
            raise RuntimeError('generated LIS file not read as written: %d frames, model %d' % (lp.totalFrames, len(m.x)))
        _plot_films(ctx, cap, pl, fi, lp, m, data, 'gen%d' % k, override, [])
    if nrec == 0:
        raise RuntimeError('generated LIS file yields no plot record set')
    if pl is None or single_record or k % 2 == 0:
        return
    # ---- a second log pass through the same Plot object
    spec2 = dict(spec, no_drop=True, shapes=None, nframes=rng.choice([12, 40, 80]), x0=rng.choice([500.0, 4321.5, 9000.0]),
                 null=rng.choice([x for x in PS.NULLS if PS.q68(x) != m.null]))
    data2, m2 = PS.lis_plot_file(rng, spec2)
    fp2 = _tmp(ctx, 'gen%db.lis' % k)
    with open(fp2, 'wb') as f:
        f.write(data2)
    fi2 = File.FileRead(fp2, theFileId=fp2, keepGoing=False)
    for prs in FileIndexer.FileIndex(fi2).genPlotRecords(fromInternalRecords=True):
        lp2 = prs.logPass
        if lp2.totalFrames != len(m2.x):
            raise RuntimeError('generated LIS file not read as written: %d frames, model %d' % (lp2.totalFrames, len(m2.x)))
        _plot_films(ctx, cap, pl, fi2, lp2, m2, data2, 'gen%db' % k, override, ['plot:second-log-pass-same-Plot-object'])
    try:
        os.unlink(fp2)
    except OSError:
        pass


def _plot_films(ctx, cap, pl, fi, lp, m, data, stem, override, extra_classes):
    """Plot every film of the Plot object for one log pass and judge the SVG against the model of that log pass."""
    rec = ctx.rec
    for film in sorted(pl.filmIdS(), key=lambda mm: mm.m):
        fid = (film.m.replace(b'\x00', b' ') + b'    ')[:4]
        fm = m.films[fid]
        curves_here = [c for c in m.curves if fid in c.films(m)]
        classes = ['plot:lis-film', 'film:' + fm.gcod.decode().strip() + '/' + fm.gdec.decode().strip(), 'film:scale-%d' % fm.scale,
                   'plot:up' if m.up else 'plot:down', 'plot:x-units-' + m.x_units.decode().strip(), 'plot:films-%d' % len(m.films),
                   'plot:absent-value-%r' % m.null] + list(extra_classes)
        if override:
            classes.append('plot:scale-override-%d' % override)
        classes += ['pres:without-' + d for d in getattr(m, 'dropped_columns', [])]
        for c in curves_here:
            classes.append('curve:mode-' + c.mode.decode('ascii').strip())
            classes.append('curve:log' if c.log else 'curve:lin')
            classes.append('curve:trac-' + c.trac.decode().strip())
            classes.append('curve:shape-' + str(m.shapes.get(c.outp)))
            d = c.dest.strip()
            classes.append('curve:dest-' + ('ALL' if d == b'ALL' else 'BOTH' if d == b'BOTH' else 'one-film' if len(d) == 1 else 'several-films-by-character'))
        wit = {'source': 'generated LIS', 'lis': data if len(data) < 4000 else data[:4000], 'film': repr(fid), 'gcod': repr(fm.gcod), 'gdec': repr(fm.gdec), 'scale': fm.scale,
               'scale_override': override, 'up': m.up, 'absent_value': m.null, 'history': list(extra_classes),
               'frames': len(m.x), 'frames_per_record': m.frames_per_record,
               'curves': [[repr(c.mnem), repr(c.outp), repr(c.trac), repr(c.dest), repr(c.mode), c.ledg, c.redg] for c in curves_here]}
        out = _tmp(ctx, '%s_%s.svg' % (stem, fid.decode().strip()))
        rec.mon('lis_produces_plot')
        try:
            has = pl.hasDataToPlotLIS(lp, film)
            x_from, x_to = lp.xAxisFirstEngVal, lp.xAxisLastEngVal
            urng = ctx.sub_rng('interval-units', stem, fid)
            if urng.random() < 0.3 and x_from.value is not None and x_to.value is not None:
                # the same interval stated in another unit of length than the one the log is recorded in (nudged inwards by 1e-9:
                # an interval that reaches beyond the log by a rounding error is refused by design): the plot is the same plot
                from TotalDepth.LIS.core import EngVal as _EV, Units as _U
                u2 = urng.choice([u for u in (b'FEET', b'M   ', b'.1IN', b'IN  ') if u != x_from.uom])
                out_sign = 1.0 if x_from.value > x_to.value else -1.0
                a = _U.convert(x_from.value, x_from.uom, u2)
                b = _U.convert(x_to.value, x_to.uom, u2)
                x_from = _EV.EngVal(a - out_sign * (abs(a) + 1.0) * 1e-9, u2)
                x_to = _EV.EngVal(b + out_sign * (abs(b) + 1.0) * 1e-9, u2)
                classes = classes + ['plot:interval-in-other-units']
                wit['interval'] = '%r %s .. %r %s' % (x_from.value, u2, x_to.value, u2)
            r = pl.plotLogPassLIS(fi, lp, x_from, x_to, film, out, frameStep=1, title='Plot <&> "%s"' % fid.decode()) if has else (None, None)
        except Exception as e:  # noqa
            rec.case(('genplot', _h(data), fid), False, classes=classes + ['plot:raised'])
            if cap['n'] < 20:
                cap['n'] += 1
                rec.violation('lis_produces_plot', 'raises', 'plotting generated LIS film %r raised %s: %s' % (fid, type(e).__name__, e),
                              dict(wit, exception=type(e).__name__, message=str(e)[:300], data_records=-(-len(m.x) // m.frames_per_record)), exc=e)
            continue
        if not has or r[0] is None or not os.path.exists(out):
            rec.case(('genplot', _h(data), fid), False, classes=classes + ['plot:none'])
            if curves_here and cap['n'] < 20:
                cap['n'] += 1
                rec.violation('lis_produces_plot', 'no-plot', 'LIS log pass with curves for film %r produced no plot (hasDataToPlotLIS=%r)' % (fid, has), wit)
            continue
        absent = {}
        for c in curves_here:
            absent.setdefault(c.outp.strip().decode('ascii'), set()).update(m.absent.get(c.outp, set()))
        n = check_svg(rec, out, 'generated LIS film %r' % fid, cap, model=m, film=fid, ref_name='REF', absent_by_section=absent, nframes=len(m.x), witness=wit)
        rec.case(('genplot', _h(data), fid), bool(n), classes=classes,
                 sample={'source': 'generated LIS', 'film': repr(fid), 'gcod': repr(fm.gcod), 'scale': fm.scale, 'frames': len(m.x), 'polylines': n,
                         'curves': wit['curves'][:4]})
        # only the reference curve (an in-scale constant) is certain to leave a polyline: other shapes may be absent throughout
        if n == 0 and any(c.outp == b'REF ' for c in curves_here) and cap['n'] < 20:
            cap['n'] += 1
            rec.violation('lis_produces_plot', 'no-curve', 'plot of film %r has no curve polyline' % fid, wit)
        try:
            os.unlink(out)
        except OSError:
            pass


def xml_curve_table(formats_dir):
    """{UniqueId: {channel: [(left, right, log)]}} from the LgFormat data files."""
    import xml.etree.ElementTree as ET
    out = {}
    for fn in sorted(os.listdir(formats_dir)):
        if not fn.endswith('.xml'):
            continue
        root = ET.parse(os.path.join(formats_dir, fn)).getroot()
        uid = root.get('UniqueId')
        d = {}
        for e in root.iter():
            if e.tag.endswith('}LgCurve'):
                f = {c.tag.rsplit('}', 1)[-1]: (c.text or '').strip() for c in e}
                if not f.get('ChannelName'):
                    continue
                try:
                    l, r = float(f.get('LeftLimit', 0) or 0), float(f.get('RightLimit', 0) or 0)
                except ValueError:
                    continue
                d.setdefault(f['ChannelName'], []).append((l, r, f.get('Transform') == 'LG_LOGARITHMIC'))
        out[uid] = d
    return out


def configured_outputs(table):
    """{UniqueId: set of channel names the format really configures a curve for}: a format file may name channels on tracks
    the reader does not support; "a curve named by the plot format" is taken as "named in the file and configured"."""
    from TotalDepth.util.plot import FILMCfgXML, PRESCfgXML
    fc = FILMCfgXML.FilmCfgXMLRead()
    out = {}
    for uid in sorted(table):
        try:
            pc = PRESCfgXML.PresCfgXMLRead(fc, uid)
            out[uid] = {o.pStr(strip=True) for o in pc.outpChIDs(fc[uid].name)}
        except KeyError:
            out[uid] = set()       # a format without curves (blank grids)
    return out


def pick_reference(chmap, names):
    """A channel of the format whose curves are all linear with a common interior value -> (name, value)."""
    for nm in names:
        cs = chmap.get(nm) or []
        if not cs or any(lg or l == r for l, r, lg in cs):
            continue
        lo = max(min(l, r) for l, r, lg in cs)
        hi = min(max(l, r) for l, r, lg in cs)
        if lo < hi:
            return nm, lo + (hi - lo) * 0.375
    return None, None


def inside_all(cs, v):
    return bool(cs) and all((not lg) and min(l, r) < v < max(l, r) for l, r, lg in cs)


def _plot_for(ctx, rng, uid, classes, scales=None):
    """A Plot object for an XML format: half of the time the one this shard already used for earlier log passes (LIS and LAS,
    other absent values, other channels), as a caller that keeps one configured Plot per format would."""
    from TotalDepth.util.plot import Plot
    cache = ctx.__dict__.setdefault('plot_objects', {})
    # "at every scale": a third of the plots override the format's own depth scale, from 1:2 (half a frame spacing is then
    # centimetres of paper, more than any margin absorbs) to 1:1000; any integer is a legal scale (unknown ones get the default grid)
    scale = rng.choice(scales or [0, 0, 0, 0, 2, 5, 10, 25, 40, 1000])
    if scale:
        classes.append('plot:xml-format-scale-override-%d' % scale)
    if rng.random() < 0.5:
        if (uid, scale) in cache:
            classes.append('plot:Plot-object-used-before')
        else:
            cache[(uid, scale)] = Plot.PlotReadXML(uid, theScale=scale) if scale else Plot.PlotReadXML(uid)
        return cache[(uid, scale)]
    return Plot.PlotReadXML(uid, theScale=scale) if scale else Plot.PlotReadXML(uid)


def plot_xml_lis(ctx, k, cap, table, conf):
    from tdv.gen import plotsrc as PS
    from TotalDepth.LIS.core import File, FileIndexer
    from TotalDepth.util.plot import Plot
    rec = ctx.rec
    rng = ctx.sub_rng('xml', k)
    uids = [u for u in sorted(table) if conf[u]]
    # channel names: those of one format plus a few of others; LIS mnemonics hold 4 characters
    uid0 = uids[(ctx.shard * 7 + k) % len(uids)]
    pool = [n for n in table[uid0] if len(n) <= 4 and n in conf[uid0]]
    extra = sorted({n for u in uids for n in table[u] if len(n) <= 4 and n in conf[u]})
    ref, refval = pick_reference(table[uid0], pool)
    names = [ref] if ref else []
    for n in rng.sample(pool, min(len(pool), 9)) + rng.sample(extra, min(6, len(extra))):
        if n not in names:
            names.append(n)
    if not names:
        return
    spec = PS.xml_format_spec(rng, names)
    n = spec['nframes']
    up, x_units = spec['up'], spec['x_units']
    spacing = PS.q68(0.5 if x_units == b'FEET' else 0.1524)
    x0 = spec['x0'] * (1.0 if x_units == b'FEET' else 0.3048)
    xs = [PS.q68(x0 - spacing * i if up else x0 + spacing * i) for i in range(n)]
    chan = {}
    absent = {}
    shapes = {}
    null = PS.q68(rng.choice([x for x in PS.NULLS if x != 0.0]))       # the absent value this log pass declares
    for nm in names:
        cs = table[uid0].get(nm) or [c for u in uids for c in table[u].get(nm, [])][:1] or [(0.0, 1.0, False)]
        l, r, lg = cs[0]
        if l == r or (lg and (l <= 0 or r <= 0)):
            l, r, lg = 0.0, 1.0, False
        if nm == ref:
            shapes[nm] = 'reference'
            v = [PS.q68(refval)] * n
            ab = set()
        else:
            shapes[nm] = rng.choice(['constant', 'ramp', 'sine', 'spiky', 'huge', 'tiny', 'negative', 'absent-runs', 'absent-runs', 'steps', 'zero', 'edge'])
            v = [PS.q68(x) for x in PS.shape_values(rng, shapes[nm], n, l, r)]
            ab = PS.absent_runs(rng, n) if shapes[nm] == 'absent-runs' else set()
        chan[nm] = [null if i in ab else (x if x != null else PS.q68(null + 1 if abs(null) < 1e6 else null / 2)) for i, x in enumerate(v)]
        absent[nm] = ab
    keys = [(nm.encode('ascii') + b'    ')[:4] for nm in names]
    frames = [PS.enc68(xs[i])[0] + b''.join(PS.enc68(chan[nm][i])[0] for nm in names) for i in range(n)]
    per = max(1, min(rng.choice([1, 3, 8, 20]), (n + 1) // 2, (1024 - 6) // len(frames[0])))
    chans = [(b'DEPT', x_units)] + [(kk, b'    ') for kk in keys]
    lrs = [PS.file_head_tail(128), PS.dfsr(chans, up, spacing, x_units, absent=null)] + PS.data_records(frames, per) + [PS.file_head_tail(129)]
    data = PS.physical(lrs)
    fp = _tmp(ctx, 'xml%d.lis' % k)
    with open(fp, 'wb') as f:
        f.write(data)
    fi = File.FileRead(fp, theFileId=fp, keepGoing=False)
    idx = FileIndexer.FileIndex(fi)
    lps = [p.logPass for p in idx.genPlotRecords(fromInternalRecords=False)]
    if not lps or lps[0].totalFrames != n:
        raise RuntimeError('generated XML-format LIS file not read as written')
    lp = lps[0]
    for uid in uids:
        named = [nm for nm in names if nm in table[uid]]
        matching = [nm for nm in named if nm in conf[uid]]
        if named and not matching:
            rec.cls('format-names-channel-it-does-not-configure')
        if not matching:
            continue
        rec.mon('lis_produces_plot')
        wit = {'source': 'generated LIS, channels named for XML formats', 'format': uid, 'channels': names, 'matching': matching,
               'shapes': {nm: shapes[nm] for nm in matching}, 'up': up, 'frames': n, 'lis': data[:3000]}
        out = _tmp(ctx, 'xml%d_%s.svg' % (k, re.sub(r'\W', '_', uid)))
        classes = ['plot:lis-xml-format', 'format:' + uid, 'plot:up' if up else 'plot:down', 'plot:absent-value-%r' % null] + ['curve:shape-%s' % shapes[nm] for nm in matching]
        wit['absent_value'] = null
        try:
            pl = _plot_for(ctx, rng, uid, classes)
            wit['plot_object_used_before'] = 'plot:Plot-object-used-before' in classes
            has = pl.hasDataToPlotLIS(lp, uid)
            r = pl.plotLogPassLIS(fi, lp, lp.xAxisFirstEngVal, lp.xAxisLastEngVal, uid, out, frameStep=1, title='Format %s <&>' % uid) if has else (None, None)
        except Exception as e:  # noqa
            rec.case(('xmlplot', _h(data), uid), False, classes=classes + ['plot:raised'])
            if cap['n'] < 20:
                cap['n'] += 1
                rec.violation('lis_produces_plot', 'raises', 'plotting LIS with format %s raised %s: %s' % (uid, type(e).__name__, e),
                              dict(wit, exception=type(e).__name__, message=str(e)[:300]), exc=e)
            continue
        if not has or r[0] is None:
            rec.case(('xmlplot', _h(data), uid), False, classes=classes + ['plot:none'])
            if cap['n'] < 20:
                cap['n'] += 1
                rec.violation('lis_produces_plot', 'no-plot', 'LIS log pass with channels %r configured by format %s produced no plot' % (matching, uid), wit)
            continue
        # the reference channel is usable in this format when the value written lies strictly inside all of its (linear) scales here
        use_ref = ref if (ref in matching and inside_all(table[uid].get(ref), refval)) else None
        npoly = check_svg(rec, out, 'LIS with XML format %s' % uid, cap, model=None, ref_name=use_ref,
                          absent_by_section={nm: absent[nm] for nm in matching} if use_ref else None, nframes=n, witness=wit,
                          wraps_by_section={nm: wrap_signatures(chan[nm], absent[nm], table[uid][nm]) for nm in matching})
        rec.case(('xmlplot', _h(data), uid), bool(npoly), classes=classes)
        if npoly == 0 and use_ref and cap['n'] < 20:
            cap['n'] += 1
            rec.violation('lis_produces_plot', 'no-curve', 'plot with format %s has no curve polyline although channel %r holds an in-scale constant' % (uid, use_ref), wit)
        try:
            os.unlink(out)
        except OSError:
            pass


def plot_example_lis(ctx, cap, tasks):
    """Repository example files: internal FILM/PRES records and XML formats (containment only)."""
    from TotalDepth.LIS.core import File, FileIndexer, LogiRec
    from TotalDepth.util.plot import Plot
    from tdv.core import env
    rec = ctx.rec
    d = os.path.join(env.REPO, 'example_data', 'LIS', 'data')
    for fn, mode, uid in tasks:
        fp = os.path.join(d, fn)
        fi = File.FileRead(fp, theFileId=fp, keepGoing=True)
        idx = FileIndexer.FileIndex(fi)
        for prs in idx.genPlotRecords(fromInternalRecords=(mode == 'internal')):
            lp = prs.logPass
            if lp.totalFrames < 2:
                continue
            if mode == 'internal':
                fi.seekLr(prs.tellFilm)
                lrF = LogiRec.LrTableRead(fi)
                fi.seekLr(prs.tellPres)
                lrP = LogiRec.LrTableRead(fi)
                pl = Plot.PlotReadLIS(lrF, lrP)
                films = sorted(pl.filmIdS(), key=lambda mm: mm.m)
            else:
                pl = Plot.PlotReadXML(uid)
                films = [uid]
            for film in films:
                if not pl.hasDataToPlotLIS(lp, film):
                    continue
                rec.mon('lis_produces_plot')
                out = _tmp(ctx, 'ex_%s_%s.svg' % (fn[-7:-4], re.sub(r'\W', '_', str(film))))
                wit = {'source': 'example_data/LIS/data/' + fn, 'film': str(film), 'mode': mode}
                try:
                    r = pl.plotLogPassLIS(fi, lp, lp.xAxisFirstEngVal, lp.xAxisLastEngVal, film, out, frameStep=1, title=fn)
                except Exception as e:  # noqa
                    rec.violation('lis_produces_plot', 'raises', 'plotting %s film %s raised %s: %s' % (fn, film, type(e).__name__, e), dict(wit, exception=type(e).__name__), exc=e)
                    continue
                npoly = check_svg(rec, out, '%s film %s' % (fn, film), cap, witness=wit)
                rec.case(('explot', fn, str(film)), bool(npoly), classes=['plot:example-lis-' + mode])
                try:
                    os.unlink(out)
                except OSError:
                    pass


def _cause(e):
    c = e.__context__ or e.__cause__
    return ('%s: %s' % (type(c).__name__, str(c)[:200])) if c is not None else None


def plot_las(ctx, k, cap, table, conf):
    """LAS text whose curves are named by a plot format: must give a plot with at least one curve."""
    from tdv.gen import plotsrc as PS
    from TotalDepth.LAS.core import LASRead
    from TotalDepth.LIS.core import Mnem
    from TotalDepth.util.plot import Plot, XMLMatches
    rec = ctx.rec
    rng = ctx.sub_rng('las', k)
    uids = [u for u in sorted(table) if conf[u]]
    ok = lambda n, u: re.fullmatch(r'[A-Z][A-Z0-9_]*', n) and n in conf[u]   # noqa
    uid0 = uids[(ctx.shard * 5 + k * 3) % len(uids)]
    pool = sorted(set(n for n in table[uid0] if ok(n, uid0)))
    ref, refval = pick_reference(table[uid0], pool)
    names = [ref] if ref else []
    for nm in rng.sample(pool, min(len(pool), rng.randrange(1, 6))):
        if nm not in names:
            names.append(nm)
    from TotalDepth.LAS.core import LASConstants
    vendor = k % 2 == 1 or rng.random() < 0.25
    if vendor:
        for nm in rng.sample(pool, len(pool)):
            if nm in LASConstants.LGFORMAT_LAS and nm not in names and len([n for n in names if n in LASConstants.LGFORMAT_LAS]) < 3:
                names.append(nm)
    if not names:
        return None, [], {}
    up = rng.random() < 0.4
    shapes = {nm: rng.choice(['constant', 'sine', 'ramp', 'spiky', 'absent-runs']) for nm in names}
    # every third file: excursions of many track widths on the last / first frame of two curves, metres, plotted at 1:2 .. 1:10 only
    # (a frame step is then decimetres of paper: whatever is drawn for the excursion has nowhere to hide)
    end_spike = k % 3 == 2
    if end_spike:
        for nm in rng.sample(names, min(len(names), 2)):
            if nm != ref:
                shapes[nm] = 'end-spike'
    # Vendor spellings: LASConstants.LGFORMAT_LAS maps a plot format's channel name to the LAS mnemonics that carry the same
    # measurement (GR <- DLGR, CALI <- CAL, ...).  Every other LAS run names each such curve only by a vendor mnemonic.
    file_name = {nm: nm for nm in names}
    if vendor:
        for nm in names:
            alts = [a for a in LASConstants.LGFORMAT_LAS.get(nm, []) if a not in names]
            if alts:
                file_name[nm] = rng.choice(alts)
    aliased = sorted(nm for nm in names if file_name[nm] != nm)
    fnames = [file_name[nm] for nm in names]
    las_null = rng.choice([-999.25, -999.25, -9999.0, -999.0, -32768.0])
    # depth in feet or metres, sampled every 0.1524 .. 2 units (the paper length of one step decides how far a wrap line can stray)
    las_units, las_step = rng.choice([('FT', 0.5), ('FT', 0.5), ('M', 0.5), ('M', 0.1524), ('M', 1.0), ('FT', 2.0), ('M', 0.25)])
    if end_spike:
        las_units, las_step = 'M', rng.choice([0.5, 1.0])
    text, m = PS.las_plot_text(rng, fnames, nframes=rng.choice([20, 40, 80]), up=up, shapes={file_name[nm]: shapes[nm] for nm in names}, null=las_null,
                               units=las_units, step=las_step)
    if aliased:
        for attr in ('channels', 'shapes', 'absent'):
            d = getattr(m, attr)
            for nm in aliased:
                d[nm] = d.pop(file_name[nm])
        rec.add('las_sources_with_vendor_mnemonics')
    if ref:
        # overwrite the reference column with an in-scale constant
        lines = text.split('\n')
        ia = [i for i, l in enumerate(lines) if l.startswith('~A')][0]
        col = 1 + names.index(ref)
        for i in range(ia + 1, len(lines)):
            t = lines[i].split()
            if len(t) > col:
                t[col] = '%.4f' % refval
                lines[i] = ' ' + ' '.join(t)
        text = '\n'.join(lines)
        m.channels[ref] = [float('%.4f' % refval)] * len(m.x)
        m.absent[ref] = set()
    fp = _tmp(ctx, 'p%d.las' % k)
    with open(fp, 'w') as f:
        f.write(text)
    las = LASRead.LASRead(fp)
    if las.number_of_frames() != len(m.x):
        raise RuntimeError('generated LAS not read as written')
    # mechanism probes, kept in the witness so that the classifier decides by mechanism
    probe = {'has_str': {}, 'has_Mnem': {}}
    for nm in names:
        for key, arg in (('has_str', nm), ('has_Mnem', Mnem.Mnem(nm.encode('ascii'), len_mnem=0))):
            try:
                probe[key][nm] = bool(las.has_output_mnemonic(arg))
            except Exception as e:  # noqa
                probe[key][nm] = 'raises ' + type(e).__name__
    probe['LASRead_lacks'] = [a for a in ('hasOutpMnem', 'genOutpPoints', 'curveUnitsAsStr', 'nullValue', 'xAxisUnits') if not hasattr(las, a)]
    try:
        fmap = XMLMatches.fileCurveMap(las)
        probe['fileCurveMap'] = {u: len(v) for u, v in fmap.items() if v}
    except Exception as e:  # noqa
        probe['fileCurveMap'] = 'raises %s: %s' % (type(e).__name__, str(e)[:120])
    for uid in uids:
        matching = [nm for nm in names if nm in table[uid] and nm in conf[uid]]
        if not matching:
            continue
        rec.mon('las_produces_plot')
        out = _tmp(ctx, 'las%d_%s.svg' % (k, re.sub(r'\W', '_', uid)))
        wit = dict(probe, source='generated LAS', input='LAS', format=uid, curves=names, matching=matching, las=text[:1500],
                   vendor_mnemonics={nm: file_name[nm] for nm in aliased})
        classes = ['plot:las-xml-format', 'format:' + uid, 'plot:absent-value-%r' % las_null, 'plot:las-depth-%s-step-%g' % (las_units, las_step)]
        wit['absent_value'] = las_null
        if any(nm in aliased for nm in matching):
            classes.append('las:vendor-mnemonics-only' if all(nm in aliased for nm in matching) else 'las:vendor-mnemonics-some')
        try:
            pl = _plot_for(ctx, rng, uid, classes, scales=[2, 2, 5, 5, 10] if end_spike else None)
            if end_spike:
                classes.append('las:excursion-on-the-last-or-first-frame')
            wit['plot_object_used_before'] = 'plot:Plot-object-used-before' in classes
            has = pl.hasDataToPlotLAS(las, uid)
            wit['hasDataToPlotLAS'] = bool(has)
            r = pl.plotLogPassLAS(las, las.x_axis_start, las.x_axis_stop, uid, out, frameStep=1, title='LAS <&> %s' % uid)
        except Exception as e:  # noqa
            rec.case(('lasplot', _h(text.encode()), uid), False, classes=classes + ['plot:raised'])
            if cap['las'] < 12:
                cap['las'] += 1
                rec.violation('las_produces_plot', 'raises', 'plotting LAS with format %s raised %s: %s' % (uid, type(e).__name__, e),
                              dict(wit, exception=type(e).__name__, message=str(e)[:300]), exc=e)
            continue
        if r is None or r[0] is None or not os.path.exists(out):
            rec.case(('lasplot', _h(text.encode()), uid), False, classes=classes + ['plot:none'])
            if cap['las'] < 12:
                cap['las'] += 1
                rec.violation('las_produces_plot', 'no-plot',
                              'LAS file with curves %r configured by format %s produced no plot (hasDataToPlotLAS=%r)' % (matching, uid, wit.get('hasDataToPlotLAS')), wit)
            continue
        use_ref = ref if (ref in matching and inside_all(table[uid].get(ref), refval)) else None
        npoly = check_svg(rec, out, 'LAS with XML format %s' % uid, cap, ref_name=use_ref,
                          absent_by_section={nm: m.absent[nm] for nm in matching} if use_ref else None, nframes=len(m.x), witness=wit,
                          wraps_by_section={nm: wrap_signatures(m.channels[nm], m.absent[nm], table[uid][nm]) for nm in matching})
        rec.case(('lasplot', _h(text.encode()), uid), bool(npoly), classes=classes)
        if npoly == 0 and use_ref and cap['las'] < 12:
            cap['las'] += 1
            rec.violation('las_produces_plot', 'no-curve', 'LAS plot with format %s has no curve polyline although curve %r holds an in-scale constant' % (uid, use_ref), wit)
    return fp, names, probe


def plotlogs_end_to_end(ctx, cap, lis_path, las_path, las_names, table, conf, probe):
    """PlotLogs.PlotLogPasses (the command line tool's class) on one generated LIS and one LAS file."""
    import types
    from TotalDepth import PlotLogs
    rec = ctx.rec
    outdir = _tmp(ctx, 'plotlogs')
    os.makedirs(outdir, exist_ok=True)
    for kind, fp in (('LIS', lis_path), ('LAS', las_path)):
        if fp is None:
            continue
        mon = 'lis_produces_plot' if kind == 'LIS' else 'las_produces_plot'
        scale = ctx.sub_rng('plotlogs', kind).choice([0, 0, 100, 200, 500])       # the tool's --scale option (0: the film's / format's own)
        if kind == 'LIS':
            opts = types.SimpleNamespace(recurse=False, keepGoing=True, LgFormat=[], apiHeader=False, LgFormat_min=0, scale=scale)
            wit = {'input': 'LIS', 'source': 'PlotLogs.PlotLogPasses', 'scale_option': scale}
        else:
            fmts = [u for u in sorted(table) if any(n in table[u] and n in conf[u] for n in las_names)][:2]
            opts = types.SimpleNamespace(recurse=False, keepGoing=True, LgFormat=fmts, apiHeader=False, LgFormat_min=0, scale=scale)
            wit = dict(probe, input='LAS', source='PlotLogs.PlotLogPasses', formats=fmts, curves=las_names, scale_option=scale,
                       matching=[n for n in las_names if any(n in conf[u] for u in fmts)])
        dst = os.path.join(outdir, os.path.basename(fp))
        rec.mon('plotlogs_' + kind.lower())
        try:
            plp = PlotLogs.PlotLogPasses(fp, dst, opts)
        except Exception as e:  # noqa
            rec.case(('plotlogs', kind, ctx.shard), False, classes=['plot:PlotLogs-' + kind, 'plot:raised'])
            if cap['las'] < 14:
                cap['las'] += 1
                rec.violation(mon, 'plotlogs-raises', 'PlotLogPasses on the %s file raised %s: %s' % (kind, type(e).__name__, e),
                              dict(wit, exception=type(e).__name__, message=str(e)[:300], cause=_cause(e)), exc=e)
            continue
        svgs = sorted(f for f in os.listdir(outdir) if f.startswith(os.path.basename(fp)) and f.endswith('.svg'))
        rec.case(('plotlogs', kind, ctx.shard), bool(svgs), classes=['plot:PlotLogs-' + kind, 'plot:PlotLogs-scale-option-%d' % scale])
        if not svgs and cap['las'] < 14:
            cap['las'] += 1
            rec.violation(mon, 'plotlogs-no-plot', 'PlotLogs.PlotLogPasses wrote no SVG for the %s file' % kind, dict(wit, info=str(plp.plotLogInfo)[:300]))
        for sname in svgs:
            check_svg(rec, os.path.join(outdir, sname), 'PlotLogs %s %s' % (kind, sname[-24:]), cap, witness=wit)


def plotlogs_directory(ctx, cap):
    """PlotLogs.PlotLogPasses on a directory of several LIS files from one writer: the same record layout (FILM and PRES tables
    at the same byte positions) and different content (channels, curves, scales).  Every file gets its own plots, and every
    plot is checked against the model of its own file - what one file configured must not be applied to the next."""
    import copy
    import types
    from tdv.gen import plotsrc as PS
    from TotalDepth import PlotLogs
    rec = ctx.rec
    rng = ctx.sub_rng('plotlogs-dir')
    din = _tmp(ctx, 'plotdir_in')
    dout = _tmp(ctx, 'plotdir_out')
    os.makedirs(din, exist_ok=True)
    base = PS.random_plot_spec(rng, nframes=rng.choice([12, 40]))
    models = {}
    pool = [b'GR  ', b'SP  ', b'CALI', b'ILD ', b'ILM ', b'RHOB', b'NPHI', b'DT  ', b'TENS', b'X1  ']
    for i in range(rng.choice([2, 3])):
        spec = copy.deepcopy(base)
        if i:
            # other channels under the same table shapes: every channel (but the reference) and its curves renamed
            old = [nm for nm in spec['channels'] if nm != b'REF ']
            new = rng.sample([nm for nm in pool if nm not in old], len(old)) if len(old) <= len(pool) - len(old) else old
            ren = dict(zip(old, new))
            spec['channels'] = [ren.get(nm, nm) for nm in spec['channels']]
            taken = {c['mnem'] for c in spec['curves'] if c['outp'] not in ren}
            for c in spec['curves']:
                if c['outp'] in ren:
                    cands = [ren[c['outp']]] if c['mnem'] == c['outp'] else []
                    cands += [ren[c['outp']][:3] + ch for ch in (b'B', b'2', b'3', b'4', b'5')]
                    c['mnem'] = next(x for x in cands if x not in taken)
                    taken.add(c['mnem'])
                    c['outp'] = ren[c['outp']]
                c['trac'] = None
            if 'shapes' in spec:
                spec['shapes'] = {ren.get(k, k): v for k, v in spec['shapes'].items()}
        data, m = PS.lis_plot_file(rng, spec)
        name = 'w%d.lis' % i
        with open(os.path.join(din, name), 'wb') as f:
            f.write(data)
        models[name] = (m, data)
    opts = types.SimpleNamespace(recurse=False, keepGoing=True, LgFormat=[], apiHeader=False, LgFormat_min=0, scale=0)
    rec.mon('plotlogs_directory')
    wit = {'input': 'LIS directory', 'source': 'PlotLogs.PlotLogPasses', 'files': sorted(models),
           'channels': {n: [repr(c) for c in m.channels] for n, (m, _) in models.items()}}
    try:
        PlotLogs.PlotLogPasses(din, dout, opts)
    except Exception as e:  # noqa
        rec.case(('plotlogs-dir', ctx.shard), False, classes=['plot:PlotLogs-directory', 'plot:raised'])
        if cap['las'] < 16:
            cap['las'] += 1
            rec.violation('lis_produces_plot', 'plotlogs-raises', 'PlotLogPasses on a directory of %d LIS files raised %s: %s' % (len(models), type(e).__name__, e),
                          dict(wit, exception=type(e).__name__, message=str(e)[:300]), exc=e)
        return
    made = sorted(os.listdir(dout)) if os.path.isdir(dout) else []
    ok = True
    for name, (m, data) in sorted(models.items()):
        svgs = [f for f in made if f.startswith(name) and f.endswith('.svg')]
        if not svgs:
            ok = False
            if cap['las'] < 16:
                cap['las'] += 1
                rec.violation('lis_produces_plot', 'plotlogs-no-plot', 'PlotLogPasses on a directory of %d LIS files of one layout wrote no plot for %s (plots written: %s)' % (
                    len(models), name, made[:8]), dict(wit, file=name, lis=data[:3000]))
            continue
        for sname in svgs:
            fid = None
            for ident in m.films:
                if ident.decode().strip() and sname.rsplit('.svg', 1)[0].endswith(ident.decode().strip()):
                    fid = ident
            if fid is None and len(m.films) == 1:
                fid = next(iter(m.films))
            absent = {}
            if fid is not None:
                for c in m.curves:
                    if fid in c.films(m):
                        absent.setdefault(c.outp.strip().decode('ascii'), set()).update(m.absent.get(c.outp, set()))
            check_svg(rec, os.path.join(dout, sname), 'PlotLogs directory %s' % sname[-28:], cap, model=m if fid is not None else None, film=fid,
                      ref_name='REF' if fid is not None else None, absent_by_section=absent if fid is not None else None, nframes=len(m.x), witness=dict(wit, file=name))
    rec.case(('plotlogs-dir', ctx.shard, len(models)), ok, classes=['plot:PlotLogs-directory-of-%d' % len(models)])


def run_shard(ctx, p):
    import logging
    import time
    import warnings
    logging.disable(logging.CRITICAL)
    warnings.simplefilter('ignore')
    import random
    from tdv.core import env
    rec = ctx.rec
    # all randomness derives from (seed, property, part) so that a replay of one shard's parameters repeats it
    ctx.shard = p['part']
    ctx.rng = random.Random('%s:%s:%s' % (ctx.seed, ID, p['part']))
    t0 = time.time()
    run_wrap(ctx, p['n_wrap'])
    rec.add('seconds_wrap', round(time.time() - t0, 2))
    t0 = time.time()
    cap = {'n': 0, 'las': 0}
    formats_dir = os.path.join(env.REPO, 'src', 'TotalDepth', 'util', 'plot', 'formats')
    table = xml_curve_table(formats_dir)
    conf = configured_outputs(table)
    rec.note('xml_plot_formats', sorted(table))
    for k in range(p['n_gen']):
        plot_generated_lis(ctx, k, cap)
    if p['part'] % 4 == 0:
        plot_generated_lis(ctx, 1000, cap, single_record=True)
    for k in range(p['n_xml']):
        plot_xml_lis(ctx, k, cap, table, conf)
    # example files: (file, mode, format) tasks dealt round-robin over the shards
    exdir = os.path.join(env.REPO, 'example_data', 'LIS', 'data')
    tasks = []
    for fn in sorted(os.listdir(exdir)):
        tasks.append((fn, 'internal', None))
        for uid in sorted(table):
            if conf[uid]:
                tasks.append((fn, 'xml', uid))
    plot_example_lis(ctx, cap, tasks[p['part']::p['parts']])
    las_fp = las_names = probe = None
    for k in range(p['n_las']):
        r = plot_las(ctx, k, cap, table, conf)
        if r[0]:
            las_fp, las_names, probe = r
    lis_fp = _tmp(ctx, 'gen0.lis')
    plotlogs_end_to_end(ctx, cap, lis_fp if os.path.exists(lis_fp) else None, las_fp, las_names or [], table, conf, probe or {})
    plotlogs_directory(ctx, cap)
    rec.add('seconds_plots', round(time.time() - t0, 2))


# ------------------------------------------------------------------------------------------------ known findings
LAS_IFACE = ('hasOutpMnem', 'genOutpPoints', 'curveUnitsAsStr', 'nullValue', 'xAxisUnits')


@classifier('c19_las_plot_path_dead')
def _c19_las(v):
    """F17: LASRead lost the frame-holder interface the plot code calls (hasOutpMnem, genOutpPoints, curveUnitsAsStr, nullValue,
    xAxisUnits) and has_output_mnemonic() is asked with a Mnem object: a dict keyed by str finds it only when the name has
    exactly four characters (equal bytes/str hash, Mnem.__eq__ coerces), so shorter curve names never have data to plot and
    four character names run into the missing methods."""
    w = v.get('witness') or {}
    if v.get('monitor') != 'las_produces_plot' or w.get('input') != 'LAS':
        return False
    lacks = w.get('LASRead_lacks') or []
    text = ' '.join(str(w.get(k) or '') for k in ('message', 'cause')) + ' ' + (v.get('traceback') or '')
    missing_attr = any(("'LASRead' object has no attribute '%s'" % a) in text for a in LAS_IFACE)
    if v.get('kind') in ('no-plot', 'plotlogs-no-plot'):
        hs, hm = w.get('has_str') or {}, w.get('has_Mnem') or {}
        m = w.get('matching') or []
        return bool(m) and w.get('hasDataToPlotLAS') in (False, None) and all(hs.get(n) is True and hm.get(n) is False for n in m)
    if v.get('kind') in ('raises', 'plotlogs-raises'):
        return bool(lacks) and missing_attr
    return False


@classifier('c19_lis_single_data_record_no_spacing')
def _c19_single(v):
    """A LIS log pass whose frames all lie in one data record has no frame spacing (RLEType01.frameSpacing() is None):
    xAxisLastEngVal is EngVal(None) and LogPass.frameFromX divides by None -> TypeError, no plot."""
    w = v.get('witness') or {}
    return (v.get('monitor') == 'lis_produces_plot' and v.get('kind') == 'raises' and w.get('exception') == 'TypeError'
            and w.get('data_records') == 1 and 'NoneType' in (w.get('message') or ''))


LEVEL_TEXT = ('Randomised exploration: the scale mapping is compared with an exact (rational / 60 digit) evaluation of the unwrapped position for '
              '2e5 (thorough 1e7) generated scale/value tuples; plots of generated LIS files (own LIS encoder, random FILM/PRES tables, extreme curve '
              'shapes), of the example files and of LAS text are parsed by two XML parsers and every curve point is checked against view box, '
              'margins, harness-computed track limits, absent frames and the exact expected position.')
LEVEL_NOTE = ('Trusted: fractions/decimal arithmetic, expat and libxml2, the harness LIS encoder (cross-checked: frame counts read back must equal the '
              'model), the harness table of FILM track layouts.  Not a proof: finite sample of scales, curve shapes and formats; XML-format plots are '
              'checked for containment and absent frames only.')
TECHNIQUE = 'runtime monitoring: exact-arithmetic differential on wrapPos/L2P + SVG output oracle (two parsers, geometric containment, model of expected points) over generated LIS/LAS sources'
