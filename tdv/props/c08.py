"""C08 LIS tables and format specifications survive encode then decode."""
import math

from tdv.core.findings import classifier

ID = 'C08'
TITLE = 'LIS tables and format specifications survive encode then decode'
NATIVE = 'plain'
NEEDS = ('icontract',)
RULE = ('Tables: 4-byte name and distinct 4-byte column mnemonics (printable, or any bytes in a fraction of the tables; the first '
        'column is often MNEM as in real files), 0..15 rows (0.7 %: 40..400 rows, the record then reaches beyond 64 KiB), 1..12 columns, '
        'cells = bytes of length 0..255, ints drawn from the 8/16/32 bit '
        'ranges including their edges, floats inside the code 68 range, optional 4-byte units given as (value, units) tuple or list, injected duplicate row names.  Composed '
        'with LrTableWrite, written with genLisBytes (one in eight twice from the same object), framed into physical records by the independent framer of tdv.gen.lis (all '
        'trailer/TIF/length layouts) and decoded with LrTableRead through File.FileRead.  A second path feeds LrTableRead with table '
        'bytes of the independent encoder (duplicate rows physically present).  Format specifications: any subset of the entry '
        'blocks 1..16 (not 10) with standard sizes and codes via EntryBlockSet.setEntryBlock (a third of the specifications set some blocks '
        'twice with different sizes, a third ask for lisBytes() while composing), lisBytes() parsed by the harness and, '
        'followed by 1..10 (3 %: 30..129) channel blocks packed by the harness, decoded with LrDFSRRead.  A case is one table or one specification; '
        'distinct by its composition; non-trivial = a table with >= 2 rows and >= 2 cell types, or a specification with at least '
        'one entry block set.')
ASSUMPTIONS = [
    'floats are drawn from 0 and 2^-120 <= |v| <= 2^126 and compared within 2^-22 relative (code 68 has a 23 bit mantissa); everything else exactly',
    'column mnemonics within a table are distinct; bool cells, bytes longer than 255 and ints beyond 32 bits are outside the quantifier',
    'row names are bytes or ints (float row names would make "duplicate" depend on rounding)',
    'a bytes row name resolves (table[name]) to the row that was kept for that name',
    'the composing model is the oracle: for entry blocks that were not set, the values held by the composing EntryBlockSet',
    'channel blocks are packed by the harness (TotalDepth has no writer for them); API codes are not compared',
    'entry block sizes are the standard ones for the chosen representation code (1 for 66, 2 for 79, 4 for 65/68/73) or the absent form (size 0)',
]
MECHANISMS = [
    ('TotalDepth.LIS.core.LogiRec', 'CbEngValWrite.__init__'),
    ('TotalDepth.LIS.core.LogiRec', 'CbEngVal.lisBytes'),
    ('TotalDepth.LIS.core.LogiRec', 'CbEngValRead.__init__'),
    ('TotalDepth.LIS.core.LogiRec', 'LrTableWrite.__init__'),
    ('TotalDepth.LIS.core.LogiRec', 'LrTableRead.__init__'),
    ('TotalDepth.LIS.core.LogiRec', 'LrTable._indexLastRowOrDiscard'),
    ('TotalDepth.LIS.core.LogiRec', 'EntryBlockSet._setLisSizeEven'),
    ('TotalDepth.LIS.core.LogiRec', 'EntryBlockSet.setEntryBlock'),
    ('TotalDepth.LIS.core.LogiRec', 'EntryBlockSet.lisByteList'),
    ('TotalDepth.LIS.core.LogiRec', 'DatumSpecBlockRead.__init__'),
    ('TotalDepth.LIS.core.LogiRec', 'LrDFSRRead.__init__'),
]
REQUIRED_MONITORS = ['table_roundtrip', 'table_bytes_parsed', 'table_read_independent', 'duplicate_rows', 'entry_blocks_written', 'entry_blocks_read',
                     'entry_block_padding', 'channel_blocks']
MIN_NONTRIVIAL = {'quick': 5000, 'thorough': 100000}
COUNTS = {'quick': (1300, 300, 650), 'thorough': (30000, 7000, 15000)}     # per shard: written tables, independent tables, DFSRs
NSHARDS = 16
TIMEOUT_S = {'quick': 300, 'thorough': 3000}
REL = 2.0 ** -22


def plan(tier, seed):
    return [{'counts': COUNTS[tier], 'part': i} for i in range(NSHARDS)]


# ------------------------------------------------------------------------------------------------ known findings
def _is16(v):
    return -32768 <= v <= 32767 and not 0 <= v <= 255


@classifier('c08_no_writer_for_code79')
def _f7(v):
    """F7: ints in the 16 bit range are given representation code 79, for which RepCode.writeBytes has no writer."""
    if v.get('exc_type') != 'ExceptionRepCodeUnknown' or 'representation code 79' not in v['msg']:
        return False
    w = v['witness']
    if v['monitor'] == 'table_roundtrip' and v['kind'] == 'write-exception':
        return any(_is16(x) for x in w.get('ints_in_kept_rows', []))
    if v['monitor'] == 'entry_blocks_written' and v['kind'] == 'write-exception':
        return 79 in w.get('codes_set', [])
    return False


@classifier('c08_empty_bytes_last_block')
def _f16(v):
    """F16: a zero length bytes value in the last component block of a record is read as None (readLrBytes(0) at the end of data)."""
    w = v['witness']
    if v['monitor'] not in ('table_roundtrip', 'table_read_independent'):
        return False
    if v['kind'] == 'cells':
        mm = w.get('mismatches', [])
        return (len(mm) == 1 and mm[0]['what'] == 'value' and mm[0]['is_last_block_of_record'] and mm[0]['expected'] == {'hex': ''}
                and mm[0]['got'] is None and not w.get('other_differences'))
    if v['kind'] == 'read-exception':
        # the None value then reaches Mnem.Mnem() when the block is in a column called MNEM
        return (v.get('exc_type') == 'TypeError' and "'NoneType' has no len()" in v['msg'] and w.get('last_block_empty_bytes') is True
                and w.get('last_block_mnem') == {'hex': b'MNEM'.hex()})
    return False


@classifier('c08_mnem_column_non_bytes')
def _f19(v):
    """F19: LrTable._indexLastRowOrDiscard builds Mnem.Mnem() from the cell of a column called MNEM whatever its type."""
    w = v['witness']
    if v['monitor'] not in ('table_roundtrip', 'table_read_independent') or v['kind'] not in ('write-exception', 'read-exception'):
        return False
    if v.get('exc_type') != 'TypeError' or 'has no len()' not in v['msg'] or "'NoneType'" in v['msg']:
        return False
    return any(t in ('int', 'float') for t in w.get('types_under_mnem_in_kept_rows', []))


# ------------------------------------------------------------------------------------------------ generation
_PR = b'ABCDEFGHIJKLMNOPQRSTUVWXYZ0123456789 -_.#'


def rb(rng, n, anyb=False):
    if anyb:
        return bytes(rng.randrange(256) for _ in range(n))
    return bytes(rng.choice(_PR) for _ in range(n))


INT8 = [0, 1, 2, 127, 128, 254, 255]
INT16 = [-1, -2, -128, -129, 256, 257, 32767, 32766, -32768, -32767, 1000, -1000]
INT32 = [32768, 32769, -32769, -32770, 65535, 65536, 2 ** 31 - 1, 2 ** 31 - 2, -2 ** 31, -2 ** 31 + 1, 10 ** 9, -10 ** 9]
FLOATS = [0.0, 1.0, -1.0, -153.0, 153.0, 1e-10, -1e-10, 1e20, -1e20, 0.5, -0.5, -999.25, 2.0 ** -120, -2.0 ** -120, 2.0 ** 126, -2.0 ** 126,
          1.0 - 2.0 ** -24, 1.0 + 2.0 ** -23, 3.0000000001, 1 / 3.0]


def rand_int(rng, allow16):
    k = rng.random()
    if k < 0.4:
        return rng.choice(INT8) if rng.random() < 0.5 else rng.randrange(0, 256)
    if k < 0.65 and allow16:
        return rng.choice(INT16) if rng.random() < 0.5 else rng.choice([rng.randrange(-32768, 0), rng.randrange(256, 32768)])
    return rng.choice(INT32) if rng.random() < 0.5 else rng.choice([rng.randrange(-2 ** 31, -32768), rng.randrange(32768, 2 ** 31)])


def rand_float(rng):
    k = rng.random()
    if k < 0.35:
        return rng.choice(FLOATS)
    if k < 0.7:
        return rng.uniform(-1e6, 1e6)
    return math.ldexp(rng.uniform(0.5, 1.0), rng.randrange(-119, 127)) * rng.choice([1, -1])


def rand_bytes_cell(rng, anyb):
    k = rng.random()
    if k < 0.12:
        n = 0
    elif k < 0.7:
        n = rng.randrange(1, 13)
    elif k < 0.93:
        n = rng.randrange(13, 100)
    else:
        n = rng.choice([254, 255, rng.randrange(100, 256)])
    return rb(rng, n, anyb and rng.random() < 0.5)


def gen_table(rng, tier):
    """Returns a composition: dict(lr_type, name, mnems, rows) with rows of (value, units|None)."""
    anyb = rng.random() < (0.15 if tier == 'quick' else 0.4)
    allow16 = rng.random() < 0.6           # (was a minority while code 79 had no writer, finding F7, repaired)
    name = rb(rng, 4, anyb)
    ncol = rng.choice([1, 2, 2, 3, 3, 4, 5, 6, 8, 8, 12])
    big = rng.random() < 0.007             # a table of the size of a real CONS / PRES table: the record exceeds 64 KiB at the top end
    if big:
        ncol = rng.choice([3, 5, 8])
    mn = []
    while len(mn) < ncol:
        m = rb(rng, 4, anyb)
        if m not in mn and m != b'MNEM':
            mn.append(m)
    if rng.random() < 0.4:
        mn[0] = b'MNEM'
    elif ncol > 1 and rng.random() < 0.04:
        mn[rng.randrange(1, ncol)] = b'MNEM'
    nrow = rng.choice([0, 1, 1, 2, 3, 4, 5, 6, 8, 11, 15])
    if big:
        nrow = rng.randrange(40, 400)
    int_names = rng.random() < (0.04 if mn[0] == b'MNEM' else 0.12)
    rows = []
    names = []
    for r in range(nrow):
        if names and rng.random() < 0.12:
            rn = rng.choice(names)                                        # an injected duplicate
        elif int_names:
            rn = rand_int(rng, allow16)
        else:
            k = rng.random()
            rn = rb(rng, 4, anyb) if k < 0.8 else rb(rng, rng.randrange(0, 9), anyb)
        names.append(rn)
        row = [(rn, rb(rng, 4, anyb) if rng.random() < 0.15 else None)]
        for c in range(1, ncol):
            k = rng.random()
            if k < 0.4:
                v = rand_bytes_cell(rng, anyb)
            elif k < 0.7:
                v = rand_int(rng, allow16)
            else:
                v = rand_float(rng)
            row.append((v, rb(rng, 4, anyb) if rng.random() < 0.4 else None))
        rows.append(row)
    return {'lr_type': rng.choice([34, 34, 34, 32, 39]), 'name': name, 'mnems': mn, 'rows': rows}


def kept_rows(rows):
    seen, out = set(), []
    for row in rows:
        k = row[0][0]
        key = (type(k).__name__, k)
        if key in seen:
            continue
        seen.add(key)
        out.append(row)
    return out


def comp_witness(comp):
    def cell(c):
        return repr(c)
    kept = kept_rows(comp['rows'])
    mn = comp['mnems']
    return {'lr_type': comp['lr_type'], 'name': comp['name'], 'mnems': mn,
            'rows': [[cell(c) for c in row] for row in comp['rows']][:16],
            'ints_in_kept_rows': [v for row in kept for v, _u in row if type(v) is int],
            'types_under_mnem_in_kept_rows': [type(row[i][0]).__name__ for row in kept for i, m in enumerate(mn) if m == b'MNEM'],
            'rows_written': len(comp['rows']), 'rows_kept': len(kept)}


def compare_table(read, name, mnems, kept, expect_value, last_block_pos):
    """Compare a decoded table with the model.  expect_value(cell) -> ('exact', v) | ('float', v).
    Returns (mismatches, other_differences)."""
    mm, other = [], []
    if read.value != name:
        other.append('table name %r, composed %r' % (read.value, name))
    got_rows = list(read.genRows())
    if len(got_rows) != len(kept):
        other.append('%d rows decoded, %d expected after dropping later duplicates' % (len(got_rows), len(kept)))
    if kept and list(read.colLabels()) != list(mnems):
        other.append('column labels %r, composed %r' % (list(read.colLabels()), list(mnems)))
    if len(read) != len(got_rows):
        other.append('len(table) = %d but %d rows are generated' % (len(read), len(got_rows)))
    # the table's own views of its rows: names in row order (and sorted), the set of names, membership; a row's membership of columns
    try:
        names = [gr.value for gr in got_rows]
        gen_names = list(read.genRowNames())
        if gen_names != names:
            other.append('genRowNames() gives %r, the rows are named %r' % (gen_names[:6], names[:6]))
        if all(type(n) is bytes for n in names):
            if list(read.genRowNames(sort=1)) != sorted(names) or list(read.genRowNames(sort=-1)) != sorted(names, reverse=True):
                other.append('genRowNames(sort) is not the sorted list of the row names')
            if len(got_rows) == len(kept) and sorted(read.rowLabels()) != sorted(set(names)):
                other.append('rowLabels() %r is not the set of row names %r' % (sorted(read.rowLabels())[:6], sorted(set(names))[:6]))
            for n in names[:4] + names[-2:]:
                if n not in read:
                    other.append('row name %r is not "in" the table' % n)
                    break
            absent_name = next((c for c in (b'\x01\x02\x03\x04', b'~#@!', b'ZQXJ') if c not in names), None)
            if absent_name is not None and absent_name in read:
                other.append('%r is "in" the table but no row has that name' % absent_name)
        for ri, gr in enumerate(got_rows[:3] + got_rows[-1:]):
            labs = [c.mnem for c in gr.genCells()]
            if not all(l in gr for l in labs):
                other.append('a column label of a row is not "in" that row: %r' % labs[:6])
                break
            if b'\x01\x02\x03\x04' not in labs and b'\x01\x02\x03\x04' in gr:
                other.append('a label no cell carries is "in" the row')
                break
            # a column label resolves to the first cell that carries it
            for l in labs[:3]:
                if gr[l] is not next(c for c in gr.genCells() if c.mnem == l):
                    other.append('row[%r] is not the first cell labelled %r' % (l, l))
                    break
    except Exception as e:  # noqa
        other.append('row / column membership views raised %s: %s' % (type(e).__name__, str(e)[:120]))
    for ri, (er, gr) in enumerate(zip(kept, got_rows)):
        # a row name stands for the row that was kept (the first of its duplicates)
        if type(er[0][0]) is bytes:
            try:
                hit = read[er[0][0]]
            except Exception as e:  # noqa
                hit = e
            if hit is not gr:
                other.append('row name %r does not resolve to row %d (the kept row of that name) but to %s' % (
                    er[0][0], ri, ('row %d' % got_rows.index(hit)) if hit in got_rows else repr(hit)[:80]))
        cells = list(gr.genCells())
        if len(cells) != len(er):
            other.append('row %d has %d cells, expected %d' % (ri, len(cells), len(er)))
            continue
        # the mnemonic index: a row asked for by the value of its MNEM cell is a row of the table that holds that value there
        # (when several kept rows hold it, any of them; never a dropped duplicate's successor, never an error)
        for ci, (ec, cell) in enumerate(zip(er, cells)):
            if mnems[ci] == b'MNEM' and type(ec[0]) is bytes and ec[0]:
                from TotalDepth.LIS.core import Mnem as _Mnem
                try:
                    key = _Mnem.Mnem(ec[0])
                    hit = read.retRowByMnem(key)
                    fine = any(hit is r for r in got_rows) and any(c.mnem == b'MNEM' and type(c.value) is bytes and _Mnem.Mnem(c.value) == key for c in hit.genCells())
                    what = 'row %d' % [i for i, r in enumerate(got_rows) if r is hit][0] if any(hit is r for r in got_rows) else repr(hit)[:80]
                except Exception as e:  # noqa
                    fine, what = False, '%s: %s' % (type(e).__name__, str(e)[:100])
                if not fine:
                    other.append('retRowByMnem(%r) (the MNEM cell of kept row %d) gives %s, which does not hold that mnemonic' % (ec[0], ri, what))
                break
        for ci, (ec, cell) in enumerate(zip(er, cells)):
            v, u = ec
            is_last = (ri, ci) == last_block_pos
            if cell.mnem != mnems[ci]:
                mm.append({'what': 'mnem', 'row': ri, 'col': ci, 'expected': mnems[ci], 'got': cell.mnem, 'is_last_block_of_record': is_last})
            if cell.units != (u if u is not None else b'    '):
                mm.append({'what': 'units', 'row': ri, 'col': ci, 'expected': u, 'got': cell.units, 'is_last_block_of_record': is_last})
            kind, ev = expect_value(v)
            g = cell.value
            if kind == 'float':
                ok = isinstance(g, float) and abs(g - ev) <= abs(ev) * REL
            else:
                ok = type(g) is type(ev) and g == ev
            if not ok:
                mm.append({'what': 'value', 'row': ri, 'col': ci, 'expected': ev, 'got': g, 'got_type': type(g).__name__,
                           'is_last_block_of_record': is_last})
    return mm, other


def parse_written_table(lis, lr, comp, kept):
    """Independent decode of the record the real writer produced.  Returns a description of the first problem or None."""
    if lr[:2] != bytes([comp['lr_type'], 0]):
        return 'logical record header %s' % lr[:2].hex()
    pos = 2
    blocks = []
    while pos < len(lr):
        if pos + 12 > len(lr):
            return 'truncated component block at offset %d' % pos
        ty, rc, size, cat = lr[pos:pos + 4]
        mnem, units = lr[pos + 4:pos + 8], lr[pos + 8:pos + 12]
        val = lr[pos + 12:pos + 12 + size]
        if len(val) != size:
            return 'component block at offset %d runs past the end of the record' % pos
        blocks.append((ty, rc, size, mnem, units, val))
        pos += 12 + size
    want = [(73, comp['name'], None, b'TYPE')]
    for row in kept:
        for ci, (v, u) in enumerate(row):
            want.append((0 if ci == 0 else 69, v, u, comp['mnems'][ci]))
    if len(blocks) != len(want):
        return '%d component blocks, composition has %d' % (len(blocks), len(want))
    for k, ((ty, rc, size, mnem, units, val), (wty, v, u, wm)) in enumerate(zip(blocks, want)):
        if ty != wty:
            return 'block %d has type %d, expected %d' % (k, ty, wty)
        if mnem != wm or units != (u if u is not None else b'    '):
            return 'block %d has mnemonic/units %r/%r, expected %r/%r' % (k, mnem, units, wm, u)
        if type(v) is bytes:
            if rc != 65 or val != v:
                return 'block %d (bytes) written with code %d value %r' % (k, rc, val)
        elif rc not in lis.RC_SIZE or size != lis.RC_SIZE[rc]:
            return 'block %d has code %d with size %d' % (k, rc, size)
        elif type(v) is float:
            d = lis.rc_float(rc, val)
            if rc not in (68, 50, 49, 70) or abs(d - v) > abs(v) * REL:
                return 'block %d (float %r) written with code %d as %r' % (k, v, rc, d)
        else:
            if rc not in (56, 66, 73, 79) or lis.rc_fraction(rc, val) != v:
                return 'block %d (int %r) written with code %d as %s' % (k, v, rc, val.hex())
    return None


# ------------------------------------------------------------------------------------------------ entry blocks
def gen_entry_blocks(rng):
    """Returns {type: (size, rc, value)} for a random subset of the entry blocks."""
    out = {}
    u4 = lambda: rng.choice([b'.1IN', b'FEET', b'INCH', b'M   ', b'S   ', b'MS  ', rb(rng, 4)])
    f = lambda: rand_float(rng)
    choices = {
        1: lambda: (1, 66, rng.choice([0, 1])),
        2: lambda: (1, 66, 0),
        3: lambda: rng.choice([(2, 79, rng.choice([1, 255, 256, 4000, 32767])), (4, 73, rng.randrange(1, 40000)), (1, 66, rng.randrange(1, 256))]),
        4: lambda: (1, 66, rng.choice([1, 255, 0])),
        5: lambda: (1, 66, rng.choice([1, 255, 0])),
        6: lambda: rng.choice([(4, 68, f()), (4, 73, rng.randrange(-10 ** 6, 10 ** 6)), (0, 66, None), (0, 68, None)]),
        7: lambda: (4, 65, u4()),
        8: lambda: rng.choice([(4, 68, abs(f())), (4, 73, rng.randrange(1, 10 ** 4)), (1, 66, rng.randrange(1, 256)), (0, 68, None)]),
        9: lambda: rng.choice([(4, 65, u4()), (0, 65, None)]),
        11: lambda: rng.choice([(1, 66, rng.randrange(1, 256)), (4, 73, rng.randrange(1, 10 ** 5)), (0, 66, None), (2, 79, 300)]),
        12: lambda: (4, 68, rng.choice([-999.25, -999.0, 0.0, -9999.0, f()])),
        13: lambda: (1, 66, rng.choice([0, 1])),
        14: lambda: (4, 65, u4()),
        15: lambda: (1, 66, rng.choice([68, 73, 79, 49, 50, 70, 0])),
        16: lambda: (1, 66, rng.choice([0, 1])),
    }
    k = rng.random()
    types = sorted(choices)
    if k < 0.05:
        chosen = []
    elif k < 0.15:
        chosen = types
    else:
        chosen = [t for t in types if rng.random() < rng.choice([0.15, 0.4, 0.7])]
    rng.shuffle(chosen)
    for t in chosen:
        out[t] = choices[t]()
    # a composing history: some blocks are first given another value / size and set again later (the last setting counts);
    # some of these earlier settings concern blocks that end up at their default again is not possible through the API, so
    # every earlier setting is for a chosen block
    earlier = []
    if chosen and rng.random() < 0.35:
        for t in rng.sample(chosen, rng.randrange(1, min(4, len(chosen)) + 1)):
            for _ in range(rng.choice([1, 1, 2])):
                earlier.append((t, choices[t]()))
        rng.shuffle(earlier)
    if rng.random() < 0.4:
        # 16 bit integers as code 73 instead of code 79 in a part of the specifications (code 79 had no writer, finding F7, repaired)
        for t in list(out):
            if out[t][1] == 79:
                out[t] = (4, 73, out[t][2])
        earlier = [(t, (4, 73, v[2]) if v[1] == 79 else v) for t, v in earlier]
    return out, chosen, earlier


CH_CODES = (49, 50, 56, 66, 68, 70, 73, 77, 79)


def gen_channels(rng):
    from tdv.gen import lis
    out = []
    nch = rng.choice([1, 1, 2, 3, 4, 5, 6, 8, 10])
    if rng.random() < 0.03:
        nch = rng.randrange(30, 130)           # real specifications list up to a hundred and more channels
    for _ in range(nch):
        k = rng.random()
        if k < 0.04:
            rc, sa, bu, size = 130, 1, 1, 80
        elif k < 0.08:
            rc, sa, bu, size = 234, 1, 1, 90
        else:
            rc = rng.choice(CH_CODES)
            sa = rng.choice([1, 1, 1, 2, 3, 4, 8, 16])
            bu = rng.choice([1, 1, 1, 2, 3, 5, 8])
            size = lis.RC_SIZE[rc] * sa * bu
        mnem = rb(rng, 4)
        if rng.random() < 0.05:
            # a channel whose name is blank or nulls is a channel all the same (it has a size, a code and data in every frame)
            mnem = rng.choice([b'    ', b'\x00\x00\x00\x00', b' \x00 \x00', b'\x00   '])
        out.append({'mnem': mnem, 'serv_id': rb(rng, 6), 'serv_ord': rb(rng, 8), 'units': rb(rng, 4), 'api': rng.randrange(0, 10 ** 8),
                    'file_no': rng.randrange(0, 32768), 'size': size, 'samples': sa, 'rc': rc, 'bursts': bu})
    return out


# ------------------------------------------------------------------------------------------------ the shard
class Budget:
    def __init__(self):
        self.n = {}


def run_shard(ctx, p):
    import io
    from fractions import Fraction
    from TotalDepth.LIS.core import LogiRec, File
    from tdv.gen import lis
    rec, rng0 = ctx.rec, ctx.rng
    budget = Budget()
    n_written, n_indep, n_dfsr = p['counts']

    def viol(monitor, kind, msg, witness, exc=None):
        rec.add('violations_seen:%s/%s' % (monitor, kind))
        if budget.n.get((monitor, kind), 0) < 20:
            if rec.violation(monitor, kind, msg, witness, exc=exc) is None:
                budget.n[(monitor, kind)] = budget.n.get((monitor, kind), 0) + 1

    def framed_reader(rng, lr):
        """Frame [file header, lr, file trailer] with a random layout and return a FileRead positioned at lr."""
        lay = lis.random_layout(rng)
        data, extents, prs, lay = lis.frame_safe([lis.lr_file_head_tail(128), lr, lis.lr_file_head_tail(129)], lay)
        rec.cls('layout-tif-%s' % lay.tif)
        rec.cls('record-over-%s-prs' % ('1' if len(lr) <= lay.capacity else 'n'))
        f = File.FileRead(io.BytesIO(data), 'c08', keepGoing=rng.random() < 0.5)
        f.seekLr(extents[1][0])
        return f, lay

    def table_classes(comp, kept):
        cl = []
        types = set(type(v).__name__ for row in kept for v, _u in row[1:])
        for t in sorted(types):
            cl.append('cells-' + t)
        if len(comp['rows']) != len(kept):
            cl.append('duplicate-row-names')
        if not comp['rows']:
            cl.append('no-rows')
        if any(type(v) is int and _is16(v) for row in kept for v, _u in row):
            cl.append('has-16bit-int')
        if any(type(v) is bytes and len(v) == 0 for row in kept for v, _u in row):
            cl.append('has-empty-bytes')
        if any(type(v) is bytes and len(v) >= 254 for row in kept for v, _u in row):
            cl.append('has-255-bytes')
        if any(u is not None for row in kept for _v, u in row):
            cl.append('has-units')
        if len(kept) >= 40:
            cl.append('rows-40-or-more')
        if len(comp['mnems']) > 8:
            cl.append('columns-more-than-8')
        return cl, types

    # =========================================================== tables through the real writer
    for i in range(n_written):
        rng = ctx.sub_rng('tw', i)
        comp = gen_table(rng, ctx.tier)
        kept = kept_rows(comp['rows'])
        cl, types = table_classes(comp, kept)
        nontrivial = len(kept) >= 2 and len(types | {type(kept[0][0][0]).__name__}) >= 2
        rec.case(('tw', repr(comp)), nontrivial, classes=['table-written'] + cl,
                 sample={'name': comp['name'], 'mnems': comp['mnems'], 'rows': len(comp['rows']), 'first_row': repr(comp['rows'][:1])[:300]} if nontrivial else None)
        rec.mon('table_roundtrip')
        w = comp_witness(comp)
        as_list = rng.random() < 0.3          # LrTableWrite documents "(value, units)" as a tuple or a list
        table_rows = [[(v if u is None else ([v, u] if as_list else (v, u))) for v, u in row] for row in comp['rows']]
        if as_list:
            rec.cls('units-given-as-list')
        try:
            t = LogiRec.LrTableWrite(comp['lr_type'], comp['name'], list(comp['mnems']), table_rows)
            lr = bytes([comp['lr_type'], 0]) + b''.join(t.genLisBytes())
            again = (bytes([comp['lr_type'], 0]) + b''.join(t.genLisBytes())) if i % 8 == 3 else lr
        except Exception as e:  # noqa
            viol('table_roundtrip', 'write-exception', 'LrTableWrite/genLisBytes raised %s: %s' % (type(e).__name__, e), w, exc=e)
            continue
        rec.add('table_bytes_written', len(lr))
        if i % 8 == 3:
            rec.mon('table_written_twice')
            if again != lr:
                viol('table_roundtrip', 'second-write-differs', 'genLisBytes() of one LrTableWrite gave different bytes the second time (%d then %d bytes)' % (
                    len(lr), len(again)), dict(w, record=lr[:600], record_again=again[:600]))
        if len(comp['rows']) != len(kept):
            rec.mon('duplicate_rows')
        # the writer's bytes parsed by the harness (component block layout; the size field advances the parse)
        rec.mon('table_bytes_parsed')
        problem = parse_written_table(lis, lr, comp, kept)
        if problem:
            viol('table_bytes_parsed', 'bytes', 'written table record: %s' % problem, dict(w, record=lr[:800]))
            continue
        last_empty = bool(kept) and type(kept[-1][-1][0]) is bytes and len(kept[-1][-1][0]) == 0
        w.update(last_block_empty_bytes=last_empty, last_block_mnem=comp['mnems'][-1] if kept else b'TYPE')
        try:
            f, lay = framed_reader(rng, lr)
            w['layout'] = lay.describe()
            r = LogiRec.LrTableRead(f)
        except Exception as e:  # noqa
            viol('table_roundtrip', 'read-exception', 'LrTableRead raised %s: %s' % (type(e).__name__, e), dict(w, record=lr[:600]), exc=e)
            continue

        def expect_value(v):
            if type(v) is float:
                return 'float', v
            return 'exact', v
        mm, other = compare_table(r, comp['name'], comp['mnems'], kept, expect_value,
                                  (len(kept) - 1, len(comp['mnems']) - 1) if kept else None)
        if r.type != comp['lr_type']:
            other.append('record type %r, composed %r' % (r.type, comp['lr_type']))
        if mm or other:
            first = other[0] if other else 'row %d col %d %s: got %r expected %r' % (mm[0]['row'], mm[0]['col'], mm[0]['what'], mm[0]['got'], mm[0]['expected'])
            viol('table_roundtrip', 'cells', 'decoded table differs from the composition: %s' % first,
                 dict(w, mismatches=mm[:10], other_differences=other[:10], record=lr[:600]))

    # =========================================================== tables from the independent encoder (duplicates present in the bytes)
    for i in range(n_indep):
        rng = ctx.sub_rng('ti', i)
        comp = gen_table(rng, ctx.tier)
        # no empty row names here: an empty name at the very end of a record is F16 and would hide the duplicate rule
        comp['rows'] = [row for row in comp['rows'] if not (type(row[0][0]) is bytes and len(row[0][0]) == 0)]
        if len(comp['rows']) >= 2 and rng.random() < 0.7:
            src = rng.choice(comp['rows'])
            dup = [(src[0][0], None)] + [(rand_bytes_cell(rng, False) or b'x', None) for _ in src[1:]]
            comp['rows'].insert(rng.randrange(comp['rows'].index(src) + 1, len(comp['rows']) + 1), dup)
        kept = kept_rows(comp['rows'])
        enc_rows = []
        decoded = {}
        for row in comp['rows']:
            er = []
            for ci, (v, u) in enumerate(row):
                if type(v) is bytes:
                    rc, vb = 65, v
                elif type(v) is float:
                    rc, vb = 68, lis.enc68(v, exact=False)
                    decoded[id(row), ci] = lis.rc_float(68, vb)
                else:
                    rc = 66 if 0 <= v <= 255 else 79 if -32768 <= v <= 32767 else 73
                    vb = lis.rc_encode(rc, v)
                er.append((comp['mnems'][ci], rc, u if u is not None else b'    ', vb))
            enc_rows.append(er)
        lr = lis.lr_table(comp['lr_type'], comp['name'], enc_rows)
        cl, types = table_classes(comp, kept)
        nontrivial = len(kept) >= 2 and len(types | {type(kept[0][0][0]).__name__}) >= 2
        rec.case(('ti', lr), nontrivial, classes=['table-independent'] + cl)
        rec.mon('table_read_independent')
        if len(comp['rows']) != len(kept):
            rec.mon('duplicate_rows')
        w = comp_witness(comp)
        last_empty = bool(comp['rows']) and type(comp['rows'][-1][-1][0]) is bytes and len(comp['rows'][-1][-1][0]) == 0
        w.update(last_block_empty_bytes=last_empty, last_block_mnem=comp['mnems'][-1] if comp['rows'] else b'TYPE')
        try:
            f, lay = framed_reader(rng, lr)
            w['layout'] = lay.describe()
            r = LogiRec.LrTableRead(f)
        except Exception as e:  # noqa
            viol('table_read_independent', 'read-exception', 'LrTableRead raised %s: %s' % (type(e).__name__, e), dict(w, record=lr[:600]), exc=e)
            continue
        # exact expectation: the harness decoder on the harness bytes
        rowpos = {id(row): row for row in comp['rows']}

        def expect_value2(v):
            if type(v) is float:
                return 'exact', lis.rc_float(68, lis.enc68(v, exact=False))
            return 'exact', v
        # the physically last block belongs to the last *written* row; it is compared only when that row is kept
        last_pos = (len(kept) - 1, len(comp['mnems']) - 1) if kept and kept[-1] is comp['rows'][-1] else None
        mm, other = compare_table(r, comp['name'], comp['mnems'], kept, expect_value2, last_pos)
        if mm or other:
            first = other[0] if other else 'row %d col %d %s: got %r expected %r' % (mm[0]['row'], mm[0]['col'], mm[0]['what'], mm[0]['got'], mm[0]['expected'])
            viol('table_read_independent', 'cells', 'decoded table differs from the encoded one: %s' % first,
                 dict(w, mismatches=mm[:10], other_differences=other[:10], record=lr[:600]))

    # =========================================================== data format specifications
    defaults = LogiRec.EntryBlockSet()
    default_blocks = {t: tuple(defaults[t]) for t in range(17)}
    for i in range(n_dfsr):
        rng = ctx.sub_rng('df', i)
        blocks, order, earlier = gen_entry_blocks(rng)
        chans = gen_channels(rng)
        rec.case(('df', repr(sorted(blocks.items())), repr(order), repr(chans)), bool(blocks),
                 classes=['dfsr', 'dfsr-blocks-%s' % ('0' if not blocks else 'all' if len(blocks) == 15 else 'some')],
                 sample={'entry_blocks': {str(k): repr(v) for k, v in blocks.items()}, 'channels': len(chans)} if i < 2 else None)
        w = {'blocks_set': {str(t): list(blocks[t]) for t in order}, 'order': order, 'codes_set': sorted(set(b[1] for b in blocks.values()) | set(v[1] for _t, v in earlier)),
             'set_earlier_then_overwritten': [[t, list(v)] for t, v in earlier]}
        rec.mon('entry_blocks_written')
        ebs = LogiRec.EntryBlockSet()
        # the operations on the set: earlier settings, then the final ones; in a third of the histories the bytes / the size are
        # asked for in between (what is remembered from a query must not survive the next setting)
        ops = [(t, v) for t, v in earlier] + [(t, blocks[t]) for t in order]
        ask_at = set(rng.sample(range(len(ops)), min(len(ops), rng.randrange(1, 4)))) if ops and rng.random() < 0.33 else set()
        if earlier:
            rec.cls('dfsr-blocks-set-twice')
        if ask_at:
            rec.cls('dfsr-bytes-asked-while-composing')
        try:
            for k, (t, v) in enumerate(ops):
                if k in ask_at:
                    mid = bytes(ebs.lisBytes())
                    if len(mid) % 2:
                        viol('entry_block_padding', 'bytes', 'EntryBlockSet.lisBytes() while composing: entry block section has odd length %d' % len(mid),
                             dict(w, bytes=mid, after_operations=k))
                ebs.setEntryBlock(LogiRec.EntryBlock(t, *v))
            eb_bytes = bytes(ebs.lisBytes())
        except Exception as e:  # noqa
            viol('entry_blocks_written', 'write-exception', 'EntryBlockSet compose/lisBytes raised %s: %s' % (type(e).__name__, e), w, exc=e)
            continue
        model = {}
        for t in range(1, 17):
            if t != 10:
                model[t] = blocks[t] if t in blocks else default_blocks[t][1:]
        # ---- the written bytes, parsed by the harness
        parsed = {}
        pos = 0
        problem = None
        term = None
        while pos < len(eb_bytes):
            if pos + 3 > len(eb_bytes):
                problem = 'truncated entry block at %d' % pos
                break
            t, sz, rc = eb_bytes[pos], eb_bytes[pos + 1], eb_bytes[pos + 2]
            val = eb_bytes[pos + 3:pos + 3 + sz]
            if len(val) != sz:
                problem = 'entry block %d runs past the end' % t
                break
            pos += 3 + sz
            if t == 0:
                term = (sz, rc)
                break
            if t in parsed:
                problem = 'entry block %d written twice' % t
                break
            parsed[t] = (sz, rc, val)
        rec.mon('entry_block_padding')
        if problem is None and term is None:
            problem = 'no terminator block'
        if problem is None and pos != len(eb_bytes):
            problem = '%d bytes after the terminator block' % (len(eb_bytes) - pos)
        if problem is None and len(eb_bytes) % 2:
            problem = 'entry block section has odd length %d' % len(eb_bytes)
        if problem is None and term[0] not in (0, 1):
            problem = 'terminator block of size %d' % term[0]
        if problem is None and term[0] == 1:
            rec.cls('dfsr-terminator-padded')
        elif problem is None:
            rec.cls('dfsr-terminator-unpadded')
        if problem is None:
            for t, (sz, rc, val) in sorted(model.items()):
                if t not in parsed:
                    problem = 'entry block %d not written' % t
                    break
                psz, prc, pval = parsed[t]
                if (psz, prc) != (sz, rc):
                    problem = 'entry block %d written with size %d code %d, composed %d/%d' % (t, psz, prc, sz, rc)
                    break
                if sz == 0:
                    continue
                if rc == 65:
                    ok = pval == val
                elif rc == 68:
                    d = lis.rc_float(68, pval)
                    ok = abs(d - val) <= abs(val) * REL
                else:
                    ok = lis.rc_fraction(rc, pval) == val
                if not ok:
                    problem = 'entry block %d written as %s, composed %r' % (t, pval.hex(), val)
                    break
        if problem is not None:
            viol('entry_block_padding' if 'odd' in problem or 'terminator' in problem else 'entry_blocks_written', 'bytes',
                 'EntryBlockSet.lisBytes(): %s' % problem, dict(w, bytes=eb_bytes))
            continue
        # ---- through the reader
        dsbs = b''.join(lis.dsb(c['mnem'], c['units'], c['size'], c['samples'], c['rc'], serv_id=c['serv_id'], serv_ord=c['serv_ord'],
                                api=c['api'], file_no=c['file_no']) for c in chans)
        lr = bytes([64, 0]) + eb_bytes + dsbs
        rec.mon('entry_blocks_read')
        try:
            f, lay = framed_reader(rng, lr)
            w['layout'] = lay.describe()
            d = LogiRec.LrDFSRRead(f)
        except Exception as e:  # noqa
            viol('entry_blocks_read', 'read-exception', 'LrDFSRRead raised %s: %s' % (type(e).__name__, e), dict(w, record=lr[:800]), exc=e)
            continue
        bad = []
        for t, (sz, rc, val) in sorted(model.items()):
            g = d.ebs[t]
            if (g.type, g.size, g.repCode) != (t, sz, rc):
                bad.append('block %d decoded as size %r code %r, composed %d/%d' % (t, g.size, g.repCode, sz, rc))
            elif isinstance(val, float):
                if not (isinstance(g.value, float) and abs(g.value - val) <= abs(val) * REL):
                    bad.append('block %d value %r, composed %r' % (t, g.value, val))
            elif g.value != val or type(g.value) is not type(val):
                bad.append('block %d value %r, composed %r' % (t, g.value, val))
        g0 = d.ebs[0]
        if (g0.size, g0.repCode) != (term[0], term[1]):
            bad.append('terminator decoded as size %r, written %d' % (g0.size, term[0]))
        if bad:
            viol('entry_blocks_read', 'values', 'decoded entry blocks differ: %s' % bad[0], dict(w, differences=bad[:10], record=lr[:800]))
        rec.mon('channel_blocks')
        bad = []
        if len(d.dsbBlocks) != len(chans):
            bad.append('%d channel blocks decoded, %d written' % (len(d.dsbBlocks), len(chans)))
        if len(chans) >= 30:
            rec.cls('dfsr-30-or-more-channels')
        for ci, (c, g) in enumerate(zip(chans, d.dsbBlocks)):
            rec.cls('channel-rc-%d' % c['rc'])
            if c['rc'] == 130:
                exp_sc, exp_bu, exp_sa = 5, 1, 16
            elif c['rc'] == 234:
                exp_sc, exp_bu, exp_sa = 15, 1, 16
            else:
                exp_sc, exp_sa = 1, c['samples']
                exp_bu = Fraction(c['size'], lis.RC_SIZE[c['rc']] * c['samples'])
            got = {'mnem': g.mnem, 'serv_id': g.servId, 'serv_ord': g.servOrd, 'units': g.units, 'file_no': g.fileNumber, 'size': g.size,
                   'rc': g.repCode, 'sub_channels': g.subChannels, 'bursts': g.bursts(0), 'samples': g.samples(0)}
            want = {'mnem': c['mnem'], 'serv_id': c['serv_id'], 'serv_ord': c['serv_ord'], 'units': c['units'], 'file_no': c['file_no'],
                    'size': c['size'], 'rc': c['rc'], 'sub_channels': exp_sc, 'bursts': exp_bu, 'samples': exp_sa}
            for k in want:
                if got[k] != want[k]:
                    bad.append('channel %d %s decoded %r, written %r' % (ci, k, got[k], want[k]))
        if bad:
            viol('channel_blocks', 'values', 'decoded channel blocks differ: %s' % bad[0],
                 dict(w, differences=bad[:10], channels=[{k: v for k, v in c.items()} for c in chans], record=lr[:800]))


LEVEL_TEXT = ('Random tables and format specifications are composed with the real classes, written, framed by an independent physical '
              'framer and decoded by the real reader; the composing model is the oracle.  The writer output of entry block sets is also '
              'parsed by the harness, and the table reader is also fed by an independent table encoder with duplicate rows present.  '
              'Sampled, not exhaustive.')
LEVEL_NOTE = ('Trusted: the harness framer/encoder/decoder in tdv.gen.lis; Python equality.  Not covered: tables whose first block is not a '
              'type 73 block, encrypted/unknown table records, entry block sizes that disagree with the representation code.')
TECHNIQUE = ('runtime monitoring: round-trip differential (real writer -> independent framer -> real reader) with the composing model as '
             'oracle, independent parse of writer output, independent encoder into the real reader, sys.monitoring mechanism counters')
