"""C02 DLIS index gives random access identical to the sequential read.

The real ``Index.LogicalRecordIndex`` is built over a ``TapFile`` holding a file written by the independent RP66V1 writer
``tdv.gen.dlis``; operation histories of fetches are checked against the writer's model (payload slices, index entries) and
the reads of every fetch are checked to stay inside the visible records that hold the fetched record.
"""
import itertools
import random

from tdv.core.findings import classifier

ID = 'C02'
TITLE = 'DLIS index gives random access identical to the sequential read'
NATIVE = 'plain'          # importing RP66V1.core.File pulls in TotalDepth.LIS (via util.bin_file_type)
NEEDS = ('icontract',)
RULE = ('A case is one (file, operation history): a generated RP66V1 file (as C01, with at least one record in >= 3 segments and >= 2 '
        'visible records) and 50..400 operations drawn from full fetches (random / repeated / descending / ascending index), '
        '(offset, -1) and (offset, length) fetches placed around segment and visible-record boundaries (b-1, b, b+1), zero lengths, '
        'lengths and offsets at and beyond the end (rarely 2**31..10**20), fetches by position (the index\'s own position object or an '
        'equal one kept from a position scan), interleaved complete or abandoned sequential passes and index rescans on the same '
        'reader, suspended passes resumed between fetches (only the fetches are asserted), the index closed and entered again, '
        'fetches from a second index kept open on another file, results kept by the caller (some read through, all re-checked later); '
        'every fifth file also indexed from a path; one file of 1000+ records per shard.  Distinct by file bytes + operation list.  Non-trivial = the history has a partial fetch '
        'whose range crosses a segment boundary of its record and a fetch whose index is lower than that of the fetch before it.  '
        'Enumerated sub-spaces (distinct by construction): every (offset 0..L+2, length -1..L+3) pair on records of every cut in the '
        'stated scope; a pair is non-trivial when its range crosses a segment boundary.')
ASSUMPTIONS = [
    'tdv.gen.dlis writes only conformant layouts and its model (payloads, segment and visible-record positions) is the ground truth',
    'length = -1 means "to the end" (documented); other negative lengths and negative offsets are outside the quantifier and not generated',
    'a fetch may read any byte of the visible records that hold segments of the fetched record (including their headers and '
    'neighbouring segments in the same visible records); reads that return no bytes (at end of file) touch nothing',
    'the index entry length (ld_length, documented as including pad bytes) is not part of the property; agreement with '
    'payload+pad is only counted',
    'a fetch returns a LogicalData whose read cursor is at 0 (what FileLogicalData.seal() documents and every decoder relies on); an '
    'object kept from an earlier fetch keeps its bytes whatever is fetched later',
]
_PF = 'TotalDepth.RP66V1.core.pFile'
_PI = 'TotalDepth.RP66V1.core.pIndex'
MECHANISMS = [
    (_PF, 'FileRead.get_file_logical_data'),
    (_PF, 'FileRead.iter_logical_record_positions'),
    (_PF, 'FileRead._seek_and_read_next_logical_record_segment_header'),
    (_PF, 'FileRead._read_full_logical_data'),
    (_PI, 'LogicalRecordIndex.get_file_logical_data'),
    (_PI, 'LogicalRecordIndex.get_file_logical_data_at_position'),
]
REQUIRED_MONITORS = ['fetch_vs_model', 'read_containment', 'index_vs_model', 'sequential_pass', 'exhaustive_pairs', 'earlier_results_unchanged',
                     'index_from_path', 'index_reloaded_from_pickle',
                     'contract:FileRead.get_file_logical_data', 'contract:FileRead.seek_next_header',
                     'contract:FileRead.read_full_logical_data', 'contract:FileLogicalData.invariant']
MIN_NONTRIVIAL = {'quick': 15000, 'thorough': 1000000}
TIMEOUT_S = {'quick': 300, 'thorough': 3000}
NSHARDS = 16
N_FILES = {'quick': 320, 'thorough': 10000}           # random-history files, all shards together
SCOPE = {
    # L_cuts: every cut into <= 4 segments of every payload length 1..L_cuts, every pair;  L_max / cuts_per_len: every pair on
    # `cuts_per_len` random cuts (1..4 segments, random layout) for every payload length 1..L_max
    'quick': {'L_cuts': 8, 'L_max': 40, 'cuts_per_len': 2},
    'thorough': {'L_cuts': 17, 'L_max': 80, 'cuts_per_len': 16},
}
MAX_PER_KIND = 20


def plan(tier, seed):
    return [{'part': i, 'parts': NSHARDS, 'n_files': N_FILES[tier] // NSHARDS, 'scope': SCOPE[tier]} for i in range(NSHARDS)]


# --------------------------------------------------------------------------------------------- F2 model (known finding)
def f2_formula(chunks, offset, length):
    """What pFile.FileRead.get_file_logical_data computed before repair: the end index of the slice taken from each segment
    ignores the bytes already taken from earlier segments (index_to = index_from + length)."""
    out = bytearray()
    bytes_read = 0
    logical_data_index = 0
    for by in chunks:
        if bytes_read != length:
            index_from = max(0, offset - logical_data_index)
            index_to = index_from + length if length >= 0 else len(by)
            sl = by[index_from:index_to]
            out += sl
            bytes_read += len(sl)
            logical_data_index += len(by)
    return bytes(out)


def _is_f2(chunks, offset, length, got, expected):
    return length > 0 and got != expected and len(got) > len(expected) and got == f2_formula(chunks, offset, length)


@classifier('c02_partial_fetch_ignores_bytes_taken')
def _f2(v):
    """F2: a partial fetch over several segments returns too many bytes, exactly those of the index_to = index_from + length formula."""
    if v.get('monitor') != 'fetch_vs_model' or v.get('kind') != 'slice':
        return False
    w = v['witness']
    payload = bytes.fromhex(w['payload_hex'])
    got = bytes.fromhex(w['got_hex'])
    cuts = w['segment_data_lengths']
    if sum(cuts) != len(payload) or len(cuts) < 2:
        return False
    chunks, o = [], 0
    for c in cuts:
        chunks.append(payload[o:o + c])
        o += c
    offset, length = w['offset'], w['length']
    expected = payload[offset:] if length < 0 else payload[offset:offset + length]
    return _is_f2(chunks, offset, length, got, expected)


# --------------------------------------------------------------------------------------------- helpers
def compositions(n, kmax):
    kmax = min(kmax, n)
    for k in range(1, kmax + 1):
        for bars in itertools.combinations(range(1, n), k - 1):
            edges = (0,) + bars + (n,)
            yield tuple(edges[i + 1] - edges[i] for i in range(k))


def make_payload(rng, n):
    """Position-identifying payload: no two different slices of length >= 3 are likely to be equal."""
    b = bytearray(rng.getrandbits(8) for _ in range(n))
    if n and rng.random() < 0.3:
        b[-1] = rng.choice([0, 1, 2, 3, 255])
    return bytes(b)


def spanning_file(rng):
    """A random file (as C01) with at least one record in >= 3 segments and >= 2 visible records."""
    from tdv.gen import dlis
    for attempt in range(6):
        lay = dlis.random_layout(rng)
        lay['p_enc_padbit'] = rng.choice([0.0, 0.3, 1.0])
        lrs = dlis.random_records(rng, n=rng.randrange(2, 26), vr_cap=lay['vr_cap'])
        data, model = dlis.write_file_safe(rng, lrs, layout=lay)
        if any(len(r.segments) >= 3 and len(r.vr_ranges) >= 2 for r in model.records):
            return data, model
    lay = dlis.random_layout(rng)
    lay.update(vr_cap=rng.choice([20, 40, 64, 120]), seg_small=True, p_close_vr=0.3, p_enc_padbit=0.0)
    lrs = dlis.random_records(rng, n=rng.randrange(2, 16), vr_cap=lay['vr_cap'], allow_encrypted=False)
    lrs.insert(rng.randrange(len(lrs) + 1), dlis.LR(rng.random() < 0.5, rng.randrange(256), make_payload(rng, rng.randrange(400, 900)), False))
    data, model = dlis.write_file_safe(rng, lrs, layout=lay)
    assert any(len(r.segments) >= 3 and len(r.vr_ranges) >= 2 for r in model.records)
    return data, model


def boundaries(rm):
    """Payload offsets at which a new segment / a new visible record starts (ground truth from the model)."""
    segs, vrs, last_vr = [], [], None
    for s in rm.segments:
        if s.data_offset not in segs:
            segs.append(s.data_offset)
        if last_vr is not None and s.vr_position != last_vr:
            vrs.append(s.data_offset)
        last_vr = s.vr_position
    L = len(rm.lr.payload)
    inner = sorted(b for b in set(segs) if 0 < b < L)
    return inner, sorted(set(vrs))


class Driver:
    """Drives one index and checks every operation against the model."""

    def __init__(self, ctx, File, Index, contracts):
        self.ctx, self.rec, self.File, self.Index, self.contracts = ctx, ctx.rec, File, Index, contracts
        self.kinds = {}
        self.f2_recorded = 0
        self.op_sequences = set()
        self.held = None            # results kept by the caller during a history
        self.alt_positions = None   # position objects from a rescan (equal to the index's, other objects)
        self.tmpdir = __import__('os').environ.get('VERIF_SHARD_TMP') or None
        self.hrng = random.Random(0)

    def violation(self, monitor, kind, msg, witness, exc=None, cap_key=None):
        key = (monitor, cap_key or kind)
        n = self.kinds.get(key, 0)
        self.kinds[key] = n + 1
        if n < MAX_PER_KIND:
            self.rec.violation(monitor, kind, msg, witness, exc=exc)

    def base_witness(self, data, model, i=None, history=None):
        w = {'file': data, 'file_len': len(data), 'layout': model.layout, 'n_records': len(model.records)}
        if i is not None:
            rm = model.records[i]
            w.update(record_index=i, record=rm.describe(), segment_data_lengths=[s.data_length for s in rm.segments],
                     segments=[s.as_dict() for s in rm.segments[:40]])
        if history is not None:
            w['history_before'] = [list(h) for h in history[-40:]]
            w['history_length'] = len(history)
        return w

    # ---- index
    def check_index(self, idx, data, model, tag='index'):
        rec = self.rec
        rec.mon('index_vs_model')
        if len(idx) != len(model.records):
            self.violation('index_vs_model', 'count', '%s has %d entries for %d logical records' % (tag, len(idx), len(model.records)),
                           self.base_witness(data, model))
            return False
        ok = True
        for i, rm in enumerate(model.records):
            e = idx[i]
            got = (e.position.vr_position, e.position.lrsh_position, e.description.lr_type, e.description.attributes.is_eflr,
                   e.description.attributes.is_encrypted)
            exp = (rm.vr_position, rm.lrsh_position, rm.lr.lr_type, rm.lr.eflr, rm.lr.encrypted)
            if got != exp:
                ok = False
                kind = 'position' if got[:2] != exp[:2] else ('type' if got[2] != exp[2] else 'kind')
                self.violation('index_vs_model', kind, '%s entry %d is (vr=0x%x lrsh=0x%x type=%d eflr=%s enc=%s), written (vr=0x%x lrsh=0x%x type=%d eflr=%s enc=%s)'
                               % ((tag, i) + got + exp), dict(self.base_witness(data, model, i), got=list(got), expected=list(exp)))
                break
            rec.add('index_entries_checked')
            rec.add('index_ld_length_compared')
            if e.description.ld_length == sum(s.data_length + s.pad for s in rm.segments):
                rec.add('index_ld_length_equals_payload_plus_pad')
        vrp = idx.visible_record_positions
        if ok and vrp != [r.vr_position for r in model.records]:
            self.violation('index_vs_model', 'visible_record_positions', 'visible_record_positions differs from the written positions',
                           dict(self.base_witness(data, model), got=vrp[:50]))
        return ok

    # ---- one fetch
    def fetch(self, idx, tap, data, model, i, offset, length, how, history):
        """how: 'default' (index only), 'args' (index, offset, length), 'pos' (by position)."""
        rec = self.rec
        rm = model.records[i]
        P = rm.lr.payload
        expected = P if (offset == 0 and length < 0) else (P[offset:] if length < 0 else P[offset:offset + length])
        if tap is not None:
            tap.mark()
        try:
            if how == 'default':
                fld = idx.get_file_logical_data(i)
            elif how == 'pos':
                fld = idx.get_file_logical_data_at_position(idx[i].position, offset, length)
            elif how == 'pos2':     # a position object of equal value that is not the index's own (kept from an earlier position scan)
                fld = idx.get_file_logical_data_at_position(self.alt_positions[i], offset, length)
            else:
                fld = idx.get_file_logical_data(i, offset, length)
            got = fld.logical_data.bytes
            ld = fld.logical_data
            # what a consumer reads through the LogicalData interface (cursor at the start, everything remaining)
            via_cursor = ld.view_remaining(ld.remain) if ld.index == 0 else None
        except Exception as e:
            self.violation('fetch_vs_model', 'raised', 'fetch(%d, %d, %d) raised %s: %s' % (i, offset, length, type(e).__name__, e),
                           dict(self.base_witness(data, model, i, history), offset=offset, length=length, how=how), exc=e)
            del self.contracts.BREACHES[:]
            return None
        rec.mon('fetch_vs_model')
        breaches = self.contracts.drain() if self.contracts.BREACHES else []
        if got != expected:
            chunks = [P[s.data_offset:s.data_offset + s.data_length] for s in rm.segments]
            f2 = _is_f2(chunks, offset, length, got, expected)
            if f2:
                self.f2_recorded += 1
                rec.add('fetches_matching_the_F2_formula')
            if not f2 or self.f2_recorded <= MAX_PER_KIND:      # (separate caps: F2-shaped results must not crowd out anything else)
                w = self.base_witness(data, model, i, history)
                w.update(offset=offset, length=length, how=how, payload_hex=P.hex(), got_hex=got.hex(), expected_len=len(expected),
                         got_len=len(got), contract_breaches=[list(b) for b in breaches],
                         header_fields_ok=(fld.lr_type == rm.lr.lr_type and fld.lr_is_eflr == rm.lr.eflr))
                self.violation('fetch_vs_model', 'slice', 'fetch(index=%d, offset=%d, length=%d) on a %d byte record in segments %s returned %d bytes, expected %d%s'
                               % (i, offset, length, len(P), [len(c) for c in chunks][:12], len(got), len(expected),
                                  '' if len(got) != len(expected) else ' (different content)'), w,
                               cap_key='slice:index_to-ignores-bytes-taken' if f2 else 'slice')
            breaches = [b for b in breaches if b[0] != 'FileRead.get_file_logical_data.length']
        elif (fld.lr_type, fld.lr_is_eflr, fld.lr_is_encrypted) != (rm.lr.lr_type, rm.lr.eflr, rm.lr.encrypted):
            self.violation('fetch_vs_model', 'header', 'fetch %d reports type=%d eflr=%s enc=%s, written type=%d eflr=%s enc=%s' % (
                i, fld.lr_type, fld.lr_is_eflr, fld.lr_is_encrypted, rm.lr.lr_type, rm.lr.eflr, rm.lr.encrypted),
                dict(self.base_witness(data, model, i, history), offset=offset, length=length))
        for name, msg in breaches:
            self.violation('contract:' + name, 'breach', msg, dict(self.base_witness(data, model, i, history), contract=name, message=msg,
                                                                  offset=offset, length=length))
        if got == expected and via_cursor != expected:
            # the bytes are right but a consumer (EFLR / IFLR decoding reads from the cursor) would not see them from the start:
            # e.g. an object handed out before and already read by its first consumer
            self.violation('fetch_vs_model', 'cursor', 'fetch(%d, %d, %d) returned a LogicalData whose cursor is at %r of %d bytes (a consumer reads from the cursor)'
                           % (i, offset, length, fld.logical_data.index, len(got)),
                           dict(self.base_witness(data, model, i, history), offset=offset, length=length, index=fld.logical_data.index))
        # the caller keeps some results and uses them as a consumer does (advancing the cursor); they must stay what they were
        if self.held is not None:
            r = self.hrng.random()
            if r < 0.25:
                if r < 0.12 and len(got):
                    fld.logical_data.seek(self.hrng.randrange(1, len(got) + 1))
                self.held.append((fld, expected, (i, offset, length)))
                if len(self.held) > 24:
                    del self.held[self.hrng.randrange(len(self.held))]
            elif r < 0.30:
                self.check_held(data, model, history)
        # read containment
        if tap is None:
            return got
        rec.mon('read_containment')
        rec.add('fetch_reads', len(tap.reads))
        rec.add('fetch_bytes_read', sum(n for _, n in tap.reads))
        bad = tap.outside(rm.vr_ranges)
        if bad:
            self.violation('read_containment', 'outside', 'fetch(%d, %d, %d) read %s outside the visible records %s that hold the record' % (
                i, offset, length, bad[:6], rm.vr_ranges[:8]),
                dict(self.base_witness(data, model, i, history), offset=offset, length=length, reads=tap.reads[:100], outside=bad[:20],
                     allowed=rm.vr_ranges))
        return got

    def check_held(self, data, model, history):
        """Results of earlier fetches that the caller kept: later fetches must not have changed them."""
        for fld, expected, (i, offset, length) in self.held or []:
            self.rec.mon('earlier_results_unchanged')
            now = fld.logical_data.bytes if fld.logical_data is not None else None
            if now != expected:
                self.violation('earlier_results_unchanged', 'changed', 'the result of an earlier fetch(%d, %d, %d) changed after later fetches: %s bytes now, %d when returned'
                               % (i, offset, length, None if now is None else len(now), len(expected)),
                               dict(self.base_witness(data, model, i, history), offset=offset, length=length))

    def sequential(self, idx, data, model, limit, history):
        rec = self.rec
        rec.mon('sequential_pass')
        got = []
        try:
            gen = idx.rp66v1_file.iter_logical_records()
            for fld in gen:
                got.append((fld.lr_is_eflr, fld.lr_type, fld.logical_data.bytes, fld.lr_is_encrypted))
                if limit is not None and len(got) >= limit:
                    break
            gen.close()
        except Exception as e:
            self.violation('sequential_pass', 'raised', 'a sequential pass between fetches raised %s: %s' % (type(e).__name__, e),
                           self.base_witness(data, model, None, history), exc=e)
            return
        exp = [(r.lr.eflr, r.lr.lr_type, r.lr.payload, r.lr.encrypted) for r in model.records]
        if limit is not None:
            exp = exp[:limit]
        rec.add('sequential_pass_events', len(got))
        if got != exp:
            k = next((j for j, (g, e) in enumerate(zip(got, exp)) if g != e), min(len(got), len(exp)))
            self.violation('sequential_pass', 'differs', 'a sequential pass between fetches differs from the written records at record %d (%d read, %d expected)'
                           % (k, len(got), len(exp)), self.base_witness(data, model, k if k < len(model.records) else None, history))

    # ---- random operation history on one file
    def history_case(self, rng, data, model, n_ops, sample=False, twin=None, extra_classes=()):
        """twin: (data, model) of another file; a second index on it may be kept open and fetched from in between."""
        from tdv.mon.tap import TapFile
        rec = self.rec
        rng = random.Random(rng.getrandbits(64))    # own stream: the shard stream never depends on how a history went
        self.held, self.hrng, self.alt_positions = [], random.Random(rng.getrandbits(32)), None
        live = {}                   # suspended generators of the reader's own iterators, stepped between fetches
        other = None
        tap = TapFile(data, name='<c02>')
        n = len(model.records)
        bnd = [boundaries(r) for r in model.records]
        multi = [i for i, r in enumerate(model.records) if len(r.segments) >= 2 and len(r.lr.payload) >= 2]
        big = [i for i, r in enumerate(model.records) if len(r.segments) >= 3 and len(r.vr_ranges) >= 2]
        ops = []
        crosses = descending = False
        last_i = None
        run = None                  # (direction, next index) for ascending / descending runs
        try:
            idx_cm = self.Index.LogicalRecordIndex(tap)
            idx_cm.__enter__()
        except Exception as e:
            self.violation('index_vs_model', 'raised', 'indexing a conformant file raised %s: %s' % (type(e).__name__, e),
                           self.base_witness(data, model), exc=e)
            return
        idx = idx_cm
        try:
            if not self.check_index(idx, data, model):
                return
            if twin is not None and rng.random() < 0.4:
                tap2 = TapFile(twin[0], name='<c02-twin>')
                try:
                    idx2 = self.Index.LogicalRecordIndex(tap2)
                    idx2.__enter__()
                    other = (idx2, tap2, twin[0], twin[1])
                    rec.cls('history:second-index-open')
                except Exception as e:
                    self.violation('index_vs_model', 'raised', 'indexing a conformant file raised %s: %s' % (type(e).__name__, e),
                                   self.base_witness(twin[0], twin[1]), exc=e)
            for step in range(n_ops):
                r = rng.random()
                if 0.02 <= r < 0.05:
                    if r < 0.032:
                        # a suspended pass of one of the reader's own iterators is resumed between fetches.  Only the fetches are
                        # asserted: what a resumed pass yields after the cursor was moved is not part of the property
                        which = 'records' if r < 0.027 else 'positions'
                        ops.append(('resume-suspended-pass', which))
                        rec.add('suspended_pass_steps')
                        try:
                            if which not in live:
                                live[which] = (idx.rp66v1_file.iter_logical_records() if which == 'records'
                                               else idx.rp66v1_file.iter_logical_record_positions())
                            for _ in range(rng.choice([1, 1, 2, 4])):
                                next(live[which])
                        except StopIteration:
                            live.pop(which, None)
                        except Exception:
                            live.pop(which, None)
                        continue
                    if r < 0.042:
                        if other is None:
                            continue
                        idx2, tap2, data2, model2 = other
                        j = rng.randrange(len(model2.records))
                        L2 = len(model2.records[j].lr.payload)
                        if rng.random() < 0.5:
                            o2, l2, h2 = 0, -1, 'default'
                        else:
                            o2, l2, h2 = rng.randrange(0, L2 + 2), rng.choice([-1, 0, 1, rng.randrange(0, L2 + 2)]), 'args'
                        ops.append(('second-index', j, o2, l2))
                        self.fetch(idx2, tap2, data2, model2, j, o2, l2, h2, ops)
                        continue
                    # the same index object closed and entered again
                    ops.append(('reenter',))
                    rec.add('index_reentered')
                    live.clear()
                    try:
                        idx_cm.__exit__(None, None, None)
                        idx_cm.__enter__()
                    except Exception as e:
                        self.violation('index_vs_model', 'raised', 'closing and entering the index again raised %s: %s' % (type(e).__name__, e),
                                       self.base_witness(data, model, None, ops), exc=e)
                        return
                    if not self.check_index(idx, data, model, tag='index entered a second time'):
                        return
                    continue
                if r < 0.015:
                    limit = None if rng.random() < 0.5 else rng.randrange(1, n + 1)
                    ops.append(('seq', -1 if limit is None else limit))
                    self.sequential(idx, data, model, limit, ops)
                    continue
                if r < 0.02:
                    ops.append(('rescan',))
                    try:
                        again = list(idx.rp66v1_file.iter_logical_record_positions())
                    except Exception as e:
                        self.violation('index_vs_model', 'raised', 'rescan raised %s: %s' % (type(e).__name__, e), self.base_witness(data, model, None, ops), exc=e)
                        continue
                    self._check_rescan(again, idx, data, model, ops)
                    if len(again) == n:
                        self.alt_positions = [e.position for e in again]
                    continue
                # ---- which record
                if run is not None and 0 <= run[1] < n:
                    i = run[1]
                    run = (run[0], run[1] + run[0])
                    if rng.random() < 0.15:
                        run = None
                else:
                    run = None
                    q = rng.random()
                    if q < 0.15 and last_i is not None:
                        i = last_i
                    elif q < 0.45 and (multi or big):
                        i = rng.choice(big if (big and rng.random() < 0.6) else (multi or big))
                    elif q < 0.55:
                        i = rng.randrange(n)
                        run = (-1, i - 1)
                    elif q < 0.62:
                        i = rng.randrange(n)
                        run = (1, i + 1)
                    else:
                        i = rng.randrange(n)
                rm = model.records[i]
                L = len(rm.lr.payload)
                segb, vrb = bnd[i]
                # ---- which fetch
                k = rng.random()
                if k < 0.25:
                    offset, length, how = 0, -1, rng.choice(['default', 'args', 'pos'])
                else:
                    marks = segb + vrb + [0, L]
                    cand = [0, L, L + 1, L + rng.randrange(2, 50), rng.randrange(0, L + 1)]
                    for b in (rng.choice(marks), rng.choice(marks)):
                        cand.extend([b - 1, b, b + 1])
                    if rng.random() < 0.03:
                        cand = [2 ** 31 - 1, 2 ** 31, 2 ** 32 + 5, 2 ** 63, 10 ** 20]
                    offset = max(0, rng.choice(cand))
                    if k < 0.40:
                        length = -1
                    elif rng.random() < 0.03:
                        length = rng.choice([2 ** 31 - 1, 2 ** 31, 2 ** 32 + 5, 2 ** 63, 10 ** 20])
                    else:
                        lc = [0, 1, 2, L - offset, L - offset + 1, L - offset - 1, L + 10, rng.randrange(0, L + 2)]
                        for b in (rng.choice(marks), rng.choice(marks), rng.choice(marks)):
                            lc.extend([b - offset - 1, b - offset, b - offset + 1])
                        length = rng.choice(lc)
                        if length < 0:
                            length = rng.choice([0, 1, rng.randrange(0, L + 2)])
                    how = rng.choice(['args', 'args', 'pos'])
                if how == 'pos' and self.alt_positions is not None and rng.random() < 0.5:
                    how = 'pos2'
                ops.append((how, i, offset, length))
                if last_i is not None and i < last_i:
                    descending = True
                last_i = i
                if length > 0 and any(offset < b < min(L, offset + length) for b in segb):
                    crosses = True
                    rec.add('partial_fetches_crossing_a_segment_boundary')
                    if any(offset < b < min(L, offset + length) for b in vrb):
                        rec.add('partial_fetches_crossing_a_visible_record_boundary')
                self.fetch(idx, tap, data, model, i, offset, length, how, ops)
            self.check_held(data, model, ops)
        finally:
            self.held = None
            for cm in [idx_cm] + ([other[0]] if other else []):
                try:
                    cm.__exit__(None, None, None)
                except Exception:
                    pass
        from tdv.core.rec import digest
        cl = model.classes() + list(extra_classes)
        rec.case((digest(data), ops), crosses and descending, classes=['history:' + c for c in cl],
                 sample={'file_len': len(data), 'records': [r.describe() for r in model.records[:2]], 'operations': [list(o) for o in ops[:12]],
                         'n_operations': len(ops)} if sample else None)
        rec.add('histories')
        rec.add('history_operations', len(ops))
        rec.maxi('max_history_length', len(ops))
        rec.extra['min_history_length'] = min(rec.extra.get('min_history_length', len(ops)), len(ops))
        self.op_sequences.add(digest([o[0] for o in ops]))
        rec.add('tap_reads_total', tap.n_reads)
        rec.add('tap_seeks_total', tap.n_seeks)
        rec.add('tap_bytes_total', tap.bytes_read)

    def path_case(self, rng, data, model, n_ops):
        """The index built from a path (a real, buffered file): index entries and fetched values against the model (reads cannot be tapped)."""
        import os
        if not self.tmpdir:
            return
        rec = self.rec
        rng = random.Random(rng.getrandbits(64))
        path = os.path.join(self.tmpdir, 'c02_path.dlis')
        with open(path, 'wb') as f:
            f.write(data)
        rec.mon('index_from_path')
        ops = []
        try:
            with self.Index.LogicalRecordIndex(path) as idx:
                if not self.check_index(idx, data, model, tag='index from a path'):
                    return
                n = len(model.records)
                for _ in range(n_ops):
                    i = rng.randrange(n)
                    L = len(model.records[i].lr.payload)
                    if rng.random() < 0.4:
                        o, ln, how = 0, -1, 'default'
                    else:
                        o, ln, how = rng.randrange(0, L + 2), rng.choice([-1, 0, 1, L, rng.randrange(0, L + 2)]), rng.choice(['args', 'pos'])
                    ops.append((how, i, o, ln))
                    self.fetch(idx, None, data, model, i, o, ln, how, ops)
                    rec.add('fetches_from_a_path_index')
                # the index saved and reloaded (what IndexPickle does: __getstate__ drops the open file, __setstate__ makes a new reader
                # from the path): the entries are the same and fetches through the reloaded index give the written payloads
                import pickle
                blob = pickle.dumps(idx)
            idx2 = pickle.loads(blob)
            rec.mon('index_reloaded_from_pickle')
            ops.append(('pickle-reload',))
            if self.check_index(idx2, data, model, tag='index reloaded from a pickle'):
                idx2.rp66v1_file._enter()
                try:
                    for _ in range(max(4, n_ops // 3)):
                        i = rng.randrange(n)
                        L = len(model.records[i].lr.payload)
                        if rng.random() < 0.4:
                            o, ln, how = 0, -1, 'default'
                        else:
                            o, ln, how = rng.randrange(0, L + 2), rng.choice([-1, 0, 1, L, rng.randrange(0, L + 2)]), rng.choice(['args', 'pos'])
                        ops.append((how, i, o, ln))
                        self.fetch(idx2, None, data, model, i, o, ln, how, ops)
                        rec.add('fetches_from_a_reloaded_index')
                finally:
                    idx2._exit()
        except Exception as e:
            self.violation('index_vs_model', 'raised', 'index from a path raised %s: %s' % (type(e).__name__, e), self.base_witness(data, model, None, ops), exc=e)

    def _check_rescan(self, again, idx, data, model, ops):
        self.rec.mon('index_vs_model')
        a = [(e.position.vr_position, e.position.lrsh_position, e.description.lr_type, e.description.attributes.attributes) for e in again]
        b = [(e.position.vr_position, e.position.lrsh_position, e.description.lr_type, e.description.attributes.attributes) for e in idx.lr_pos_desc]
        exp = [(r.vr_position, r.lrsh_position, r.lr.lr_type) for r in model.records]
        if a != b or [x[:3] for x in a] != exp:
            self.violation('index_vs_model', 'rescan', 'a position scan in the middle of a history differs from the index / the written positions',
                           self.base_witness(data, model, None, ops))

    # ---- all (offset, length) pairs on one record
    def all_pairs(self, rng, data, model, target, label):
        from tdv.mon.tap import TapFile
        rec = self.rec
        rm = model.records[target]
        L = len(rm.lr.payload)
        segb, _ = boundaries(rm)
        pairs = [(o, ln) for o in range(0, L + 3) for ln in range(-1, L + 4)]
        rng.shuffle(pairs)
        tap = TapFile(data, name='<c02>')
        nt = 0
        with self.Index.LogicalRecordIndex(tap) as idx:
            if not self.check_index(idx, data, model):
                return 0, 0
            others = [j for j in range(len(model.records)) if j != target]
            hist = []
            for k, (o, ln) in enumerate(pairs):
                if others and k % 7 == 3:           # touch a neighbour in between so that the cursor really moves
                    j = others[k % len(others)]
                    self.fetch(idx, tap, data, model, j, 0, -1, 'default', hist)
                hist.append(('args', target, o, ln))
                if len(hist) > 60:
                    del hist[:30]
                self.fetch(idx, tap, data, model, target, o, ln, 'args', hist)
                rec.mon('exhaustive_pairs')
                if ln > 0 and any(o < b < min(L, o + ln) for b in segb):
                    nt += 1
        return len(pairs), nt


def enumerated(ctx, drv, rng, p):
    from tdv.gen import dlis
    rec, scope, part, parts = ctx.rec, p['scope'], p['part'], p['parts']
    base = {'seg_small': False, 'p_pad': 0.0, 'p_chk': 0.0, 'p_trail': 0.0, 'p_empty_mid': 0.0}
    packings = [{'vr_cap': 16384, 'p_close_vr': 0.0}, {'vr_cap': 16384, 'p_close_vr': 1.0}, {'vr_cap': 120, 'p_close_vr': 0.0}]
    trailers = [{'pad': bool(a), 'chk': bool(b), 'trail': bool(c)} for a in (0, 1) for b in (0, 1) for c in (0, 1)]

    def neighbours():
        return (dlis.LR(rng.random() < 0.5, rng.randrange(256), make_payload(rng, rng.randrange(0, 30)), False),
                dlis.LR(rng.random() < 0.5, rng.randrange(256), make_payload(rng, rng.randrange(0, 30)), False))

    # ---- every cut into <= 4 segments of every length 1..L_cuts
    space = [(L, c) for L in range(1, scope['L_cuts'] + 1) for c in compositions(L, 4)]
    mine = space[part::parts]
    evals = nt = 0
    for k, (L, cut) in enumerate(mine):
        pre, post = neighbours()
        lr = dlis.LR(rng.random() < 0.5, rng.randrange(256), make_payload(rng, L), False)
        lay = dict(base, **packings[(k + part) % 3])
        data, model = dlis.write_file(rng, [pre, lr, post], layout=lay, cuts={1: list(cut)}, opts={1: trailers[(k // 3 + part) % 8]})
        assert [s.data_length for s in model.records[1].segments] == list(cut)
        a, b = drv.all_pairs(rng, data, model, 1, 'cuts')
        evals += a
        nt += b
    rec.bulk_cases('every (offset 0..L+2, length -1..L+3) pair on every cut into <= 4 segments of every payload length L = 1..%d '
                   '(trailer options and visible-record packing rotated)' % scope['L_cuts'], evals, nt, exhaustive=True,
                   sample={'cuts_in_space': len(space), 'example_cut': list(mine[0][1]) if mine else None})
    # ---- every pair on random cuts (1..4 segments, zero-length segments allowed) for every length 1..L_max
    evals = nt = 0
    lengths = list(range(1, scope['L_max'] + 1))
    jobs = [(L, c) for L in lengths for c in range(scope['cuts_per_len'])]
    for k, (L, c) in enumerate(jobs[part::parts]):
        nseg = rng.choice([1, 2, 3, 3, 4, 4])
        edges = sorted(rng.randrange(0, L + 1) for _ in range(nseg - 1))
        edges = [0] + edges + [L]
        cut = [edges[j + 1] - edges[j] for j in range(nseg)]
        pre, post = neighbours()
        enc = rng.random() < 0.1
        tr = rng.choice(trailers)
        if enc:
            lo = 12 - (2 if tr['chk'] else 0) - (2 if tr['trail'] else 0)
            cut = [max(lo, x + (x % 2)) for x in cut]
        lr = dlis.LR(rng.random() < 0.5, rng.randrange(256), make_payload(rng, sum(cut)), enc)
        lay = dict(base, p_enc_padbit=rng.choice([0.0, 1.0]), **rng.choice(packings))
        data, model = dlis.write_file(rng, [pre, lr, post], layout=lay, cuts={1: cut}, opts={1: tr})
        a, b = drv.all_pairs(rng, data, model, 1, 'lengths')
        evals += a
        nt += b
    rec.bulk_cases('every (offset, length) pair on %d random cuts into 1..4 segments (empty segments allowed; 10%% encrypted, then rounded up to conformant even chunks) for every '
                   'payload length 1..%d' % (scope['cuts_per_len'], scope['L_max']), evals, nt, exhaustive=True,
                   sample={'records': len(jobs)})


def big_file_case(ctx, drv, rng):
    """One file per shard with far more records than the random files have (index of 1000+ entries), fetched at random."""
    from tdv.gen import dlis
    n = rng.randrange(1000, 2200) if ctx.tier == 'quick' else rng.randrange(3000, 9000)
    lay = dlis.random_layout(rng)
    lay.update(vr_cap=rng.choice([40, 64, 200, 1000, 8192, 16384]), p_enc_padbit=0.0)
    lrs = []
    for i in range(n):
        ln = rng.choice([0, 1, 4, 12, 13, rng.randrange(0, 60), rng.randrange(0, 60)])
        if rng.random() < 0.01:
            ln = rng.randrange(200, 2000)
        lrs.append(dlis.LR(rng.random() < 0.5, rng.choice([0, 1, 3, 5, 128, rng.randrange(256)]),
                           (__import__('struct').pack('>I', i * 2654435761 & 0xffffffff) * (ln // 4 + 1))[:ln], False))
    data, model = dlis.write_file(rng, lrs, layout=lay)
    drv.history_case(rng, data, model, rng.randrange(150, 300), extra_classes=['records>=1000'])


def run_shard(ctx, p):
    from TotalDepth.RP66V1.core import File, Index
    from tdv.mon import contracts
    contracts.install_rp66v1_file_contracts()
    rng = ctx.rng if ctx.shard == p['part'] else random.Random('%s:%s:%s' % (ctx.seed, ID, p['part']))
    ctx.rng = rng
    drv = Driver(ctx, File, Index, contracts)
    prev = None
    for k in range(p['n_files']):
        data, model = spanning_file(rng)
        drv.history_case(rng, data, model, rng.randrange(50, 401), sample=(k < 1), twin=prev)
        if k % 5 == 0:
            drv.path_case(rng, data, model, 40)
        prev = (data, model)
    big_file_case(ctx, drv, rng)
    enumerated(ctx, drv, rng, p)
    rec = ctx.rec
    rec.add('distinct_operation_kind_sequences', len(drv.op_sequences))
    for name, cnt in contracts.COUNTS.items():
        rec.mon('contract:' + name, cnt)
    for name, msg in contracts.drain():
        rec.violation('contract:' + name, 'breach', msg, {'contract': name, 'message': msg})
    rec.note('violations_by_kind', {'%s/%s' % k: v for k, v in sorted(drv.kinds.items())})


LEVEL_TEXT = ('The real index is built over a read-logging file holding independently written RP66V1 files; thousands of operation histories '
              '(fetch orders, partial fetches around every segment / visible-record boundary, interleaved sequential passes) and the '
              'complete (offset, length) space of small records are compared with the writer\'s model, and the reads of every fetch are '
              'checked to stay inside the visible records holding the record.  Complete for the enumerated scopes, sampled beyond.')
LEVEL_NOTE = ('Trusted: tdv.gen.dlis and its model, TapFile (io.BytesIO subclass), icontract, the harness.  Not a proof for histories or '
              'layouts that were not generated.')
TECHNIQUE = ('runtime monitoring: operation-history differential against an independent model, read-containment I/O tap, exhaustive '
             'small-scope (offset, length) enumeration, icontract postconditions on the live reader, sys.monitoring mechanism counters')
