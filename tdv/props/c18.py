"""C18 Generated XML, XHTML and SVG are well-formed and carry the data unchanged."""
import hashlib
import html.entities
import io
import os
import re
import sys

from tdv.core.findings import classifier

ID = 'C18'
TITLE = 'Generated XML, XHTML and SVG are well-formed and carry the data unchanged'
NATIVE = 'plain'
NEEDS = ('icontract',)
RULE = ('(a) random element trees (depth <= 6, <= 40 elements, fixed element / attribute names) written through XmlStream, XhtmlStream and '
        'SVGWriter with Element context managers or start/endElement, mixed content, comments, processing instructions, literal entity '
        'references, <br/> splitting, script sections and early exit (exception or elements left open); attribute values and text over '
        'markup characters, quotes, blanks/tab/newline/CR, DEL and C1, Latin-1, BMP (U+2028, U+FEFF, U+FFFD, U+D7FF, U+E000), astral, and - '
        'in a separate class - C0 controls, NUL, U+FFFE/FFFF and lone surrogates; one class draws from all 1.1 million XML characters, '
        'and a few strings per thousand are 1000..6000 characters long.  Comments and processing instructions carry such strings too '
        '(only well-formedness is asserted for them), xmlSpacePreserve, the writer opening a path itself, declared encodings other '
        'than utf-8 and every SVG element class (polyline, polygon, group, text without position) are exercised.  '
        'A case is one tree (distinct by its operation log); '
        'non-trivial = at least 3 elements and one string outside [A-Za-z0-9 ].  (b, c) one case per (source file, writer): RP66V1 files '
        'from the hostile-string generator (names, labels, units, long names, ASCII values with markup / control / 8-bit bytes) and the '
        'example files through IndexXML and ScanHTML; hostile LAS text, example LAS and byte-mutated copies through LASToHTML; example LIS '
        'files, byte-mutated copies and generated LIS files (independent encoder) with hostile bytes through LisToHtml; generated LIS '
        'plot files with hostile mnemonics through the SVG plotter; every third source file has a name holding markup characters; '
        'non-trivial = the source holds at least one non-alphanumeric string.')
ASSUMPTIONS = [
    'XML-representable = every character is an XML 1.0 Char (#x9 #xA #xD #x20-#xD7FF #xE000-#xFFFD #x10000-#x10FFFF)',
    'element and attribute names and processing-instruction targets are fixed identifiers, as in the real writers; script text is plain; '
    'comment and processing-instruction text is arbitrary but only has to leave the document well-formed',
    'whitespace-only text that the writer adds as indentation is ignored where the model has no text (never where the model has text)',
    'a writer that raises is recorded (class writer-raised:*), not judged: the property speaks about the documents that are written; '
    'whatever was written up to the exception must still be well-formed',
    'frame types without any frame data and LAS files without frames are outside the quantifier (C04: 1..n frames) and only counted',
    'RLE float entries are expanded as datum + i * stride and compared within 4 eps (relative) of the floating type of the X channel (single precision X values are printed with their shortest single precision text), integers exactly',
    'both expat (xml.etree, XHTML entity sets preloaded) and libxml2 (lxml, resolve_entities=False, no_network=True) must accept a document',
]
MECHANISMS = [
    ('TotalDepth.util.XmlWrite', 'XmlStream._encode'), ('TotalDepth.util.XmlWrite', 'XmlStream.endElement'),
    ('TotalDepth.util.XmlWrite', 'XmlStream.__exit__'), ('TotalDepth.util.XmlWrite', 'Element.__exit__'),
    ('TotalDepth.RP66V1.IndexXML', 'xml_rle_write'), ('TotalDepth.RP66V1.IndexXML', 'write_logical_file_sequence_to_xml'),
    ('TotalDepth.RP66V1.ScanHTML', 'html_scan_RP66V1_file_data_content'), ('TotalDepth.LAS.LASToHTML', 'las_file_to_html'),
    ('TotalDepth.LIS.LisToHtml', 'LisToHtml.processFile'),
]
REQUIRED_MONITORS = ['tree_parses', 'tree_equals_model', 'contract:XmlStream.stacks', 'contract:XmlStream.exit', 'index_xml_parses',
                     'index_entries', 'index_rle_expansion', 'index_strings_recovered', 'index_cell_values_recovered', 'html_rp66v1_parses', 'html_las_parses',
                     'html_lis_parses', 'svg_parses']
MIN_NONTRIVIAL = {'quick': 5000, 'thorough': 600000}
TIMEOUT_S = {'quick': 400, 'thorough': 3300}
NSHARDS = 16
N_TREES = {'quick': 1000, 'thorough': 120000}
N_RP66 = {'quick': 12, 'thorough': 1200}
N_LAS = {'quick': 8, 'thorough': 800}
N_LIS = {'quick': 3, 'thorough': 160}
N_LIS_GEN = {'quick': 5, 'thorough': 300}
N_SVG = {'quick': 2, 'thorough': 240}
EPS = sys.float_info.epsilon
XHTML_NS = 'http://www.w3.org/1999/xhtml'
SVG_NS = 'http://www.w3.org/2000/svg'


def _h(b):
    return hashlib.blake2b(b, digest_size=12).hexdigest()


def plan(tier, seed):
    return [{'part': i, 'parts': NSHARDS, 'n_trees': N_TREES[tier], 'n_rp66': N_RP66[tier], 'n_las': N_LAS[tier], 'n_lis': N_LIS[tier], 'n_lis_gen': N_LIS_GEN[tier],
             'n_svg': N_SVG[tier]} for i in range(NSHARDS)]


# ------------------------------------------------------------------------------------------------ parsing
ENTITIES = {k: chr(v) for k, v in html.entities.name2codepoint.items()}
RE_NUMREF = re.compile(r'&#(x[0-9a-fA-F]+|[0-9]+);')
RE_COMMENT = re.compile(r'<!--(.*?)-->(?!>)', re.S)


def xml_char(o):
    return o in (0x9, 0xA, 0xD) or 0x20 <= o <= 0xD7FF or 0xE000 <= o <= 0xFFFD or 0x10000 <= o <= 0x10FFFF


def representable(s):
    return all(xml_char(ord(c)) for c in s)


def parse_et(doc):
    import xml.etree.ElementTree as ET
    p = ET.XMLParser()
    p.entity.update(ENTITIES)
    p.feed(doc)
    return p.close()


def parse_lxml(doc):
    from lxml import etree
    return etree.fromstring(doc.encode('utf-8', 'surrogatepass') if isinstance(doc, str) else doc,
                            etree.XMLParser(resolve_entities=False, no_network=True, load_dtd=False, remove_comments=True, remove_pis=True))


def illegal_refs(doc):
    out = []
    for m in RE_NUMREF.finditer(doc):
        t = m.group(1)
        try:
            o = int(t[1:], 16) if t[0] == 'x' else int(t)
        except ValueError:
            continue
        if o > 0x10FFFF or not xml_char(o):
            out.append(o)
    return out


def parse_both(doc):
    """-> (et root | None, lxml root | None, [(parser, message)])"""
    errs = []
    r1 = r2 = None
    try:
        r1 = parse_et(doc)
    except Exception as e:  # noqa
        errs.append(('expat', '%s: %s' % (type(e).__name__, str(e)[:200])))
    try:
        r2 = parse_lxml(doc)
    except Exception as e:  # noqa
        errs.append(('lxml', '%s: %s' % (type(e).__name__, str(e)[:200])))
    return r1, r2, errs


def unparseable_witness(doc, errs, extra=None):
    """Everything a classifier needs: which numeric character references denote non-XML characters, and whether they are
    the *only* obstacle (the document parses once they are replaced by U+FFFD)."""
    bad = illegal_refs(doc)
    fixed = RE_NUMREF.sub(lambda m: '&#65533;' if (lambda t: (int(t[1:], 16) if t[0] == 'x' else int(t)))(m.group(1)) in set(bad) else m.group(0), doc) if bad else doc
    ok_after = False
    if bad:
        a, b, e2 = parse_both(fixed)
        ok_after = not e2
    raw_bad = sorted({ord(c) for c in doc if not xml_char(ord(c))})[:10]
    # comments whose text contains "--" (not allowed inside an XML comment) and whether they are the only obstacle
    ncom = [0]

    def _fix_comment(m):
        inner = m.group(1)
        if '--' in inner or inner.endswith('-'):
            ncom[0] += 1
            while '--' in inner:
                inner = inner.replace('--', '- -')
            if inner.endswith('-'):
                inner += ' '
        return '<!--' + inner + '-->'
    fixed_c = RE_COMMENT.sub(_fix_comment, doc)
    ok_after_c = ok_both = False
    if ncom[0]:
        a, b, e3 = parse_both(fixed_c)
        ok_after_c = not e3
    if ncom[0] and bad:
        a, b, e4 = parse_both(RE_COMMENT.sub(_fix_comment, fixed))
        ok_both = not e4
    else:
        ok_both = ok_after or ok_after_c
    w = {'errors': errs, 'illegal_char_refs': sorted(set(bad))[:20], 'parses_after_replacing_illegal_refs': ok_after,
         'raw_illegal_characters_in_document': raw_bad, 'comments_with_double_hyphen': ncom[0], 'parses_after_fixing_comments': ok_after_c, 'parses_after_both_repairs': ok_both,
         'document_head': doc[:400], 'document_length': len(doc)}
    m = re.search(r'line (\d+), column (\d+)', errs[0][1]) if errs else None
    if m:
        lines = doc.split('\n')
        ln, col = int(m.group(1)), int(m.group(2))
        if 0 < ln <= len(lines):
            w['error_context'] = lines[ln - 1][max(0, col - 60):col + 60]
    w.update(extra or {})
    return w


# ------------------------------------------------------------------------------------------------ (a) trees
EL_NAMES = ['a', 'p', 'td', 'Root', 'LgCurve', 'x-y', 'el_1', 'Value', 'g', 'text']
ATTR_NAMES = ['id', 'class', 'value', 'stroke-width', 'long_name', 'units', 'x1', 'href', 'data-x', 'I']


class Node:
    __slots__ = ('name', 'attrs', 'content')

    def __init__(self, name, attrs):
        self.name, self.attrs, self.content = name, attrs, []     # content: str | Node

    def segments(self):
        """[text, child, text, child, ..., text] with adjacent text merged."""
        segs = ['']
        for c in self.content:
            if isinstance(c, str):
                segs[-1] += c
            else:
                segs.append(c)
                segs.append('')
        return segs

    def count(self):
        return 1 + sum(c.count() for c in self.content if isinstance(c, Node))


class _Stop(Exception):
    pass


def drive_tree(rng, X, H, stream_kind, profile, log):
    """Write one random tree with the real writer; returns (document, model root, info)."""
    from TotalDepth.util.plot import SVGWriter, Coord
    f = io.StringIO()
    info = {'strings': [], 'early_exit': None, 'elements': 0}
    budget = [rng.choice([3, 8, 20, 40])]
    abort_at = rng.randrange(2, 60) if rng.random() < 0.25 else None
    ops = [0]
    style = rng.choice(['with', 'with', 'mixed', 'startend'])
    info['style'] = style

    def S(maxlen=16):
        if profile != 'plain' and rng.random() < 0.004:
            # a string longer than any buffer the writer (or a replacement of its character loop) might use
            s = H.hostile_text(rng, 6000, rng.sample(H.REPRESENTABLE_CLASSES, rng.randrange(1, 4)) if profile != 'any' else
                               rng.sample(H.REPRESENTABLE_CLASSES + H.UNREPRESENTABLE_CLASSES, rng.randrange(1, 4)), length=rng.choice([1000, 4097, 6000]))
            info['long_string'] = True
        elif profile == 'any' and rng.random() < 0.35:
            s = H.hostile_text(rng, maxlen, rng.sample(H.REPRESENTABLE_CLASSES + H.UNREPRESENTABLE_CLASSES, rng.randrange(1, 4)))
        elif profile == 'plain':
            s = H.hostile_text(rng, maxlen, ['plain'])
        else:
            s = H.hostile_text(rng, maxlen)
        info['strings'].append(s)
        return s

    def tick():
        ops[0] += 1
        if abort_at is not None and ops[0] >= abort_at:
            raise _Stop()

    def body(xs, node, depth):
        n = rng.choice([0, 1, 1, 2, 3, 5])
        for _ in range(n):
            tick()
            k = rng.random()
            if k < 0.42 and budget[0] > 0 and depth < 6:
                element(xs, node, depth + 1)
            elif k < 0.75:
                s = S(24)
                if stream_kind == 'xhtml' and rng.random() < 0.3:
                    log.append(('charactersWithBr', s))
                    # model: text split at newlines with empty <br/> elements
                    parts = s.split('\n')
                    for i, part in enumerate(parts):
                        if i:
                            node.content.append(Node('br', {}))
                        if part:
                            node.content.append(part)
                    xs.charactersWithBr(s)
                else:
                    # the same text in one or several calls
                    cuts = sorted(rng.sample(range(len(s) + 1), min(len(s) + 1, rng.choice([0, 0, 1, 2]))))
                    pieces = [s[a:b] for a, b in zip([0] + cuts, cuts + [len(s)])]
                    for piece in pieces:
                        log.append(('characters', piece))
                        node.content.append(piece)
                        xs.characters(piece)
            elif k < 0.82:
                # comments carry file data too (the plot writer puts curve mnemonics into them): whatever the text, the document must
                # stay well-formed; the comment text itself is not compared
                t = ' plain comment %d ' % rng.randrange(100) if rng.random() < 0.5 else S(16)
                log.append(('comment', t))
                xs.comment(t)
            elif k < 0.86:
                t = 'target data=%d' % rng.randrange(100) if rng.random() < 0.5 else 'target ' + S(12)
                log.append(('pI', t))
                xs.pI(t)
            elif k < 0.875:
                # indentation suspended for this element and its descendants: nothing is added to the model
                log.append(('xmlSpacePreserve',))
                xs.xmlSpacePreserve()
            elif k < 0.93 and stream_kind == 'xhtml':
                log.append(('literal', '&nbsp;'))
                node.content.append('\xa0')
                xs.literal('&nbsp;')
            elif k < 0.96:
                script = 'var i = %d; if (i < 3 && i > 1) { i = "x"; }' % rng.randrange(10)
                log.append(('writeECMAScript', script))
                sn = Node('script', {'type': 'text/ecmascript'})
                sn.content.append('\n//\n' + script + '\n// \n')
                node.content.append(sn)
                xs.writeECMAScript(script)
            else:
                log.append(('characters', ''))
                node.content.append('')
                xs.characters('')

    def element(xs, parent, depth):
        budget[0] -= 1
        info['elements'] += 1
        name = rng.choice(EL_NAMES)
        attrs = {k: S(16) for k in rng.sample(ATTR_NAMES, rng.choice([0, 0, 1, 2, 4]))}
        node = Node(name, dict(attrs))
        parent.content.append(node)
        use_with = style == 'with' or (style == 'mixed' and rng.random() < 0.6)
        if use_with:
            log.append(('with Element', name, dict(attrs)))
            with (X.Element(xs, name) if (not attrs and rng.random() < 0.5) else X.Element(xs, name, attrs)):
                body(xs, node, depth)
            log.append(('exit Element', name))
        elif style == 'mixed':
            # start/endElement used carefully (try/finally), so that it nests with the context managers
            log.append(('startElement', name, dict(attrs)))
            xs.startElement(name, attrs)
            try:
                body(xs, node, depth)
            finally:
                log.append(('endElement', name))
                xs.endElement(name)
        else:
            log.append(('startElement', name, dict(attrs)))
            xs.startElement(name, attrs)
            body(xs, node, depth)
            if rng.random() < 0.08:
                info['early_exit'] = 'left-open'
                raise _Stop()        # this and all enclosing elements are left to XmlStream.__exit__
            log.append(('endElement', name))
            xs.endElement(name)
        return node

    root_holder = Node('#document', {})
    try:
        if stream_kind == 'xml':
            enc = rng.choice(['utf-8'] * 8 + ['UTF-8', 'us-ascii', 'US-ASCII', 'ISO-8859-1', 'iso-8859-1'])
            info['enc'] = enc
            if rng.random() < 0.04:
                # the writer opens (and closes) the file itself when it is given a path
                info['path'] = _tmp('tree.xml')
                with X.XmlStream(info['path'], theEnc=enc) as xs:
                    element(xs, root_holder, 1)
            else:
                with (X.XmlStream(f) if enc == 'utf-8' and rng.random() < 0.5 else X.XmlStream(f, theEnc=enc, theId=rng.randrange(1000))) as xs:
                    element(xs, root_holder, 1)
        elif stream_kind == 'xhtml':
            html = Node('html', None)
            root_holder.content.append(html)
            with X.XhtmlStream(f) as xs:
                body(xs, html, 1)
                body(xs, html, 1)
        else:
            vb = S(12)
            ra = {'viewBox': vb, 'stroke-width': S(6)}
            svg = Node('svg', dict({'xmlns': None, 'version': '1.1', 'width': '1.000in', 'height': '2.500in'}, **ra))
            root_holder.content.append(svg)
            with SVGWriter.SVGWriter(f, Coord.Box(Coord.Dim(1, 'in'), Coord.Dim(2.5, 'in')), rootAttrs=ra) as xs:
                body(xs, svg, 1)
                if rng.random() < 0.5:
                    t = S(12)
                    log.append(('SVGText', t))
                    tn = Node('text', {'font-family': 'Courier', 'font-size': '9', 'x': '0.500in', 'y': '0.250in'})
                    tn.content.append(t)
                    svg.content.append(tn)
                    with SVGWriter.SVGText(xs, Coord.Pt(Coord.Dim(0.5, 'in'), Coord.Dim(0.25, 'in')), 'Courier', 9):
                        xs.characters(t)
                if rng.random() < 0.7:
                    # one presentation dict reused by a run of different shape elements (as a legend drawer would): every element must
                    # come out with exactly its own geometry plus the caller's attributes, and the caller's dict must stay as it was
                    shared = {'class': S(8), 'stroke': rng.choice(['black', 'red', S(4)])}
                    before = dict(shared)

                    def dim(v):
                        return '%.3fin' % v
                    for _ in range(rng.randrange(2, 6)):
                        kind = rng.choice(['rect', 'circle', 'line', 'text', 'elipse', 'polyline', 'polygon', 'g', 'text-nowhere'])
                        a, b, c, d = [round(rng.uniform(0, 3), 2) for _ in range(4)]
                        pt = Coord.Pt(Coord.Dim(a, 'in'), Coord.Dim(b, 'in'))
                        if kind == 'rect':
                            geo = {'x': dim(a), 'y': dim(b), 'width': dim(c), 'height': dim(d)}
                            el = SVGWriter.SVGRect(xs, pt, Coord.Box(Coord.Dim(c, 'in'), Coord.Dim(d, 'in')), shared)
                        elif kind == 'circle':
                            geo = {'cx': dim(a), 'cy': dim(b), 'r': dim(c)}
                            el = SVGWriter.SVGCircle(xs, pt, Coord.Dim(c, 'in'), shared)
                        elif kind == 'elipse':
                            geo = {'cx': dim(a), 'cy': dim(b), 'rx': dim(c), 'ry': dim(d)}
                            el = SVGWriter.SVGElipse(xs, pt, Coord.Dim(c, 'in'), Coord.Dim(d, 'in'), shared)
                        elif kind == 'line':
                            geo = {'x1': dim(a), 'y1': dim(b), 'x2': dim(c), 'y2': dim(d)}
                            el = SVGWriter.SVGLine(xs, pt, Coord.Pt(Coord.Dim(c, 'in'), Coord.Dim(d, 'in')), shared)
                        elif kind in ('polyline', 'polygon'):
                            pts = [(round(rng.uniform(-50, 900), 2), round(rng.uniform(-50, 900), 2)) for _ in range(rng.choice([0, 1, 2, 5, 40]))]
                            geo = {'points': ' '.join('%.1f,%.1f' % (x, y) for x, y in pts)}
                            cls = SVGWriter.SVGPolyline if kind == 'polyline' else SVGWriter.SVGPolygon
                            el = cls(xs, [Coord.Pt(Coord.Dim(x, 'px'), Coord.Dim(y, 'px')) for x, y in pts], shared)
                        elif kind == 'g':
                            geo = {}
                            el = SVGWriter.SVGGroup(xs, shared)
                        elif kind == 'text-nowhere':
                            geo = {'font-family': 'Courier', 'font-size': '7'}
                            el = SVGWriter.SVGText(xs, None, 'Courier', 7, shared)
                        else:
                            geo = {'font-family': 'Courier', 'font-size': '7', 'x': dim(a), 'y': dim(b)}
                            el = SVGWriter.SVGText(xs, pt, 'Courier', 7, shared)
                        log.append(('SVG' + kind, sorted(geo)))
                        svg.content.append(Node('text' if kind == 'text-nowhere' else kind, dict(geo, **before)))
                        with el:
                            pass
                    if shared != before:
                        info['shared_attrs_mutated'] = {'before': before, 'after': dict(shared)}
    except _Stop:
        info['early_exit'] = info['early_exit'] or 'exception'
    roots = [c for c in root_holder.content if isinstance(c, Node)]
    doc = f.getvalue()
    if info.get('path'):
        with open(info['path'], 'rb') as fh:
            doc = fh.read().decode('utf-8', 'surrogateescape')
        os.unlink(info['path'])
    return doc, (roots[0] if roots else None), info


def localname(tag):
    return tag.rsplit('}', 1)[-1]


def canon_et(e):
    segs = [e.text or '']
    for c in e:
        segs.append(canon_et(c))
        segs.append(c.tail or '')
    return (localname(e.tag), {localname(k): v for k, v in e.attrib.items()}, segs)


def canon_lxml(e):
    from lxml import etree
    segs = [e.text or '']
    for c in e:
        if c.tag is etree.Entity:
            nm = (c.text or '')[1:-1]
            segs[-1] += ENTITIES.get(nm, '&%s;' % nm) + (c.tail or '')
            continue
        if not isinstance(c.tag, str):
            segs[-1] += (c.tail or '')
            continue
        segs.append(canon_lxml(c))
        segs.append(c.tail or '')
    return (localname(e.tag), {localname(k): v for k, v in e.attrib.items()}, segs)


RE_INDENT = re.compile(r'^(\n *)*$')


def compare(model, parsed, path='/', locked=False):
    """First difference between the model Node and a canonical parsed element, or None.
    Indentation ("\n" + blanks where nothing was written) is forgiven only while no text has been written into this element
    or an enclosing one earlier in document order (locked): after that, every character between the tags is text content of
    the mixed-content ancestor and must be exactly what was written."""
    name, attrs, segs = parsed
    here = path + model.name
    if name != model.name:
        return '%s: element <%s> where <%s> was written' % (here, name, model.name)
    if model.attrs is not None:
        exp = {k: v for k, v in model.attrs.items() if v is not None}
        got = {k: v for k, v in attrs.items() if k in exp or model.attrs.get(k, 0) is not None}
        got = {k: v for k, v in got.items() if not (k in model.attrs and model.attrs[k] is None)}
        if got != exp:
            for k in sorted(set(exp) | set(got)):
                if exp.get(k) != got.get(k):
                    return '%s: attribute %s recovered as %r, written %r' % (here, k, got.get(k), exp.get(k))
    msegs = model.segments()
    if len(msegs) != len(segs):
        return '%s: %d children where %d were written' % (here, len(segs) // 2, len(msegs) // 2)
    for i, (m, p) in enumerate(zip(msegs, segs)):
        if i % 2 == 0:
            if m != p and not (m == '' and not locked and RE_INDENT.match(p)):
                return '%s: text segment %d recovered as %r, written %r%s' % (
                    here, i // 2, p, m, ' (inside mixed content: text was written earlier into this or an enclosing element)' if locked and m == '' else '')
            if m != '':
                locked = True
        else:
            d = compare(m, p, here + '/', locked)
            if d:
                return d
    return None


def run_trees(ctx, n):
    from TotalDepth.util import XmlWrite as X
    from tdv.gen import hostile as H
    rec, rng = ctx.rec, ctx.rng
    cap = {'n': 0, 'f13': 0}
    for i in range(n):
        stream_kind = rng.choice(['xml', 'xml', 'xhtml', 'svg'])
        profile = rng.choice(['representable', 'representable', 'representable', 'any', 'plain'])
        log = []
        try:
            doc, model, info = drive_tree(rng, X, H, stream_kind, profile, log)
        except Exception as e:  # noqa  the writer itself raised on a legal call sequence
            rec.case(('tree', repr(log)), True, classes=['tree:writer-raised'])
            if cap['n'] < 20:
                cap['n'] += 1
                rec.violation('tree_parses', 'writer-raises', 'writer raised %s: %s' % (type(e).__name__, e), {'stream': stream_kind, 'ops': repr(log)[-1500:]}, exc=e)
            continue
        strings = info['strings']
        rep = all(representable(s) for s in strings)
        hostile = any(re.search(r'[^A-Za-z0-9 ]', s) for s in strings)
        classes = ['tree:' + stream_kind, 'tree:strings-representable' if rep else 'tree:strings-unrepresentable']
        classes.append('tree:style-' + info['style'])
        if info['early_exit']:
            classes.append('tree:early-exit-' + info['early_exit'])
        if info.get('long_string'):
            classes.append('tree:string>=1000-chars')
        if info.get('path'):
            classes.append('tree:writer-opens-path')
        if info.get('enc', 'utf-8') != 'utf-8':
            classes.append('tree:encoding-' + info['enc'].lower())
        for s in strings:
            for cname, chars in H.CLASSES.items():
                if cname != 'plain' and any(c in chars for c in s):
                    classes.append('chars:' + cname)
        rec.case(('tree', stream_kind, repr(log)), info['elements'] >= 3 and hostile, classes=sorted(set(classes)),
                 sample={'stream': stream_kind, 'ops': repr(log)[:300], 'document': doc[:300]} if (i == 5 and rep) else None)
        rec.maxi('max_tree_elements', info['elements'])
        r1, r2, errs = parse_both(doc)
        rec.mon('tree_parses')
        wit = {'stream': stream_kind, 'ops': repr(log)[-2500:], 'strings_representable': rep, 'early_exit': info['early_exit']}
        if info.get('shared_attrs_mutated'):
            rec.violation('tree_equals_model', 'caller-attrs-mutated', 'an SVG element constructor changed the attribute dict it was given: %r -> %r' % (
                info['shared_attrs_mutated']['before'], info['shared_attrs_mutated']['after']), dict(wit, **info['shared_attrs_mutated']))
        if errs:
            lim = 'f13' if not rep else 'n'
            if cap[lim] < 12:
                cap[lim] += 1
                rec.violation('tree_parses', 'unparseable', '%s document does not parse (%s): %s' % (stream_kind, errs[0][0], errs[0][1]),
                              unparseable_witness(doc, errs, wit))
            continue
        if model is None:
            continue
        if not rep:
            rec.mon('tree_unrepresentable_parses')
            continue
        rec.mon('tree_equals_model')
        for pname, canon in (('expat', canon_et(r1)), ('lxml', canon_lxml(r2))):
            d = compare(model, canon)
            if d:
                if cap['n'] < 20:
                    cap['n'] += 1
                    rec.violation('tree_equals_model', 'changed', '%s (%s): %s' % (stream_kind, pname, d), dict(wit, parser=pname, difference=d, document=doc[:3000]))
                break
        ns = {'xhtml': XHTML_NS, 'svg': SVG_NS}.get(stream_kind)
        if ns and not all(e.tag.startswith('{%s}' % ns) for e in r1.iter()):
            rec.violation('tree_equals_model', 'namespace', '%s: an element is outside the namespace %s' % (stream_kind, ns), wit)


# ------------------------------------------------------------------------------------------------ documents from sources
def _tmp(name):
    d = os.environ.get('VERIF_SHARD_TMP') or '.'
    os.makedirs(d, exist_ok=True)
    return os.path.join(d, name)


HOSTILE_FILE_NAMES = [" &<b>'q\"", ' a&amp;b', '--x--', ']]>', ' \xe9\u0394', '<!--', ' 100% {0}']


def _file_name(stem, ext, k):
    """Every third source file has a name with markup characters in it (legal on disk): the writers put the path into titles, attributes and links."""
    if k % 3 == 1:
        return stem + HOSTILE_FILE_NAMES[(k // 3) % len(HOSTILE_FILE_NAMES)] + ext
    return stem + ext


def check_document(rec, doc, monitor, what, cap, wit):
    """Well-formedness by both parsers.  Returns (et root, lxml root) or (None, None)."""
    rec.mon(monitor)
    rec.add('document_bytes', len(doc))
    r1, r2, errs = parse_both(doc)
    if errs:
        w = unparseable_witness(doc, errs, wit)
        # recognisable mechanisms (illegal character references, '--' in comments) are capped per monitor and mechanism
        key = ('refs' if w['illegal_char_refs'] else '') + ('comments' if w['comments_with_double_hyphen'] else '') if w['parses_after_both_repairs'] else 'n'
        key = (key, monitor)
        cap[key] = cap.get(key, 0)
        if cap[key] < 8:
            cap[key] += 1
            rec.violation(monitor, 'unparseable', '%s does not parse (%s): %s' % (what, errs[0][0], errs[0][1]), w)
        return None, None
    return r1, r2


def _num(t):
    return int(t) if re.fullmatch(r'[-+]?[0-9]+', t) else float(t)


def expand_rle(node, hexa, isfloat=False):
    out = []
    for r in node:
        if localname(r.tag) != 'RLE':
            continue
        if hexa:
            d, s = int(r.get('datum'), 16), int(r.get('stride'), 16)
        else:
            d, s = _num(r.get('datum')), _num(r.get('stride'))
        n = int(r.get('repeat'))
        out.extend(d + s * i for i in range(n + 1))
    return out


def _close(a, b, eps=EPS):
    if isinstance(a, float) or isinstance(b, float):
        return a == b or abs(a - b) <= 4 * eps * max(abs(a), abs(b))
    return a == b


def _x_expansion_close(xs, held, single):
    """Double precision X values: each expanded value equals the held one to a few units of the last place of the value itself
    (the run-length item absorbs a value only when it is that close to its extrapolation).  Single precision X values are held
    and extrapolated in float32 arithmetic, whose rounding is relative to the operands - the step, not a value that happens to
    lie next to zero: there the allowance is a few float32 units of the larger of value and neighbouring step."""
    for i, (a, b) in enumerate(zip(xs, held)):
        if not single:
            if not _close(a, b, EPS):
                return False
            continue
        step = max([abs(held[j + 1] - held[j]) for j in (i - 1, i) if 0 <= j < len(held) - 1] or [0.0])
        if not (a == b or abs(a - b) <= 4 * 2.0 ** -23 * max(abs(a), abs(b), step)):
            return False
    return True


def rp66_documents(ctx, src, k, cap):
    """IndexXML and ScanHTML on one RP66V1 source."""
    from TotalDepth.RP66V1 import IndexXML, ScanHTML
    from TotalDepth.RP66V1.core import LogicalFile
    from TotalDepth.common import Slice
    rec = ctx.rec
    fp = _tmp(_file_name('s%d' % k, '.dlis', k))
    with open(fp, 'wb') as f:
        f.write(src.data)
    m = src.model
    orng = ctx.sub_rng('rp66-options', k)
    wit = {'source': src.name, 'rp66v1': src.data if len(src.data) <= 4000 else src.data[:4000]}
    classes = ['rp66v1:' + c for c in src.classes]
    zero_frames = m is not None and any(len(ft.frames) == 0 for lf in m.logical_files for ft in lf.frame_types)
    if zero_frames:
        classes.append('rp66v1:frame-type-without-frames(outside quantifier)')
    hostile = m is None or any(re.search(rb'[^A-Za-z0-9 ]', b) for kind, b in m.strings())
    # ---- XML index
    out = io.StringIO()
    mem = None
    raised = None
    private = True
    try:
        with LogicalFile.LogicalIndex(fp) as li:
            # with and without the objects of private tables (the tool's -p option): the table entries are there either way
            private = ctx.sub_rng('index-private', k).random() < 0.5
            IndexXML.write_logical_file_sequence_to_xml(li, out, private=private)
            mem = {'vr': list(li.visible_record_positions), 'lfs': []}
            for lf in li.logical_files:
                fas = []
                if lf.has_log_pass:
                    for fa in lf.log_pass.frame_arrays:
                        refs = lf.iflr_position_map[fa.ident]
                        fas.append({'I': fa.ident.I, 'numbers': [r.frame_number for r in refs],
                                    'lrsh': [r.logical_record_position.lrsh_position for r in refs], 'x': [r.x_axis.item() if hasattr(r.x_axis, 'item') else r.x_axis for r in refs],
                                    'x_single': any(type(r.x_axis).__name__ == 'float32' for r in refs),
                                    'channels': len(fa.channels)})
                # the byte-string cells of every table, in document order: [[per object [(label, [bytes values])]] per table]
                cells = [[[(a.label, [v for v in (a.value or []) if isinstance(v, bytes)]) for a in o.attrs] for o in e.eflr.objects] for e in lf.eflrs]
                mem['lfs'].append({'eflrs': [(e.eflr.set.type, len(e.eflr.objects)) for e in lf.eflrs], 'fas': fas, 'cells': cells})
    except Exception as e:  # noqa
        raised = e
        rec.cls('writer-raised:IndexXML:' + type(e).__name__)
        rec.note('writer_raised_example:IndexXML:' + type(e).__name__, {'source': src.name, 'message': str(e)[:200]})
    doc = out.getvalue()
    rec.case(('index', _h(src.data)), hostile, classes=classes + ['doc:rp66v1-xml-index'],
             sample={'source': src.name, 'bytes': len(src.data), 'index_head': doc[:240]} if k == 1 else None)
    if doc:
        r1, r2 = check_document(rec, doc, 'index_xml_parses', 'XML index of %s' % src.name, cap, dict(wit, writer='IndexXML', writer_raised=repr(raised)[:200] if raised else None))
        if r1 is not None and raised is None and mem is not None and not zero_frames:
            check_index(rec, r1, mem, m, cap, dict(wit, index_private=private))
    # ---- HTML summary
    out = io.StringIO()
    raised = None
    try:
        ScanHTML.html_scan_RP66V1_file_data_content(fp, out, False, orng.choice([Slice.Slice(), Slice.Slice(), Slice.Slice(None, None, 2), Slice.Slice(1, None, None), Slice.Sample(3)]),
                                                    orng.random() < 0.4)
    except Exception as e:  # noqa
        raised = e
        rec.cls('writer-raised:ScanHTML:' + type(e).__name__)
        rec.note('writer_raised_example:ScanHTML:' + type(e).__name__, {'source': src.name, 'message': str(e)[:200]})
    doc = out.getvalue()
    rec.case(('html', _h(src.data)), hostile, classes=classes + ['doc:rp66v1-html'])
    if doc:
        check_document(rec, doc, 'html_rp66v1_parses', 'HTML summary of %s' % src.name, cap, dict(wit, writer='ScanHTML', writer_raised=repr(raised)[:200] if raised else None))
    os.unlink(fp)


def check_index(rec, root, mem, model, cap, wit):
    """Entries per table / frame type; RLE expansions against the in-memory index; strings recovered."""
    lfs = [e for e in root.iter() if localname(e.tag) == 'LogicalFile']
    rec.mon('index_entries')
    bad = None
    if len(lfs) != len(mem['lfs']) or (model is not None and len(lfs) != len(model.logical_files)):
        bad = 'index has %d LogicalFile entries, in-memory index %d, file %s' % (len(lfs), len(mem['lfs']), len(model.logical_files) if model else '?')
    vr = [e for e in root.iter() if localname(e.tag) == 'VisibleRecords']
    if not bad and (len(vr) != 1 or expand_rle(vr[0], True, False) != mem['vr']):
        bad = 'VisibleRecords run-length entries do not expand to the visible record positions held by the in-memory index'
    for i, (x, mm) in enumerate(zip(lfs, mem['lfs'])):
        if bad:
            break
        eflrs = [e for e in x if localname(e.tag) == 'EFLR']
        got = [(e.get('set_type'), int(e.get('object_count'))) for e in eflrs]
        exp_mem = [(t.decode('latin-1'), n) for t, n in mm['eflrs']]
        if got != exp_mem:
            bad = 'logical file %d: EFLR entries %r, in-memory tables %r' % (i, got[:8], exp_mem[:8])
            break
        # every byte-string value of every table cell is in the index as <Value type="bytes" value="...">: the bytes of the file, one
        # character per byte, recovered unchanged when XML can represent them
        for e, tcells in zip(eflrs, mm.get('cells') or []):
            objs = [o for o in e if localname(o.tag) == 'Object']
            if len(objs) != len(tcells):
                continue            # private tables written without their objects, or a count mismatch reported below
            for o, ocells in zip(objs, tcells):
                attrs_x = [a for a in o if localname(a.tag) == 'Attribute']
                if len(attrs_x) != len(ocells):
                    continue
                for a, (label, vals) in zip(attrs_x, ocells):
                    got_v = [v.get('value') for v in a if localname(v.tag) == 'Value' and v.get('type') == 'bytes']
                    want_v = [b.decode('latin-1') for b in vals]
                    if not all(representable(v) for v in want_v):
                        continue
                    rec.mon('index_cell_values_recovered')
                    if got_v != want_v and cap['n'] < 20:
                        cap['n'] += 1
                        rec.violation('index_cell_values_recovered', 'value-changed', 'table %s: cell %r recovered from the XML index as %r, the in-memory table holds the bytes %r' % (
                            e.get('set_type'), label, got_v[:4], vals[:4]), dict(wit, label=repr(label), recovered=got_v[:8], held=[repr(b) for b in vals[:8]]))
        if model is not None:
            exp = [(t.set_type.decode('latin-1'), len(t.objects)) for t in model.logical_files[i].tables]
            if got != exp:
                bad = 'logical file %d: EFLR entries %r, tables in the file %r' % (i, got[:8], exp[:8])
                break
            for e, t in zip(eflrs, model.logical_files[i].tables):
                if t.lr_type >= 128 and not wit.get('index_private', True):
                    continue        # a private table without -p: the entry is there (counted above), its objects are not written
                if len([o for o in e if localname(o.tag) == 'Object']) != len(t.objects):
                    bad = 'logical file %d: table %r has %d Object entries for %d objects' % (i, t.set_type, len([o for o in e if localname(o.tag) == 'Object']), len(t.objects))
        fas = [e for e in x.iter() if localname(e.tag) == 'FrameArray']
        nexp = len(model.logical_files[i].frame_types) if model is not None else len(mm['fas'])
        if len(fas) != nexp or len(fas) != len(mm['fas']):
            bad = bad or 'logical file %d: %d FrameArray entries for %d frame types (in-memory %d)' % (i, len(fas), nexp, len(mm['fas']))
            break
        if model is not None and not bad:
            # the frame type and channel entries carry the names, units, long names and descriptions of the file
            for fa, ft in zip(fas, model.logical_files[i].frame_types):
                exp_fa = {'I': ft.name[2], 'description': ft.description, 'x_units': ft.channels[0].units}
                chans = [c for c in fa.iter() if localname(c.tag) == 'Channel']
                pairs = [(fa, exp_fa)] + [(c, {'I': cm.name[2], 'long_name': cm.long_name, 'units': cm.units}) for c, cm in zip(chans, ft.channels)]
                if len(chans) != len(ft.channels):
                    bad = 'frame type %r: %d Channel entries for %d channels' % (ft.name[2], len(chans), len(ft.channels))
                    break
                for node, exp in pairs:
                    for a, b in exp.items():
                        sv = b.decode('latin-1')
                        if representable(sv) and node.get(a) != sv:
                            rec.mon('index_strings_recovered')
                            if cap['n'] < 20:
                                cap['n'] += 1
                                rec.violation('index_strings_recovered', 'attribute-changed', 'frame type %r: %s attribute %s recovered as %r, the file holds %r' % (
                                    ft.name[2], localname(node.tag), a, node.get(a), sv), dict(wit, attribute=a, recovered=node.get(a), written=sv))
                            break
        for j, (fa, mf) in enumerate(zip(fas, mm['fas'])):
            rec.mon('index_rle_expansion')
            parts = {localname(e.tag): e for e in fa.iter() if localname(e.tag) in ('FrameNumbers', 'LRSH', 'Xaxis', 'IFLR', 'Channels')}
            try:
                nums = expand_rle(parts['FrameNumbers'], False, False)
                lrsh = expand_rle(parts['LRSH'], True, False)
                xs = expand_rle(parts['Xaxis'], False)
            except Exception as e:  # noqa
                rec.violation('index_rle_expansion', 'unreadable', 'frame array %d: run-length entries unreadable: %s' % (j, e), wit)
                continue
            why = None
            if nums != mf['numbers']:
                why = 'frame numbers expand to %r..., in-memory %r...' % (nums[:12], mf['numbers'][:12])
            elif lrsh != mf['lrsh']:
                why = 'record positions expand to %r..., in-memory %r...' % (lrsh[:8], mf['lrsh'][:8])
            elif len(xs) != len(mf['x']) or not _x_expansion_close(xs, mf['x'], bool(mf.get('x_single'))):
                why = 'X values expand to %r..., in-memory %r...' % (xs[:8], mf['x'][:8])
            elif int(parts['IFLR'].get('count')) != len(mf['numbers']) or any(int(parts[k].get('count')) != len(mf['numbers']) for k in ('FrameNumbers', 'LRSH', 'Xaxis')):
                why = 'count attributes differ from the %d frames of the in-memory index' % len(mf['numbers'])
            elif model is not None:
                ft = model.logical_files[i].frame_types[j]
                if nums != [f[0] for f in ft.frames] or lrsh != [model.phys.records[f[2]].lrsh_position for f in ft.frames]:
                    why = 'expansion differs from the frames written to the file: numbers %r... positions %r...' % (nums[:8], lrsh[:8])
            if why and cap['n'] < 20:
                cap['n'] += 1
                rec.violation('index_rle_expansion', 'expansion', 'logical file %d frame array %d: %s' % (i, j, why),
                              dict(wit, frame_array=j, numbers=nums[:50], lrsh=lrsh[:50], x=xs[:50], memory_numbers=mf['numbers'][:50],
                                   memory_lrsh=mf['lrsh'][:50], memory_x=mf['x'][:50]))
    if bad and cap['n'] < 20:
        cap['n'] += 1
        rec.violation('index_entries', 'entries', bad, wit)
    # ---- strings recovered unchanged (ASCII typed values, units, labels, names, long names)
    if model is not None:
        rec.mon('index_strings_recovered')
        attrs = {}
        for e in root.iter():
            for k, v in e.attrib.items():
                attrs.setdefault(k, set()).add(v)
        where = {'ascii-value': ('value', 'long_name', 'description'), 'ident-value': ('value',), 'units-value': ('value', 'units', 'x_units'),
                 'units': ('units',), 'label': ('label',), 'name': ('I',), 'set-name': ('set_name',)}
        missing = None
        nchecked = 0
        def strings_expected():
            # the objects of private tables (logical record type >= 128) are in the index on request only; their table entry always
            for lf_ in model.logical_files:
                for t_ in lf_.tables:
                    for k_, b_ in t_.strings:
                        if t_.lr_type >= 128 and not wit.get('index_private', True) and k_ != 'set-name':
                            continue
                        yield k_, b_
        for kind, b in strings_expected():
            s = b.decode('latin-1')
            if not representable(s):
                continue
            if kind == 'ascii-value' and len(b) == 65:
                continue      # the fixed width FILE-HEADER ID is compared below without its padding
            pool = set()
            for a in where[kind]:
                pool |= attrs.get(a, set())
            nchecked += 1
            if s not in pool:
                missing = (kind, s)
                break
        rec.add('index_strings_checked', nchecked)
        if missing and cap['n'] < 20:
            cap['n'] += 1
            rec.violation('index_strings_recovered', 'string-lost', 'the %s %r written to the file is not recovered from the XML index' % missing,
                          dict(wit, kind=missing[0], string=missing[1]))


def las_documents(ctx, name, text, k, cap, classes, hostile=True, encoding='utf-8'):
    from TotalDepth.LAS import LASToHTML
    from TotalDepth.common import Slice
    rec = ctx.rec
    fp = _tmp(_file_name('l%d' % k, '.las', k))
    data = text if isinstance(text, bytes) else text.encode(encoding, 'surrogatepass')
    with open(fp, 'wb') as f:
        f.write(data)
    outp = fp + '.html'
    raised = None
    try:
        LASToHTML.las_file_to_html(fp, outp, 'LAS2.0', True, False, Slice.Slice())
    except Exception as e:  # noqa
        raised = e
        rec.cls('writer-raised:LASToHTML:' + type(e).__name__)
        rec.note('writer_raised_example:LASToHTML:' + type(e).__name__, {'source': name, 'message': str(e)[:200]})
    rec.case(('lashtml', _h(data)), hostile, classes=classes + ['doc:las-html'])
    if os.path.exists(outp):
        with open(outp, encoding='utf-8', errors='surrogateescape') as f:
            doc = f.read()
        if doc:
            check_document(rec, doc, 'html_las_parses', 'HTML summary of LAS %s' % name, cap,
                           {'source': name, 'writer': 'LASToHTML', 'las': data[:3000], 'writer_raised': repr(raised)[:200] if raised else None})
        os.unlink(outp)
    os.unlink(fp)


def lis_documents(ctx, name, data, k, cap, classes, hostile):
    import gc
    from TotalDepth.LIS import LisToHtml
    rec = ctx.rec
    fp = _tmp(_file_name('m%d' % k, '.lis', k))
    with open(fp, 'wb') as f:
        f.write(data)
    raised = None
    try:
        LisToHtml.processFile(fp, fp, True)
    except Exception as e:  # noqa
        raised = e
        rec.cls('writer-raised:LisToHtml:' + type(e).__name__)
    gc.collect()            # the writer leaves its output file object to the garbage collector
    rec.case(('lishtml', _h(data)), hostile, classes=classes + ['doc:lis-html'])
    outp = fp + '.html'
    if os.path.exists(outp):
        with open(outp, encoding='utf-8', errors='surrogateescape') as f:
            doc = f.read()
        if doc:
            check_document(rec, doc, 'html_lis_parses', 'HTML summary of LIS %s' % name, cap,
                           {'source': name, 'writer': 'LisToHtml', 'writer_raised': repr(raised)[:200] if raised else None})
        os.unlink(outp)
    for extra in (fp, os.path.join(os.path.dirname(fp), 'TotalDepth.LIS.css')):
        if os.path.exists(extra):
            os.unlink(extra)


HOSTILE_MNEMS = [b'A<&B', b'C"\'D', b'Q>  ', b'A--B', b'--  ', b'X\x01Y ', b'T\tU ', b']]> ', b'&amp', b'\xe9\xe8  ', b'-->Z']


def svg_documents(ctx, k, cap):
    """SVG plots of generated LIS files whose channel mnemonics, units and plot title are hostile."""
    from tdv.gen import plotsrc as PS
    from tdv.gen import hostile as H
    from TotalDepth.LIS.core import File, FileIndexer, LogiRec
    from TotalDepth.util.plot import Plot
    rec = ctx.rec
    rng = ctx.sub_rng('svg', k)
    spec = PS.random_plot_spec(rng, nframes=12)
    # replace the channel names by hostile ones (the reference channel stays)
    names = rng.sample(HOSTILE_MNEMS, min(len(spec['channels']) - 1, 4))
    ren = dict(zip(spec['channels'][1:], names))
    spec['channels'] = [spec['channels'][0]] + [ren.get(c, c) for c in spec['channels'][1:]]
    for c in spec['curves']:
        c['outp'] = ren.get(c['outp'], c['outp'])
        if c['mnem'] in ren:
            c['mnem'] = ren[c['mnem']]
    data, m = PS.lis_plot_file(rng, spec)
    fp = _tmp('v%d.lis' % k)
    with open(fp, 'wb') as f:
        f.write(data)
    title = H.hostile_text(rng, 24, rng.sample(H.REPRESENTABLE_CLASSES, 2) + (['c0'] if rng.random() < 0.3 else []))
    try:
        fi = File.FileRead(fp, theFileId=fp, keepGoing=True)
        idx = FileIndexer.FileIndex(fi)
        for prs in idx.genPlotRecords(fromInternalRecords=True):
            lp = prs.logPass
            fi.seekLr(prs.tellFilm)
            lrF = LogiRec.LrTableRead(fi)
            fi.seekLr(prs.tellPres)
            lrP = LogiRec.LrTableRead(fi)
            pl = Plot.PlotReadLIS(lrF, lrP)
            for film in sorted(pl.filmIdS(), key=lambda mm: mm.m):
                if not pl.hasDataToPlotLIS(lp, film):
                    continue
                out = _tmp('v%d_%s.svg' % (k, film.pStr(strip=True)))
                raised = None
                try:
                    pl.plotLogPassLIS(fi, lp, lp.xAxisFirstEngVal, lp.xAxisLastEngVal, film, out, frameStep=1, title=title)
                except Exception as e:  # noqa
                    raised = e
                    rec.cls('writer-raised:Plot:' + type(e).__name__)
                    rec.note('writer_raised_example:Plot:' + type(e).__name__, {'message': str(e)[:200], 'mnemonics': [repr(n) for n in names]})
                rec.case(('svg', _h(data), repr(film.m), title), True, classes=['doc:svg-plot'] + ['svg:mnemonic-%r' % n for n in names])
                if os.path.exists(out):
                    with open(out, encoding='utf-8', errors='surrogateescape') as f:
                        doc = f.read()
                    if doc:
                        check_document(rec, doc, 'svg_parses', 'SVG plot with mnemonics %r' % names, cap,
                                       {'source': 'generated LIS plot file', 'writer': 'Plot/SVGWriter', 'mnemonics': [repr(n) for n in names], 'title': title,
                                        'lis': data[:3000], 'writer_raised': repr(raised)[:200] if raised else None})
                    os.unlink(out)
    except Exception as e:  # noqa   reading the hostile file failed before any document was written
        rec.cls('source-rejected:Plot:' + type(e).__name__)
    os.unlink(fp)


def run_shard(ctx, p):
    import logging
    import time
    import warnings
    logging.disable(logging.CRITICAL)
    warnings.simplefilter('ignore')
    from tdv.core import env
    from tdv.gen import hostile as H
    from tdv.mon import contracts
    contracts.install_xmlwrite_contracts()
    rec = ctx.rec
    # all randomness derives from (seed, property, part) so that a replay of one shard's parameters repeats it
    import random
    ctx.shard = p['part']
    ctx.rng = random.Random('%s:%s:%s' % (ctx.seed, ID, p['part']))
    t0 = time.time()
    run_trees(ctx, p['n_trees'])
    rec.add('seconds_trees', round(time.time() - t0, 2))
    t0 = time.time()
    cap = {'n': 0, 'f13': 0}
    part = p['part']
    # ---- RP66V1 sources: providers round-robin, plus the example files on a few shards
    provs = H.PROVIDERS['rp66v1']
    for k in range(p['n_rp66']):
        rng = ctx.sub_rng('rp66', k)
        src = provs[(k + part) % len(provs)](rng)
        # half of the sources are kept XML-representable so that the other oracles are not masked by control characters
        if k % 2 == 0:
            src = representable_variant(H, rng, (k // 2 + part) % 3)
        rp66_documents(ctx, src, k, cap)
    exd = os.path.join(env.REPO, 'example_data', 'RP66V1', 'data')
    ex = sorted(os.listdir(exd))
    if part < len(ex):
        with open(os.path.join(exd, ex[part]), 'rb') as f:
            rp66_documents(ctx, H.Source('rp66v1', 'example_data/' + ex[part], f.read(), None, ['example']), 900 + part, cap)
    # ---- LAS
    lasd = os.path.join(env.REPO, 'example_data', 'LAS', 'data')
    exlas = sorted(os.listdir(lasd))
    for k in range(p['n_las']):
        rng = ctx.sub_rng('las', k)
        kind = k % 4
        if kind in (0, 1):
            src = H.PROVIDERS['las'][kind](rng)
            las_documents(ctx, src.name, src.data, k, cap, ['las:' + c for c in src.classes])
        else:
            fn = exlas[(k + part) % len(exlas)]
            with open(os.path.join(lasd, fn), 'rb') as f:
                data = f.read()
            if kind == 2 and k < 4:
                las_documents(ctx, 'example_data/' + fn, data, k, cap, ['las:example'], hostile=False)
            else:
                mut, n = H.mutate_printable(rng, data[:30000] + data[-2000:], nmut=rng.choice([5, 40]), alphabet=b'<>&"\'\x01\x1b\x7f\xe9<&' if kind == 3 else b'<>&"\'')
                las_documents(ctx, 'mutated example_data/' + fn, mut, k, cap, ['las:example-mutated', 'las:mutations-%d' % n])
    # ---- LIS
    lisd = os.path.join(env.REPO, 'example_data', 'LIS', 'data')
    exlis = sorted(os.listdir(lisd))
    for k in range(p['n_lis']):
        rng = ctx.sub_rng('lis', k)
        fn = exlis[(k + part) % len(exlis)]
        with open(os.path.join(lisd, fn), 'rb') as f:
            data = f.read()
        if k == 0 and part < len(exlis):
            lis_documents(ctx, 'example_data/' + fn, data, k, cap, ['lis:example'], hostile=True)
        else:
            runs = [r for r in H.printable_runs(data, 4)]
            mut, n = H.mutate_printable(rng, data, nmut=rng.choice([3, 10, 40]), alphabet=rng.choice([b'<>&"\'', b'<>&"\'\x01\x07\x7f', b'<&-->']),
                                        keep=(b'TYPE', b'MNEM', b'FILM', b'PRES', b'CONS'), runs=runs)
            lis_documents(ctx, 'mutated example_data/' + fn, mut, k, cap, ['lis:example-mutated', 'lis:mutations-%d' % n], hostile=True)
    # ---- generated LIS files (independent encoder: tables, one or two logical files, every frame representation code, TIF or not)
    # with hostile bytes written over their text: the example files above are three recordings of one well
    from tdv.gen import lis as glis
    for k in range(p.get('n_lis_gen', 0)):
        rng = ctx.sub_rng('lis-gen', k)
        # records without a presentation of their own (table dump, picture, operator input ... shown as a hex dump) among the others
        data, fm = glis.random_file(rng, allow_be=False, two_files_p=0.3, concurrent_p=0.1,
                                    profile={'misc_types': [47, 42, 1, 65, 85, 86, 95, 96, 137, 232, 224], 'misc_between_p': 0.3, 'eof_marker_p': 0.1})
        mut, n = H.mutate_printable(rng, data, nmut=rng.choice([0, 3, 10, 40]), alphabet=rng.choice([b'<>&"\'', b'<>&"\'\x01\x07\x7f', b'<&-->', b'\xe9\xff<&']),
                                    keep=(b'TYPE', b'MNEM', b'FILM', b'PRES', b'CONS'))
        lis_documents(ctx, 'generated LIS (%s)' % fm.layout.describe(), mut, 100 + k, cap, ['lis:generated', 'lis:generated-mutations-%d' % n], hostile=n > 0)
    # ---- a long RP66V1 log on a few shards (hundreds of frames per frame type: long run-length lists)
    if part % 4 == 1:
        rng = ctx.sub_rng('rp66-large', 0)
        rp66_documents(ctx, representable_variant(H, rng, 0, size='large'), 950, cap)
    # ---- SVG
    for k in range(p['n_svg']):
        svg_documents(ctx, k, cap)
    rec.add('seconds_documents', round(time.time() - t0, 2))
    for name, cnt in contracts.COUNTS.items():
        rec.mon('contract:' + name, cnt)
    for name, msg in contracts.drain():
        rec.violation('contract:' + name, 'breach', msg, {'contract': name, 'message': msg})


def representable_variant(H, rng, which, size=None):
    """A hostile RP66V1 source restricted to bytes that XML can represent (markup, quotes, tab / newline / CR, DEL)."""
    saved = H.hostile_bytes

    def only_representable(rng_, maxlen=16, seven_bit=True, minlen=0, classes=None, tag=b''):
        return saved(rng_, maxlen, seven_bit, minlen, classes=rng_.sample(['plain', 'markup', 'tabnl', 'del', 'markup'], rng_.randrange(1, 4)), tag=tag)
    H.hostile_bytes = only_representable
    try:
        d, m = H.rp66_file(rng, size or ['small', 'medium', 'small'][which], hostile_names=(which != 2))
    finally:
        H.hostile_bytes = saved
    return H.Source('rp66v1', 'hostile-representable', d, m, ['hostile-representable'] + (['long-log'] if size == 'large' else []) + sorted(m.labels))


# ------------------------------------------------------------------------------------------------ known findings
@classifier('c18_illegal_numeric_character_reference')
def _c18_f13(v):
    """F13: XmlStream._encode writes characters that XML 1.0 cannot represent (C0 controls other than tab/LF/CR, U+FFFE, U+FFFF,
    surrogates) as numeric character references (&#001; &#65534; ...), which no XML parser accepts.  Recognised from the
    document itself: it contains such references and parses as soon as they are replaced by U+FFFD."""
    w = v.get('witness') or {}
    return (v.get('kind') == 'unparseable' and bool(w.get('illegal_char_refs')) and not w.get('raw_illegal_characters_in_document')
            and (w.get('parses_after_replacing_illegal_refs') is True
                 or (w.get('parses_after_both_repairs') is True and w.get('parses_after_fixing_comments') is not True)))


@classifier('c18_double_hyphen_in_comment')
def _c18_comment(v):
    """XmlStream.comment() writes its text between <!-- and --> after _encode, which leaves '-' alone: text containing '--'
    (a curve mnemonic such as b'A--B' in the plot section comments) gives a comment no XML parser accepts.  Recognised from
    the document: such comments exist and the document parses once their '--' is broken up."""
    w = v.get('witness') or {}
    return (v.get('kind') == 'unparseable' and (w.get('comments_with_double_hyphen') or 0) > 0
            and (w.get('parses_after_fixing_comments') is True
                 or (w.get('parses_after_both_repairs') is True and w.get('parses_after_replacing_illegal_refs') is not True)))


LEVEL_TEXT = ('Randomised exploration with an independent oracle: documents written by the real writers are parsed by two XML parsers; '
              'the parsed tree of every generated element tree is compared with the model tree; the RP66V1 XML index is compared entry by entry '
              'with the file model (tables, frame types) and its run-length entries with the in-memory index; HTML summaries and SVG plots of '
              'hostile sources are checked for well-formedness.  icontract contracts watch the writer stacks during every document.')
LEVEL_NOTE = ('Trusted: expat and libxml2 as definitions of well-formedness, the harness RP66V1 encoder (its files are accepted by the real reader '
              'and table / frame counts are cross-checked).  Not a proof: finite sample of trees and sources; HTML content beyond well-formedness is not compared.')
TECHNIQUE = 'runtime monitoring: model-based differential through two independent XML parsers + icontract contracts on the live XmlStream + generated hostile-string sources'
