"""C01 DLIS logical records are reassembled exactly from any physical layout.

The real ``File.FileRead(...).iter_logical_records()`` / ``FileRead.sul`` are run on files produced by the independent
RP66V1 writer ``tdv.gen.dlis`` and compared with the writer's model (which never passes through TotalDepth code).
"""
import io
import itertools
import os
import random
import struct

from tdv.core.findings import classifier

ID = 'C01'
TITLE = 'DLIS logical records are reassembled exactly from any physical layout'
NATIVE = 'plain'          # importing RP66V1.core.File pulls in TotalDepth.LIS (via util.bin_file_type)
NEEDS = ('icontract',)
RULE = ('A case is one generated file (distinct by its bytes).  Random files: storage unit label (sequence number 1..9999, zero or blank '
        'padded; V1.dd; maximum record length 20..16384, zero or blank padded; 60 printable identifier bytes), 1..40 logical records '
        '(explicit/indirect, type 0..255, payload 0..several visible records, ~12% encrypted), random visible-record capacity '
        '20..16384 biased to 20..200, random segment cuts incl. zero-payload middle segments, optional pad bytes / checksum / '
        'trailing length per record, encrypted segments optionally carrying the padding bit; plus files whose first visible record '
        'is exactly 16384 bytes, one file of 1000..2500 records and one record of 65536..140000 bytes per shard.  Histories: other public '
        'iterators of the same reader before / between passes, abandoned passes, records inspected only after the pass has ended, the '
        'stream handed over at a non-zero position or as an open file object, two readers on two files stepped alternately.  Non-trivial = at least one record in >= 2 segments or >= 2 visible records, or any trailer option '
        '(pad, checksum, trailing length).  Enumerated sub-spaces (distinct by construction): every cut of one payload (see '
        'enumerated_subspaces), pairs of payloads, encrypted cuts, each x 8 trailer combinations x 3 visible-record packings; '
        'the label sweep = every sequence number 1..9999 and every maximum record length 20..16384 in both paddings and every '
        'version V1.00..V1.99, non-trivial when the field is blank padded or has a 0 digit after its first digit.')
ASSUMPTIONS = [
    'tdv.gen.dlis writes only layouts RP66V1 section 2 allows (segment inside one visible record, even, >= 16; visible record 20..16384 '
    'and <= the label maximum); its model is the ground truth',
    'an encrypted record is opaque: its body is expected verbatim, also when the padding attribute bit is set (as pFile documents)',
    'label numeric fields are rendered either zero padded or blank padded (not mixed); sequence number >= 1',
    'FileLogicalData.position is not asserted here (C02 asserts the index positions); agreement is only counted',
]
_PF = 'TotalDepth.RP66V1.core.pFile'
MECHANISMS = [
    (_PF, 'FileRead.iter_logical_records'),
    (_PF, 'FileRead._seek_and_read_next_logical_record_segment_header'),
    (_PF, 'FileRead._read_full_logical_data'),
    (_PF, 'StorageUnitLabel.__init__'),
    (_PF, 'LogicalRecordSegmentHeader.logical_data_length'),
]
REQUIRED_MONITORS = ['records_vs_model', 'label_vs_model', 'label_accepted_by_type_detection', 'label_sweep', 'reiteration', 'path_vs_stream', 'lockstep_two_readers',
                     'contract:FileLogicalData.invariant', 'contract:FileLogicalData.add_bytes', 'contract:FileLogicalData.seal',
                     'contract:FileRead.seek_next_header', 'contract:FileRead.read_full_logical_data']
MIN_NONTRIVIAL = {'quick': 20000, 'thorough': 1200000}
TIMEOUT_S = {'quick': 300, 'thorough': 3000}
NSHARDS = 16
N_RANDOM = {'quick': 3200, 'thorough': 100000}          # random files, all shards together
SCOPE = {
    # L_all: every composition for payload length <= L_all; L_k: compositions into <= K parts for lengths up to L_k;
    # L_zero: cuts with zero-length segments (<= 3 segments); L_pair: both payloads 0..L_pair in <= 3 segments; L_enc: encrypted
    'quick': {'L_all': 8, 'L_k': 14, 'K': 3, 'L_zero': 6, 'L_pair': 4, 'L_enc': 32},
    'thorough': {'L_all': 13, 'L_k': 24, 'K': 5, 'L_zero': 12, 'L_pair': 10, 'L_enc': 48},
}
PACKINGS = [
    ('one-visible-record', {'vr_cap': 16384, 'p_close_vr': 0.0}),
    ('visible-record-per-segment', {'vr_cap': 16384, 'p_close_vr': 1.0}),
    ('greedy-small-visible-records', {'vr_cap': 52, 'p_close_vr': 0.0}),
]
TRAILERS = [{'pad': bool(a), 'chk': bool(b), 'trail': bool(c)} for a in (0, 1) for b in (0, 1) for c in (0, 1)]
MAX_PER_KIND = 20


def plan(tier, seed):
    return [{'part': i, 'parts': NSHARDS, 'n_random': N_RANDOM[tier] // NSHARDS, 'scope': SCOPE[tier]} for i in range(NSHARDS)]


# --------------------------------------------------------------------------------------------- enumeration helpers
def compositions(n, kmax=None):
    """Ordered cuts of n into positive parts (at most kmax parts); n == 0 -> one empty chunk."""
    if n == 0:
        yield (0,)
        return
    kmax = n if kmax is None else min(kmax, n)
    for k in range(1, kmax + 1):
        for bars in itertools.combinations(range(1, n), k - 1):
            edges = (0,) + bars + (n,)
            yield tuple(edges[i + 1] - edges[i] for i in range(k))


def weak_compositions_with_zero(n, kmax):
    """Ordered cuts of n into 2..kmax non-negative parts with at least one zero part."""
    for k in range(2, kmax + 1):
        for bars in itertools.combinations_with_replacement(range(0, n + 1), k - 1):
            edges = (0,) + bars + (n,)
            parts = tuple(edges[i + 1] - edges[i] for i in range(k))
            if 0 in parts:
                yield parts


def even_compositions(n, lo):
    """Ordered cuts of even n into even parts >= lo."""
    if n == 0:
        return
    if n >= lo:
        yield (n,)
    for first in range(lo, n - lo + 1, 2):
        for rest in even_compositions(n - first, lo):
            yield (first,) + rest


def single_cut_space(scope):
    out = []
    for L in range(0, scope['L_k'] + 1):
        out.extend((L, c) for c in compositions(L, None if L <= scope['L_all'] else scope['K']))
    for L in range(0, scope['L_zero'] + 1):
        out.extend((L, c) for c in weak_compositions_with_zero(L, 3))
    return out


def pair_cut_space(scope):
    one = []
    for L in range(0, scope['L_pair'] + 1):
        one.extend(compositions(L, 3))
    return [(a, b) for a in one for b in one]


def enc_cut_space(scope):
    out = []
    for chk in (False, True):
        for trail in (False, True):
            lo = 12 - (2 if chk else 0) - (2 if trail else 0)
            for L in range(lo, scope['L_enc'] + 1, 2):
                for c in even_compositions(L, lo):
                    if len(c) <= 4:
                        out.append((chk, trail, c))
    return out


def make_payload(rng, n):
    b = bytearray(rng.getrandbits(8) for _ in range(n))
    if n and rng.random() < 0.4:
        b[-1] = rng.choice([0, 1, 2, 3, 4, n & 0xff, 255])     # a last byte that looks like a pad count
    return bytes(b)


# --------------------------------------------------------------------------------------------- the oracle
class Checker:
    def __init__(self, ctx, File):
        self.ctx, self.rec, self.File = ctx, ctx.rec, File
        self.kinds = {}
        self.tmpdir = os.environ.get('VERIF_SHARD_TMP') or None
        self.n_path = 0

    def violation(self, monitor, kind, msg, witness, exc=None):
        n = self.kinds.get((monitor, kind), 0)
        self.kinds[(monitor, kind)] = n + 1
        if n < MAX_PER_KIND:
            self.rec.violation(monitor, kind, msg, witness, exc=exc)

    @staticmethod
    def describe_event(ev):
        return {'eflr': ev[0], 'type': ev[1], 'len': len(ev[2]), 'encrypted': ev[3], 'payload': ev[2][:64]}

    def base_witness(self, data, model, how):
        return {'file': data, 'file_len': len(data), 'how': how, 'layout': model.layout,
                'label': model.sul.as_bytes(), 'records': [r.describe() for r in model.records[:12]]}

    def read_events(self, fr, limit=None, late=False):
        """late: keep the yielded objects and look at them only after the pass has ended (what ``list(iter_logical_records())``
        gives a caller): a record must not change once it has been yielded."""
        if late:
            held = []
            for fld in fr.iter_logical_records():
                held.append(fld)
                if limit is not None and len(held) >= limit:
                    break
            self.rec.add('events_inspected_after_the_pass', len(held))
            return [(fld.lr_is_eflr, fld.lr_type, fld.logical_data.bytes, fld.lr_is_encrypted,
                     fld.position.vr_position, fld.position.lrsh_position) for fld in held]
        out = []
        for fld in fr.iter_logical_records():
            out.append((fld.lr_is_eflr, fld.lr_type, fld.logical_data.bytes, fld.lr_is_encrypted,
                        fld.position.vr_position, fld.position.lrsh_position))
            if limit is not None and len(out) >= limit:
                break
        return out

    def compare_label(self, sul, m, data, model, how):
        self.rec.mon('label_vs_model')
        # "accepted" also means: the file type detection (the gate of every RP66V1 command line tool) takes the label for RP66V1
        from TotalDepth.util import bin_file_type
        self.rec.mon('label_accepted_by_type_detection')
        try:
            code = bin_file_type.binary_file_type(io.BytesIO(data))
        except Exception as e:  # noqa
            code = 'raised %s: %s' % (type(e).__name__, e)
        if code != 'RP66V1':
            self.violation('label_accepted_by_type_detection', 'not-rp66v1', 'file with the conformant label %r is identified as %r by binary_file_type' % (m.as_bytes(), code),
                           {'label': m.as_bytes(), 'got': code, 'file': data[:400],
                            'label_fields': {'sequence': m.seq_text, 'maximum_record_length': m.max_text, 'version': m.version, 'identifier': m.ident}})
        got = {'storage_unit_sequence_number': sul.storage_unit_sequence_number, 'dlis_version': sul.dlis_version,
               'storage_unit_structure': sul.storage_unit_structure, 'maximum_record_length': sul.maximum_record_length,
               'storage_set_identifier': sul.storage_set_identifier}
        exp = {'storage_unit_sequence_number': m.seq, 'dlis_version': m.version, 'storage_unit_structure': b'RECORD',
               'maximum_record_length': m.max_len, 'storage_set_identifier': m.ident}
        for k in exp:
            if got[k] != exp[k] or type(got[k]) is not type(exp[k]):
                w = self.base_witness(data, model, how) if model is not None else {'label': m.as_bytes()}
                self.violation('label_vs_model', 'field-' + k, 'label field %s reported as %r, written %r' % (k, got[k], exp[k]),
                               dict(w, field=k, got=got[k], expected=exp[k]))

    def compare_events(self, events, model, data, how, monitor='records_vs_model'):
        exp = [(r.lr.eflr, r.lr.lr_type, r.lr.payload, r.lr.encrypted) for r in model.records]
        got = [e[:4] for e in events]
        if got == exp:
            return True
        w = self.base_witness(data, model, how)
        w['n_expected'], w['n_got'] = len(exp), len(got)
        for i, (g, e) in enumerate(zip(got, exp)):
            if g != e:
                rm = model.records[i]
                w.update(record_index=i, record=rm.describe(), expected=self.describe_event(e), got=self.describe_event(g),
                         expected_payload=e[2][:2048], got_payload=g[2][:2048])
                if (g[0], g[1]) != (e[0], e[1]):
                    kind = 'kind-or-type'
                elif g[2] != e[2]:
                    kind = 'payload'
                else:
                    kind = 'encrypted-flag'
                self.violation(monitor, kind, 'record %d of %d read as (eflr=%s type=%d len=%d enc=%s), written (eflr=%s type=%d len=%d enc=%s)' % (
                    i, len(exp), g[0], g[1], len(g[2]), g[3], e[0], e[1], len(e[2]), e[3]), w)
                return False
        self.violation(monitor, 'count', '%d records read, %d written (common prefix equal)' % (len(got), len(exp)), w)
        return False

    @staticmethod
    def random_other_op(rng, model):
        nvr = len(model.vrs)
        kind = rng.choice(['vrs_full', 'vrs_full', 'vrs_partial', 'positions_full', 'positions_partial', 'lrsh_of_vr', 'lrsh_fragments_of_vr',
                           'validate_positions'])
        if kind == 'vrs_partial':
            return (kind, rng.randrange(1, nvr + 1))
        if kind == 'positions_partial':
            return (kind, rng.randrange(1, len(model.records) + 1))
        if kind in ('lrsh_of_vr', 'lrsh_fragments_of_vr'):
            return (kind, rng.randrange(nvr))
        return (kind, 0)

    def run_other_op(self, fr, op):
        """Drive one of the reader's other public iterators (results are not asserted here: C02 owns the index)."""
        kind, arg = op
        self.rec.add('other_iterator_ops', 1)
        if kind == 'vrs_full':
            for _ in fr.iter_visible_records():
                pass
        elif kind == 'vrs_partial':
            for i, _ in enumerate(fr.iter_visible_records()):
                if i + 1 >= arg:
                    break
        elif kind == 'positions_full':
            for _ in fr.iter_logical_record_positions():
                pass
        elif kind == 'positions_partial':
            for i, _ in enumerate(fr.iter_logical_record_positions()):
                if i + 1 >= arg:
                    break
        elif kind == 'validate_positions':
            fr.validate_positions()         # raises on a conformant file only if the reader is wrong: reported as 'raised' by the caller
        else:
            vrs = list(fr.iter_visible_records())
            vr = vrs[arg % len(vrs)]
            it = fr.iter_LRSHs_for_visible_record(vr) if kind == 'lrsh_of_vr' else fr.iter_LRSHs_for_visible_record_and_logical_data_fragment(vr)
            for _ in it:
                pass

    def check_file(self, data, model, how, classes=(), extra_history=False, via_path=False, sample=None, late=False, start_pos=None):
        """Run the real sequential reader over one generated file and compare with the model.
        late: records are inspected after the pass.  start_pos: the stream is handed over positioned there (not at 0)."""
        rec, File = self.rec, self.File
        cl = list(classes) + model.classes()
        if late:
            cl.append('records-inspected-after-the-pass')
            how += '+late'
        if start_pos is not None:
            cl.append('stream-handed-over-at-non-zero-position')
            how += '+stream@%d' % start_pos
        if len(model.records) >= 1000:
            cl.append('records>=1000')
        if any(len(r.lr.payload) >= 65536 for r in model.records):
            cl.append('payload>=65536')
        if any(len(r.vr_ranges) >= 5 for r in model.records):
            cl.append('record-in-5+visible-records')
        if any(length == 16384 for _, length in model.vrs):
            cl.append('visible-record-length-16384')
        if any(length == 20 for _, length in model.vrs):
            cl.append('visible-record-length-20')
        rec.case(data, model.is_nontrivial(), classes=cl, sample=sample)
        rec.mon('records_vs_model')
        # drawn before the reader runs, so that the random stream never depends on what the reader returned
        k = self.ctx.rng.randrange(0, len(model.records) + 1) if extra_history else 0
        # other public iterators of the same reader, run before the first and before the last sequential pass: the sequential
        # read must not depend on what the reader was used for before (drawn here, before the reader runs)
        rng = self.ctx.rng
        pre_ops = [self.random_other_op(rng, model) for _ in range(rng.choice([0, 1, 1, 2]))] if extra_history else []
        mid_ops = [self.random_other_op(rng, model) for _ in range(rng.choice([0, 1, 2]))] if extra_history else []
        try:
            stream = io.BytesIO(data)
            if start_pos is not None:
                stream.seek(start_pos)
            fr = File.FileRead(stream)
            with fr:
                self.compare_label(fr.sul, model.sul, data, model, how)
                for op in pre_ops:
                    self.run_other_op(fr, op)
                if pre_ops:
                    how = how + '+pre-history%s' % pre_ops
                events = self.read_events(fr, late=late)
                ok = self.compare_events(events, model, data, how)
                rec.add('iterator_events', len(events))
                rec.maxi('max_records_in_one_file', len(events))
                rec.add('positions_compared', len(events))
                rec.add('positions_equal_model', sum(1 for e, r in zip(events, model.records)
                                                    if (e[4], e[5]) == (r.vr_position, r.lrsh_position)))
                if extra_history and ok:
                    # operation history on one reader: abandoned partial pass, then a complete second pass
                    part = self.read_events(fr, limit=k) if k else []
                    for op in mid_ops:
                        self.run_other_op(fr, op)
                    again = self.read_events(fr, late=late)
                    rec.mon('reiteration')
                    rec.add('reiteration_events', len(part) + len(again))
                    if [e[:4] for e in part] != [e[:4] for e in events[:k]]:
                        self.violation('reiteration', 'partial-pass', 'a second, abandoned pass of %d records differs from the first pass' % k,
                                       dict(self.base_witness(data, model, how), history=['full', 'partial:%d' % k]))
                    self.compare_events(again, model, data, how + '+history[full,partial:%d,%s,full]' % (k, mid_ops), monitor='reiteration')
        except Exception as e:  # a conformant file must be read without an error
            label_refused = 'can not construct SUL' in str(e)
            w = self.base_witness(data, model, how)
            if label_refused:
                w.update(label_fields={'sequence': model.sul.seq_text, 'maximum_record_length': model.sul.max_text,
                                       'version': model.sul.version}, error=str(e))
            self.violation('label_vs_model' if label_refused else 'records_vs_model', 'label-refused' if label_refused else 'raised',
                           'reading a conformant file raised %s: %s' % (type(e).__name__, e), w, exc=e)
            return
        if via_path and self.tmpdir:
            self.n_path += 1
            path = os.path.join(self.tmpdir, 'c01_%d.dlis' % (self.n_path % 4))
            with open(path, 'wb') as f:
                f.write(data)
            rec.mon('path_vs_stream')
            try:
                if self.n_path % 2:
                    with File.FileRead(path) as fr2:
                        ev2 = self.read_events(fr2)
                    self.compare_events(ev2, model, data, how + '+path', monitor='path_vs_stream')
                else:
                    # an open binary file object (buffered reader) instead of a path, handed over somewhere in the file
                    rec.add('open_file_objects_read')
                    with open(path, 'rb') as fobj:
                        fobj.seek(self.ctx.rng.randrange(0, len(data) + 1))
                        with File.FileRead(fobj) as fr2:
                            ev2 = self.read_events(fr2)
                    self.compare_events(ev2, model, data, how + '+open-file-object', monitor='path_vs_stream')
            except Exception as e:
                self.violation('path_vs_stream', 'raised', 'reading the same bytes from a path raised %s: %s' % (type(e).__name__, e),
                               self.base_witness(data, model, how), exc=e)

    def check_file_bulk(self, data, model, how):
        """check_file for enumerated members: not registered one by one as cases (bulk_cases does that)."""
        rec, File = self.rec, self.File
        rec.mon('records_vs_model')
        for c in model.classes():
            rec.cls('enum:' + c)
        try:
            with File.FileRead(io.BytesIO(data)) as fr:
                self.compare_label(fr.sul, model.sul, data, model, how)
                events = self.read_events(fr)
                self.compare_events(events, model, data, how)
                rec.add('iterator_events', len(events))
        except Exception as e:
            label_refused = 'can not construct SUL' in str(e)
            w = self.base_witness(data, model, how)
            if label_refused:
                w.update(label_fields={'sequence': model.sul.seq_text, 'maximum_record_length': model.sul.max_text,
                                       'version': model.sul.version}, error=str(e))
            self.violation('label_vs_model' if label_refused else 'records_vs_model', 'label-refused' if label_refused else 'raised',
                           'reading a conformant file raised %s: %s' % (type(e).__name__, e), w, exc=e)


# --------------------------------------------------------------------------------------------- workloads
def random_files(ctx, ck, rng, n):
    from tdv.gen import dlis
    prev = None
    for k in range(n):
        lay = dlis.random_layout(rng)
        lay['p_enc_padbit'] = rng.choice([0.0, 0.3, 1.0])
        lrs = dlis.random_records(rng, vr_cap=lay['vr_cap'])
        data, model = dlis.write_file_safe(rng, lrs, layout=lay)
        ck.check_file(data, model, 'random', extra_history=(k % 3 == 0), via_path=(k % 8 == 0), late=(k % 4 == 1),
                      start_pos=rng.randrange(1, len(data) + 2) if k % 5 == 2 else None,
                      sample={'layout': lay, 'label': model.sul.as_bytes(), 'file_len': len(data),
                              'records': [r.describe() for r in model.records[:3]]} if k < 2 else None)
        if k % 6 == 5 and prev is not None:
            lockstep(ctx, ck, rng, prev, (data, model))
        prev = (data, model)


def lockstep(ctx, ck, rng, a, b):
    """Two readers open at the same time on two different files, stepped alternately (a caller merging two files): what one reader
    yields must not depend on the other reader's progress."""
    rec, File = ctx.rec, ck.File
    (da, ma), (db, mb) = a, b
    rec.mon('lockstep_two_readers')
    evs = ([], [])
    try:
        with File.FileRead(io.BytesIO(da)) as fa, File.FileRead(io.BytesIO(db)) as fb:
            its = [fa.iter_logical_records(), fb.iter_logical_records()]
            live = [True, True]
            while any(live):
                k = rng.randrange(2)
                if not live[k]:
                    k = 1 - k
                for _ in range(rng.choice([1, 1, 2, 3])):
                    fld = next(its[k], None)
                    if fld is None:
                        live[k] = False
                        break
                    evs[k].append((fld.lr_is_eflr, fld.lr_type, fld.logical_data.bytes, fld.lr_is_encrypted))
    except Exception as e:
        ck.violation('lockstep_two_readers', 'raised', 'two readers stepped alternately raised %s: %s' % (type(e).__name__, e),
                     dict(ck.base_witness(da, ma, 'lockstep'), other_file=db), exc=e)
        return
    rec.add('lockstep_events', len(evs[0]) + len(evs[1]))
    ck.compare_events(evs[0], ma, da, 'lockstep(first of two readers)', monitor='lockstep_two_readers')
    ck.compare_events(evs[1], mb, db, 'lockstep(second of two readers)', monitor='lockstep_two_readers')


def scale_files(ctx, ck, rng):
    """Sizes the random files do not reach: thousands of logical records in one file, and a record longer than 65535 bytes that
    lies in five or more maximum-length visible records."""
    from tdv.gen import dlis
    # ---- many records
    n = rng.randrange(1000, 2500)
    lay = dlis.random_layout(rng)
    lay.update(vr_cap=rng.choice([64, 200, 1000, 8192, 16384]), p_enc_padbit=0.0)
    lrs = []
    for i in range(n):
        ln = rng.choice([0, 1, 2, 5, 12, 13, rng.randrange(0, 40)])
        lrs.append(dlis.LR(rng.random() < 0.5, rng.choice([0, 1, 3, 5, 128, rng.randrange(256)]), struct.pack('>I', i) * (ln // 4) + bytes(ln % 4), False))
    data, model = dlis.write_file(rng, lrs, layout=lay)
    ck.check_file(data, model, 'scale-many-records', classes=['scale-file'], extra_history=True, late=rng.random() < 0.5)
    # ---- a record longer than 65535 bytes
    big = rng.randrange(65536, 140000)
    lrs = dlis.random_records(rng, n=rng.randrange(0, 3), vr_cap=200, allow_encrypted=False)
    enc = rng.random() < 0.2
    if enc:
        big += big % 2
    body = bytearray(rng.getrandbits(8 * 4096).to_bytes(4096, 'big') * (big // 4096 + 1))[:big]
    for k in range(0, big, 509):
        body[k] = (k // 509) & 0xff          # position-identifying
    lrs.insert(rng.randrange(len(lrs) + 1), dlis.LR(rng.random() < 0.5, rng.randrange(256), bytes(body), enc))
    lrs += dlis.random_records(rng, n=rng.randrange(0, 3), vr_cap=200, allow_encrypted=False)
    lay = dlis.random_layout(rng)
    lay.update(vr_cap=rng.choice([16384, 16384, 8192, 16000]), seg_small=False, p_enc_padbit=rng.choice([0.0, 1.0]))
    data, model = dlis.write_file_safe(rng, lrs, layout=lay)
    ck.check_file(data, model, 'scale-long-record', classes=['scale-file'], extra_history=rng.random() < 0.5, late=rng.random() < 0.5)


def boundary_files(ctx, ck, rng, n):
    """Files whose first visible record has exactly the maximum length 16384 (one segment of 16380 bytes), others minimal."""
    from tdv.gen import dlis
    for k in range(n):
        chk, trail = rng.random() < 0.5, rng.random() < 0.5
        over = dlis.seg_overhead(chk, trail)
        enc = rng.random() < 0.2
        big = dlis.LR(rng.random() < 0.5, rng.randrange(256), make_payload(rng, 16380 - over), enc)
        lrs = [big] + dlis.random_records(rng, n=rng.randrange(0, 6), vr_cap=rng.choice([20, 200, 16384]))
        lay = dlis.random_layout(rng)
        lay.update(vr_cap=16384, p_enc_padbit=rng.choice([0.0, 1.0]))
        data, model = dlis.write_file(rng, lrs, layout=lay, cuts={0: [16380 - over]}, opts={0: {'chk': chk, 'trail': trail, 'pad': False}})
        assert model.vrs[0][1] == 16384, model.vrs[0]
        ck.check_file(data, model, 'boundary-vr-16384', classes=['boundary-file'], extra_history=(k % 2 == 0))


def enumerated(ctx, ck, rng, p):
    from tdv.gen import dlis
    rec, scope, part, parts = ctx.rec, p['scope'], p['part'], p['parts']
    base = {'seg_small': False, 'p_pad': 0.0, 'p_chk': 0.0, 'p_trail': 0.0, 'p_empty_mid': 0.0}

    # ---- one payload, every cut in scope x 8 trailers x 3 packings
    space = single_cut_space(scope)
    mine = space[part::parts]
    evals = nt = 0
    for L, cut in mine:
        payload = make_payload(rng, L)
        lr = dlis.LR(rng.random() < 0.5, rng.randrange(256), payload, False)
        for pname, pk in PACKINGS:
            for tr in TRAILERS:
                lay = dict(base, **pk)
                data, model = dlis.write_file(rng, [lr], layout=lay, cuts={0: list(cut)}, opts={0: tr})
                assert [s.data_length for s in model.records[0].segments] == list(cut)
                ck.check_file_bulk(data, model, 'enum-single %s %s cut=%s' % (pname, tr, list(cut)))
                evals += 1
                nt += model.is_nontrivial()
    label = ('one payload: all cuts of lengths 0..%d, cuts into <= %d segments of lengths %d..%d, cuts with empty segments (<= 3) of lengths 0..%d; '
             'x 8 trailer combinations x 3 visible-record packings' % (scope['L_all'], scope['K'], scope['L_all'] + 1, scope['L_k'], scope['L_zero']))
    rec.bulk_cases(label, evals, nt, exhaustive=True,
                   sample={'space_size': len(space) * 24, 'example_cut': list(mine[0][1]) if mine else None})

    # ---- two payloads
    space = pair_cut_space(scope)
    mine = space[part::parts]
    evals = nt = 0
    for ca, cb in mine:
        lrs = [dlis.LR(rng.random() < 0.5, rng.randrange(256), make_payload(rng, sum(c)), False) for c in (ca, cb)]
        for pname, pk in PACKINGS:
            for tr in TRAILERS:
                lay = dict(base, **pk)
                other = rng.choice(TRAILERS)
                first_has_it = rng.random() < 0.5
                opts = {0: tr, 1: other} if first_has_it else {0: other, 1: tr}
                data, model = dlis.write_file(rng, lrs, layout=lay, cuts={0: list(ca), 1: list(cb)}, opts=opts)
                ck.check_file_bulk(data, model, 'enum-pair %s %s cuts=%s,%s' % (pname, opts, list(ca), list(cb)))
                evals += 1
                nt += model.is_nontrivial()
    rec.bulk_cases('two payloads of lengths 0..%d each cut into <= 3 segments x 8 trailer combinations (other record random) x 3 packings'
                   % scope['L_pair'], evals, nt, exhaustive=True, sample={'space_size': len(space) * 24})

    # ---- encrypted cuts (even chunks, no forced padding), with and without the padding attribute bit
    space = enc_cut_space(scope)
    mine = space[part::parts]
    evals = nt = 0
    packs = [PACKINGS[0], PACKINGS[1], ('greedy-small-visible-records', {'vr_cap': 120, 'p_close_vr': 0.0})]
    for chk, trail, cut in mine:
        lr = dlis.LR(rng.random() < 0.5, rng.randrange(256), make_payload(rng, sum(cut)), True)
        for pname, pk in packs:
            for padbit in (0.0, 1.0):
                lay = dict(base, p_enc_padbit=padbit, **pk)
                data, model = dlis.write_file(rng, [lr], layout=lay, cuts={0: list(cut)}, opts={0: {'chk': chk, 'trail': trail, 'pad': False}})
                ck.check_file_bulk(data, model, 'enum-encrypted %s chk=%s trail=%s padbit=%s cut=%s' % (pname, chk, trail, padbit, list(cut)))
                evals += 1
                nt += model.is_nontrivial() or padbit > 0
    rec.bulk_cases('one encrypted payload of even length <= %d cut into <= 4 conformant segments x checksum x trailing length x padding bit x 3 packings'
                   % scope['L_enc'], evals, nt, exhaustive=True, sample={'space_size': len(space) * 6})


def label_sweep(ctx, ck, rng, p):
    """Every sequence number, every maximum record length, every version, in both paddings, in front of a minimal body."""
    from tdv.gen import dlis
    rec, File = ctx.rec, ck.File
    body0, _ = dlis.write_file(rng, [dlis.LR(True, 0, b'', False)], layout=dict(dlis.random_layout(rng), vr_cap=20))
    body = body0[80:]
    assert len(body) == 20
    alphabet = bytes(range(0x20, 0x7f))
    space = []
    for seq in range(1, 10000):
        for pad in (b' ', b'0'):
            if len(str(seq)) == 4 and pad == b'0':
                continue                      # same text as blank padded
            space.append(('seq', seq, pad))
    for ml in range(20, 16385):
        for pad in (b' ', b'0'):
            if len(str(ml)) == 5 and pad == b'0':
                continue
            space.append(('max', ml, pad))
    for v in range(100):
        space.append(('ver', v, b''))
    mine = space[p['part']::p['parts']]
    evals = nt = 0
    for what, val, pad in mine:
        seq, ml, ver = rng.randrange(1, 10000), rng.randrange(20, 16385), rng.choice([0, 0, rng.randrange(100)])
        spad = mpad = rng.choice([b' ', b'0'])
        if what == 'seq':
            seq, spad = val, pad
        elif what == 'max':
            ml, mpad = val, pad
        else:
            ver = val
        ident = bytes(rng.choice(alphabet) for _ in range(rng.randrange(0, 61))).ljust(60)
        sm = dlis.SulModel(seq, b'V1.%02d' % ver, ml, ident, str(seq).encode().rjust(4, spad), str(ml).encode().rjust(5, mpad))
        data = sm.as_bytes() + body
        rec.mon('label_sweep')
        evals += 1
        text = sm.seq_text if what == 'seq' else sm.max_text
        nt += (b' ' in text) or (b'0' in text.lstrip(b'0 ')) or what == 'ver'
        try:
            with File.FileRead(io.BytesIO(data)) as fr:
                ck.compare_label(fr.sul, sm, data, None, 'label-sweep')
                n = sum(1 for _ in fr.iter_logical_records()) if evals % 16 == 0 else 1
            if n != 1:
                ck.violation('label_sweep', 'count', '%d records behind label %r' % (n, sm.as_bytes()[:20]), {'file': data})
        except Exception as e:
            ck.violation('label_vs_model', 'label-refused', 'conformant label %r refused: %s: %s' % (sm.as_bytes()[:20], type(e).__name__, e),
                         {'file': data, 'label': sm.as_bytes(), 'error': str(e),
                          'label_fields': {'sequence': sm.seq_text, 'maximum_record_length': sm.max_text, 'version': sm.version}}, exc=e)
    rec.bulk_cases('labels: every sequence number 1..9999, every maximum record length 20..16384 (blank and zero padded), every version V1.00..V1.99',
                   evals, nt, exhaustive=True, sample={'space_size': len(space), 'example_label': dlis.SulModel(
                       7, b'V1.00', 4096, b'x'.ljust(60), b'0007', b' 4096').as_bytes()})


def run_shard(ctx, p):
    from TotalDepth.RP66V1.core import File
    from tdv.mon import contracts
    contracts.install_rp66v1_file_contracts()
    # same stream as ctx.rng in a normal run; in a replay (single shard 0) the original shard's stream is rebuilt from params
    rng = ctx.rng if ctx.shard == p['part'] else random.Random('%s:%s:%s' % (ctx.seed, ID, p['part']))
    ctx.rng = rng
    ck = Checker(ctx, File)
    label_sweep(ctx, ck, rng, p)
    boundary_files(ctx, ck, rng, 2 if ctx.tier == 'quick' else 40)
    for _ in range(1 if ctx.tier == 'quick' else 6):
        scale_files(ctx, ck, rng)
    random_files(ctx, ck, rng, p['n_random'])
    enumerated(ctx, ck, rng, p)
    for name, cnt in contracts.COUNTS.items():
        ctx.rec.mon('contract:' + name, cnt)
    for name, msg in contracts.drain():
        ctx.rec.violation('contract:' + name, 'breach', msg, {'contract': name, 'message': msg})
    ctx.rec.note('violations_by_kind', {'%s/%s' % k: v for k, v in sorted(ck.kinds.items())})


# --------------------------------------------------------------------------------------------- known findings
@classifier('c01_sul_regex_zero_digit')
def _f1(v):
    """F1: the label regexes `^[0 ]*([1-9]+)$` refuse a numeric field that has a 0 digit after its first non-zero digit."""
    if v.get('kind') != 'label-refused':
        return False
    w = v['witness']
    err = w.get('error', '')
    fields = w.get('label_fields') or {}

    def text(x):
        return bytes.fromhex(x['hex']) if isinstance(x, dict) else x

    for name, key in (('RE_STORAGE_UNIT_SEQUENCE_NUMBER', 'sequence'), ('RE_MAXIMUM_RECORD_LENGTH', 'maximum_record_length')):
        if 'Can not match ' + name in err:
            t = text(fields[key]).lstrip(b'0 ')
            return t.isdigit() and b'0' in t
    return False


LEVEL_TEXT = ('The real sequential reader is run on independently written RP66V1 files: tens of thousands of random physical layouts, the '
              'complete small scope of segment cuts x trailer options x visible-record packings, and the complete label space per field; '
              'every yielded record and every label field is compared with the writer\'s model, with icontract contracts on the live '
              'FileLogicalData / FileRead cursor.  Complete for the enumerated scopes, sampled beyond them.')
LEVEL_NOTE = ('Trusted: tdv.gen.dlis (written from RP66V1 section 2, shares no code with TotalDepth) and its model; icontract; the harness.  '
              'Not a proof for layouts outside the enumerated scope.')
TECHNIQUE = ('runtime monitoring: independent-writer differential on the sequential reader, exhaustive small-scope layout enumeration, '
             'operation histories on one reader, icontract invariants/postconditions on the live classes, sys.monitoring mechanism counters')
