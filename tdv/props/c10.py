"""C10 LAS written by TotalDepth reads back as the same log."""
import re
from fractions import Fraction

from tdv.core.findings import classifier  # noqa: F401  (classifiers for findings of this property live here)

ID = 'C10'
TITLE = 'LAS written by TotalDepth reads back as the same log'
NATIVE = 'plain'
NEEDS = ('icontract',)
RULE = ('One case = one random common.LogPass.FrameArray (1..10 channels; float32/64, int8..64, uint8..64; shapes (1,), (k,), '
        '(j,k), (1,1), (i,j,k); 1..80 frames; magnitudes from below the print precision to far wider than the field; the '
        'absent value -999.25 sprinkled in) x reduction in first/mean/median/min/max x channel subset (empty, with/without the '
        'first channel, unknown names, all) x field width 4..24 x format .0f...8f, written with the real '
        'write_curve_and_array_section_to_las and with the three writer functions separately, a harness ~V/~W header '
        'prepended, read back by the real LASRead and by the independent tokenizer of tdv.gen.las.  Distinct by the digest of '
        '(channels, dtypes, shapes, raw array bytes, options).  Non-trivial = >= 2 channels with a proper subset requested, '
        'or a multi-valued channel with a reduction other than first.  Rare classes: 20..64 channels, waveform channels of 128..500 values, '
        'big-endian arrays, field widths 2, 3, 32..80, 10..15 decimals, frame arrays in which only the first and the requested channels hold '
        'frames (as the RP66V1 conversion hands them over).  Histories: one subset object kept by the caller through all writer calls and on to a '
        'following frame array with another first channel; the data section written chunk by chunk from the re-initialised frame array object; '
        'the frame array LASRead returned (nulls masked) written and read a second time.')
ASSUMPTIONS = [
    'Channel names are LAS-legal mnemonics (no blank, dot, colon; not re-typable by Python int()/float()/yes-no: that defect '
    'belongs to C09) and units contain no blank or colon; a name or unit that LAS cannot represent is outside the property',
    'The index (first) channel is strictly monotonic with a spacing of at least 4 units of the last printed decimal so that '
    'the printed index values stay distinct (LASRead refuses duplicate index values by design)',
    'Arrays are plain ndarrays of finite values; |integer| <= 2**53; |float32| <= 1e30 and |float64| <= 1e200 so that the '
    'float32 / float64 accumulation of mean cannot overflow; masked source arrays are not generated',
    'Reference value = exact rational reduction (fractions.Fraction) of the exact binary source values; tolerance = half a '
    'unit of the last printed decimal (0 decimals for integer channels) + a rigorous bound of the floating-point reduction '
    'error 2.1*u*sum|x| (u = 2**-24 for float32, 2**-53 otherwise; mean over all elements, median over the one or two middle '
    'elements; zero for first/min/max) evaluated in exact arithmetic on the printed decimal token; the value read by LASRead '
    'must equal Python float(token) exactly',
    'The null value -999.25 in the source is compared on the underlying data (np.ma.getdata); the mask is not part of the property',
    'Second generation: only the values read back are compared (second read == first read within the print tolerance); how a masked '
    'null is spelled in the second text is not asserted',
    'Float formats are .Nf with N in 0..8 (5%: 10, 12, 15) and, in 15% of the cases, general / exponent formats (.N, .Ng, .Ne) whose tolerance is half a unit of the last *significant* digit',
]
MECHANISMS = [
    ('TotalDepth.LAS.core.WriteLAS', 'write_curve_section_to_las'),
    ('TotalDepth.LAS.core.WriteLAS', 'write_array_section_header_to_las'),
    ('TotalDepth.LAS.core.WriteLAS', 'write_array_section_data_to_las'),
    ('TotalDepth.LAS.core.WriteLAS', 'write_curve_and_array_section_to_las'),
    ('TotalDepth.LAS.core.WriteLAS', 'array_reduce'),
    ('TotalDepth.LAS.core.WriteLAS', '_add_x_axis_to_channels_to_write'),
    ('TotalDepth.LAS.core.LASRead', 'LASSectionArray.finalise'),
]
REQUIRED_MONITORS = ['channels_read_back', 'values_within_print_tolerance', 'reader_equals_token', 'tokenizer_consistency',
                     'three_writers_equal_combined', 'contract:LASSectionArray.add_member_line', 'contract:LASSectionArray.finalise',
                     'chunked_data_writes', 'second_generation', 'shared_subset_next_array']
MIN_NONTRIVIAL = {'quick': 4500, 'thorough': 80000}
TIMEOUT_S = {'quick': 300, 'thorough': 3000}
N_ARRAYS = {'quick': 9600, 'thorough': 160000}
NSHARDS = 16
REDUCTIONS = ['first', 'mean', 'median', 'min', 'max']
LEVEL_TEXT = ('Random frame arrays written by the real LAS writer functions, read back by the real LASRead and by an independent '
              'tokenizer; names/units/order/frame count exact, every value within the print tolerance of an exact rational '
              'reference reduction; curve section, ~A heading and every data row list first channel + requested subset.  Sampled.')
LEVEL_NOTE = ('Trusted: numpy array storage, fractions.Fraction, Python float(), the tokenizer in tdv/gen/las.py.  Names that '
              'LAS cannot represent, masked arrays, NaN/inf and e/g formats are outside the generated space.')
TECHNIQUE = ('runtime monitoring: round trip of the real writer through the real reader against an exact-arithmetic reference, '
             'independent tokenizer cross-check, metamorphic comparison of the combined writer with the three part writers, '
             'icontract postconditions, sys.monitoring mechanism counters')


def plan(tier, seed):
    n = N_ARRAYS[tier]
    return [{'arrays': n // NSHARDS + (1 if i < n % NSHARDS else 0)} for i in range(NSHARDS)]


DTYPES = ['float32', 'float64', 'float64', 'int8', 'int16', 'int32', 'int64', 'uint8', 'uint16', 'uint32', 'uint64']
INT_RANGE = {'int8': (-128, 127), 'int16': (-32768, 32767), 'int32': (-2 ** 31, 2 ** 31 - 1), 'int64': (-2 ** 53, 2 ** 53),
             'uint8': (0, 255), 'uint16': (0, 65535), 'uint32': (0, 2 ** 32 - 1), 'uint64': (0, 2 ** 53)}


def rand_shape(rng):
    r = rng.random()
    if r < 0.45:
        return (1,)
    if r < 0.70:
        return (rng.randint(2, 7),)
    if r < 0.90:
        return (rng.randint(1, 3), rng.randint(1, 4))
    if r < 0.95:
        return (1, 1)
    return (rng.randint(1, 2), rng.randint(1, 3), rng.randint(1, 3))


def print_tol(fmt, v):
    """Half a unit of the last digit a general ('.N', '.Ng') or exponent ('.Ne') float format prints for the exact value v."""
    n = int(fmt[1:-1]) if fmt[-1] in 'ge' else int(fmt[1:])
    sig = n + 1 if fmt.endswith('e') else max(n, 1)
    if v == 0:
        return Fraction(0)
    a, e10 = abs(v), 0
    while a >= 10:
        a /= 10
        e10 += 1
    while a < 1:
        a *= 10
        e10 -= 1
    return Fraction(10) ** (e10 - sig + 1) / 2


def rand_values(rng, dtype, count, nframes, d):
    """nframes x count Python numbers for a non-index channel."""
    if dtype.startswith('float'):
        top = 30 if dtype == 'float32' else 200
        cls = rng.choice(['tiny', 'small', 'medium', 'medium', 'wide', 'huge', 'mixed', 'null', 'const', 'cancel'])
        out = []
        for f in range(nframes):
            row = []
            for _ in range(count):
                c = cls if cls not in ('mixed', 'null') else rng.choice(['tiny', 'small', 'medium', 'wide', 'huge', 'absent' if cls == 'null' else 'medium'])
                if c == 'tiny':
                    v = rng.uniform(-1, 1) * 10.0 ** (-d - rng.randint(0, 3))
                elif c == 'small':
                    v = rng.uniform(-10, 10)
                elif c == 'medium':
                    v = rng.uniform(-1, 1) * 10.0 ** rng.randint(1, 5)
                elif c == 'wide':
                    v = rng.uniform(-1, 1) * 10.0 ** rng.randint(6, 25)
                elif c == 'huge':
                    v = rng.uniform(-1, 1) * 10.0 ** rng.randint(25, top)
                elif c == 'absent':
                    v = -999.25
                elif c == 'const':
                    v = 2889.4
                else:   # cancel: large values of both signs whose mean is small
                    v = rng.choice([-1, 1]) * (10.0 ** 7 + rng.uniform(0, 1))
                if rng.random() < 0.05:
                    v = rng.choice([0.0, -0.0, 0.5, 1.5, 2.5, -0.5, 0.125, 0.375, -999.25, 1.0, 1e-9])   # ties and specials
                row.append(v)
            out.append(row)
        return out, cls
    lo, hi = INT_RANGE[dtype]
    cls = rng.choice(['small', 'full', 'edge', 'mixed'])
    if dtype in ('int64', 'uint64') and rng.random() < 0.3:
        # the top of the 64 bit ranges (beyond 2^53 only multiples of 4096 are used: they are doubles, so printing through a
        # float, which the writer does, loses nothing): counters, time stamps in nanoseconds, values at and above 2^63
        cls = 'huge'
    out = []
    for f in range(nframes):
        row = []
        for _ in range(count):
            c = cls if cls != 'mixed' else rng.choice(['small', 'full', 'edge'])
            if c == 'huge':
                if dtype == 'uint64':
                    v = 4096 * rng.choice([2 ** 51, 2 ** 52 - 1, 2 ** 52 - 2, rng.randrange(2 ** 50, 2 ** 52), rng.randrange(2 ** 51, 2 ** 52)])
                else:
                    v = rng.choice([-1, 1]) * 4096 * rng.choice([2 ** 51 - 1, 2 ** 50, rng.randrange(2 ** 49, 2 ** 51)])
                row.append(v)
                continue
            if c == 'small':
                v = rng.randint(max(lo, -100), min(hi, 100))
            elif c == 'full':
                v = rng.randint(lo, hi)
            else:
                v = rng.choice([lo, hi, lo + 1, hi - 1, 0, max(lo, -999), min(hi, 1)])
            row.append(v)
        out.append(row)
    return out, cls


def run_shard(ctx, p):
    import io
    import logging
    import math
    import warnings
    import numpy as np
    logging.disable(logging.CRITICAL)
    from TotalDepth.LAS.core import LASRead, WriteLAS
    from TotalDepth.common import LogPass, Slice
    from tdv.mon import contracts
    from tdv.gen import las as G
    contracts.install_las_contracts()
    rec, rng = ctx.rec, ctx.rng
    caps = {}

    def viol(monitor, kind, msg, witness, exc=None):
        if caps.get((kind, None), 0) < 25:
            fid = rec.violation(monitor, kind, msg, witness, exc=exc)
            caps[(kind, fid)] = caps.get((kind, fid), 0) + 1

    U = {'float32': Fraction(1, 2 ** 24)}
    HEADER = G.minimal_header()

    def check_text(text, fa, specs, exp_idx, nfr, red, fw, fmt, d, general, base_w, label):
        """Everything the property says about one written text: tokenizer consistency, values against the exact reduction of the
        arrays now held by fa, read back by the real reader.  -> (tokenizer result, LASRead object) or None after a violation
        that makes the rest meaningless."""
        exp_names = [specs[i]['name'] for i in exp_idx]
        tw = text if len(text) < 4000 else text[:4000] + '...'
        base_w = dict(base_w, written_as=label)
        # ---- independent tokenizer: curve names == heading names == expected; every row has that many columns
        rec.mon('tokenizer_consistency')
        try:
            tok = G.tokenize(text)
        except Exception as e:
            viol('tokenizer_consistency', 'not-las', 'output is not tokenizable LAS: %s' % e, dict(base_w, text=tw), exc=e)
            return None
        cnames = [t[0] for t in tok.get('C', [])]
        cunits = [t[1] for t in tok.get('C', [])]
        bad = None
        if cnames != exp_names:
            bad = ('curve-section', 'curve section lists %r, expected first + requested = %r' % (cnames, exp_names))
        elif tok['A_heading'] != exp_names:
            bad = ('heading', '~A heading lists %r, expected %r' % (tok['A_heading'], exp_names))
        elif cunits != [specs[i]['units'] for i in exp_idx]:
            bad = ('curve-units', 'curve section units %r, expected %r' % (cunits, [specs[i]['units'] for i in exp_idx]))
        elif len(tok['rows']) != nfr:
            bad = ('row-count', '%d data rows for %d frames' % (len(tok['rows']), nfr))
        else:
            for f, row in enumerate(tok['rows']):
                if len(row) != len(exp_names):
                    bad = ('row-columns', 'data row %d has %d columns, %d channels listed: %r' % (f, len(row), len(exp_names), row[:12]))
                    break
        if bad:
            viol('tokenizer_consistency', bad[0], bad[1] + ' [%s]' % label, dict(base_w, expected=exp_names, curve_section=cnames, heading=tok['A_heading'], text=tw))
            return None
        # ---- values: printed token against the exact reduction
        half = Fraction(1, 2 * 10 ** d)
        nviol = 0
        for col, i in enumerate(exp_idx):
            sp = specs[i]
            arr = fa.channels[i].array.reshape(nfr, -1)
            isint = not sp['dtype'].startswith('float')
            u = U.get(sp['dtype'], Fraction(1, 2 ** 53))
            tol0 = Fraction(1, 2) if isint else half
            tol_of = (lambda ref: tol0) if (isint or not general) else (lambda ref: print_tol(fmt, ref))
            rows = arr.tolist()
            for f in range(nfr):
                xs = [Fraction(x) for x in rows[f]]
                if red == 'first':
                    ref, err = xs[0], 0
                elif red == 'min':
                    ref, err = min(xs), 0
                elif red == 'max':
                    ref, err = max(xs), 0
                elif red == 'mean':
                    ref = sum(xs) / len(xs)
                    err = 0 if len(xs) == 1 else u * sum(abs(x) for x in xs) * Fraction(21, 10)
                else:
                    ys = sorted(xs)
                    n = len(ys)
                    if n % 2:
                        ref, err = ys[n // 2], 0
                    else:
                        ref = (ys[n // 2 - 1] + ys[n // 2]) / 2
                        err = u * (abs(ys[n // 2 - 1]) + abs(ys[n // 2])) * Fraction(21, 10)
                token = tok['rows'][f][col]
                rec.mon('values_within_print_tolerance')
                try:
                    tv = Fraction(token)
                except (ValueError, ZeroDivisionError):
                    tv = None
                if tv is None or abs(tv - ref) > tol_of(ref) + err:
                    nviol += 1
                    if nviol <= 3:
                        viol('values_within_print_tolerance', 'value', 'channel %s frame %d: printed %r, %s of source is %s (tolerance %s) [%s]' % (
                            sp['name'], f, token, red, float(ref), float(tol_of(ref) + err), label),
                            dict(base_w, channel=sp, frame=f, token=token, source=rows[f][:24], reference=float(ref), ref_fraction=str(ref) if len(str(ref)) < 80 else None,
                                 tolerance=float(tol_of(ref) + err), row=tok['rows'][f][:40]))
                if err:
                    rec.add('values_with_reduction_error_allowance')
                if len(token) > fw:
                    rec.add('tokens_wider_than_field')
        # ---- the real reader
        rec.mon('channels_read_back')
        try:
            l = LASRead.LASRead(io.StringIO(text), 'c10')
        except Exception as e:
            viol('channels_read_back', 'read-raises', 'LASRead raises %s on the written text: %s [%s]' % (type(e).__name__, e, label), dict(base_w, text=tw), exc=e)
            for name, msg in contracts.drain():
                viol('contract:' + name, 'breach', msg, dict(base_w, contract=name, message=msg))
            return None
        for name, msg in contracts.drain():
            viol('contract:' + name, 'breach', msg, dict(base_w, contract=name, message=msg, text=tw))
        rfa = l.frame_array
        got_names = [c.ident for c in rfa.channels]
        got_units = [c.units for c in rfa.channels]
        if got_names != exp_names or [type(x) for x in got_names] != [str] * len(exp_names):
            viol('channels_read_back', 'names', 'read back channels %r, expected %r [%s]' % (got_names, exp_names, label), dict(base_w, got=[repr(x) for x in got_names], text=tw))
            return None
        if got_units != [specs[i]['units'] for i in exp_idx]:
            viol('channels_read_back', 'units', 'read back units %r, expected %r' % (got_units, [specs[i]['units'] for i in exp_idx]),
                 dict(base_w, got=[repr(x) for x in got_units], text=tw))
        if l.number_of_frames() != nfr or any(len(c.array) != nfr for c in rfa.channels):
            viol('channels_read_back', 'frame-count', 'read back %d frames, wrote %d [%s]' % (l.number_of_frames(), nfr, label), dict(base_w, text=tw))
            return None
        nv = 0
        for col, c in enumerate(rfa.channels):
            data = np.ma.getdata(c.array).reshape(-1).tolist()
            for f in range(nfr):
                rec.mon('reader_equals_token')
                token = tok['rows'][f][col]
                try:
                    want = float(token)
                except ValueError:
                    continue    # already reported above
                if data[f] != want and not (math.isnan(want) and math.isnan(data[f])):
                    nv += 1
                    if nv <= 3:
                        viol('reader_equals_token', 'reader-value', 'channel %s frame %d: token %r read as %r' % (c.ident, f, token, data[f]),
                             dict(base_w, token=token, got=data[f], row=tok['rows'][f][:40]))
        return tok, l

    def write_and_check(fa, specs, sub, sub_arg, nfr, red, fw, fmt, d, general, base_w, label, parts=True):
        """Write fa with the real writer (sub_arg is the object handed to TotalDepth; sub is the content it had when the caller
        made it) and check the text.  -> (text pieces, check_text result) or None."""
        names = [sp['name'] for sp in specs]
        exp_idx = [i for i, n in enumerate(names) if not sub or i == 0 or n in sub]
        fsl = rng.choice([Slice.Slice(), Slice.Slice(0, None, 1), Slice.Sample(max(1, nfr))])
        maxf = nfr + rng.choice([0, 0, 5])
        fresh = (lambda: set(sub)) if sub_arg is None else (lambda: sub_arg)
        try:
            out = io.StringIO()
            WriteLAS.write_curve_and_array_section_to_las(fa, maxf, red, fsl, fresh(), fw, fmt, out)
            body = out.getvalue()
            o1, o2, o3 = io.StringIO(), io.StringIO(), io.StringIO()
            if parts:
                WriteLAS.write_curve_section_to_las(fa, fresh(), o1)
                WriteLAS.write_array_section_header_to_las(fa, maxf, red, fsl, fresh(), fw, o2)
                WriteLAS.write_array_section_data_to_las(fa, red, fresh(), fw, fmt, o3)
        except Exception as e:
            viol('three_writers_equal_combined', 'writer-raises', 'writer raised %s: %s [%s]' % (type(e).__name__, e, label), dict(base_w, written_as=label), exc=e)
            return None
        rec.add('bytes_written', len(body))
        if parts:
            rec.mon('three_writers_equal_combined')
            if o1.getvalue() + o2.getvalue() + o3.getvalue() != body:
                pieces = o1.getvalue() + o2.getvalue() + o3.getvalue()
                k = next((i for i, (a, b) in enumerate(zip(pieces, body)) if a != b), min(len(pieces), len(body)))
                viol('three_writers_equal_combined', 'writers-disagree', 'combined output differs from curve+header+data at offset %d' % k,
                     dict(base_w, combined=body[max(0, k - 200):k + 200], parts=pieces[max(0, k - 200):k + 200]))
        res = check_text(HEADER + body, fa, specs, exp_idx, nfr, red, fw, fmt, d, general, base_w, label)
        return (o1.getvalue(), o2.getvalue(), o3.getvalue(), fsl, maxf), res, exp_idx

    for ai in range(p['arrays']):
        nch = rng.choice([1, 2, 3, 4, 5, 6, 8, 10, rng.randint(1, 10)])
        nfr = rng.choice([1, 2, 3, 5, 8, rng.randint(1, 80), rng.randint(1, 80)])
        r0 = rng.random()
        if r0 < 0.03:
            # long logs: more frames than any plausible write buffer (1 Ki, 2 Ki, 4 Ki rows) holds, few channels to stay cheap
            nfr = rng.choice([1024, 1025, 2048, 2049, 4097, rng.randint(1025, 2600)])
            nch = min(nch, 3)
        elif r0 < 0.045:
            # wide frames: as many channels as a real RP66V1 / LIS frame carries
            nch = rng.choice([20, 33, 48, 64])
            nfr = min(nfr, 6)
        fw = rng.randint(4, 24)
        if rng.random() < 0.06:
            fw = rng.choice([2, 3, 32, 48, 80])     # narrower than any value / far wider than any value
        d = rng.randint(0, 8)
        if rng.random() < 0.05:
            d = rng.choice([10, 12, 15])
        fmt = '.%df' % d
        general = rng.random() < 0.15 and nfr <= 80     # three significant digits cannot keep 1000 index values distinct
        if general:
            # the option takes any Python float format: general / exponent forms count significant digits, not decimals
            fmt = rng.choice(['.3', '.5', '.8', '.4g', '.7g', '.3e', '.6e'])
            d = 3
        red = rng.choice(REDUCTIONS)
        used = set()
        specs = []
        fa = LogPass.FrameArray(rng.choice(['FA', 'id', '60B', 'frame array 1']), rng.choice(['desc', '', 'Main: log']))
        waveforms = nfr <= 8 and nch <= 10 and rng.random() < 0.02
        for c in range(nch):
            name = G.rand_mnem(rng, used, G.CURVE_NAMES + ['DEPT', 'TIME', 'INDEX'])
            units = rng.choice(G.UNITS) if rng.random() < 0.8 else ''
            if G._retypable(units):
                units = 'M'
            if rng.random() < 0.06:
                # units that look like numbers (scale factors, counts): text all the same
                units = rng.choice(['1', '100', '0.1', '1e-3', '5', '1000', '1E3', '0.001'])
            long_name = G.rand_text(rng, allow_colon=rng.random() < 0.2)
            dtype = rng.choice(DTYPES)
            shape = rand_shape(rng) if (c > 0 or (rng.random() < 0.25 and not general)) else (1,)
            if waveforms and c > 0 and rng.random() < 0.5:
                shape = rng.choice([(128,), (256,), (500,), (4, 64)])       # waveform / image channels
            count = 1
            for s in shape:
                count *= s
            if c == 0:
                # strictly monotonic index; every element of frame i lies in [base_i, base_i + step/4]
                if dtype.startswith('float') and general:
                    # index values that stay distinct at three significant digits
                    sgn = rng.choice([1, -1])
                    vals = [[float(sgn * (1 + f))] for f in range(nfr)]
                    cls = 'index'
                elif dtype.startswith('float'):
                    unit = max(4 * 10.0 ** -d, 0.01)
                    step = unit * rng.choice([1, 1, 2.5, 10, 100]) * rng.choice([1, 1, -1])
                    start = rng.uniform(0, 1000)
                    vals = [[start + f * step + (abs(step) / 4) * (rng.random() if count > 1 else 0) for _ in range(count)] for f in range(nfr)]
                    cls = 'index'
                else:
                    lo, hi = INT_RANGE[dtype]
                    step = rng.choice([1, 1, 2, 4]) if nfr * 4 < hi - lo else 1
                    if step * nfr > hi - lo:       # int8/uint8 with many frames
                        dtype = 'int32'
                        lo, hi = INT_RANGE[dtype]
                    start = rng.randint(max(lo, -10 ** 6), min(hi - step * nfr, 10 ** 6))
                    sign = 1
                    vals = [[start + f * step + (rng.randint(0, step // 4) if count > 1 else 0) for _ in range(count)] for f in range(nfr)]
                    if rng.random() < 0.3 and lo < 0:
                        vals = vals[::-1]
                    cls = 'index'
            else:
                vals, cls = rand_values(rng, dtype, count, nfr, d)
            # arrays decoded from big-endian files may keep that byte order
            npdt = np.dtype(dtype)
            big_endian = npdt.itemsize > 1 and rng.random() < 0.04
            if big_endian:
                npdt = npdt.newbyteorder('>')
            ch = LogPass.FrameChannel(name, long_name, units, shape, npdt)
            ch.init_array(nfr)
            ch.array[...] = np.array(vals, dtype=dtype).reshape((nfr,) + shape)
            fa.append(ch)
            specs.append({'name': name, 'units': units, 'dtype': dtype, 'shape': list(shape), 'class': cls})
            if big_endian:
                specs[-1]['byteorder'] = '>'
        names = [s['name'] for s in specs]
        # ---- subset
        r = rng.random()
        if r < 0.25:
            sub, sclass = set(), 'all(empty)'
        elif r < 0.45:
            sub, sclass = set(rng.sample(names[1:], rng.randint(0, len(names) - 1))) | {names[0]}, 'with-first'
        elif r < 0.75:
            sub = set(rng.sample(names[1:], rng.randint(1, len(names) - 1))) if nch > 1 else {'nope'}
            sclass = 'without-first'
        elif r < 0.9:
            sub = set(rng.sample(names, rng.randint(0, len(names)))) | {rng.choice(['nope', 'XXXX', names[0].lower() + '_', ''])}
            sclass = 'with-unknown'
        else:
            sub, sclass = set(names), 'all(named)'
        exp_idx = [i for i, n in enumerate(names) if not sub or i == 0 or n in sub]
        multi_nonfirst = red != 'first' and any(len(specs[i]['shape']) > 1 or specs[i]['shape'][0] > 1 for i in exp_idx)
        nontrivial = (nch >= 2 and len(exp_idx) < nch) or multi_nonfirst
        key = [[s['name'], s['units'], s['dtype'], s['shape'], s.get('byteorder', '')] for s in specs], [c.array.tobytes().hex() for c in fa.channels], sorted(sub), red, fw, fmt
        opts = {'reduction': red, 'subset': sorted(sub), 'field_width': fw, 'format': fmt, 'frames': nfr}
        # ---- the way the RP66V1 conversion hands a frame array over: only the first and the requested channels hold frames
        partial = bool(sub) and len(exp_idx) < nch and rng.random() < 0.3
        if partial:
            for i in range(nch):
                if i not in exp_idx:
                    fa.channels[i].init_array(0)
        # ---- one subset object kept by the caller for several frame arrays (as a directory conversion does)
        shared = bool(sub) and rng.random() < 0.25
        sub_arg = set(sub) if shared else None
        extra = (['partially-populated'] if partial else []) + (['subset-object-shared'] if shared else []) + (['waveform-channel'] if any(
            s['shape'][0] >= 128 or (len(s['shape']) > 1 and s['shape'][1] >= 128) for s in specs) else []) + (['dtype-big-endian'] if any(
                'byteorder' in s for s in specs) else []) + (['field-width-%s' % ('<4' if fw < 4 else '>24')] if not 4 <= fw <= 24 else []) + (
                    ['decimals>=10'] if d >= 10 else []) + (['channels>=20'] if nch >= 20 else [])
        rec.case(key, nontrivial, classes=['subset-' + sclass, 'reduction-' + red, 'channels-%s' % (nch if nch < 4 else '4+')]
                 + sorted(set('dtype-' + s['dtype'] for s in specs)) + sorted(set('values-' + s['class'] for s in specs))
                 + sorted(set('rank-%d' % len(s['shape']) for s in specs)) + extra,
                 sample={'channels': specs[:5], 'options': opts})
        base_w = {'array': ai, 'channels': specs if len(specs) <= 12 else specs[:12] + ['... %d channels' % len(specs)], 'options': opts,
                  'partially_populated': partial, 'subset_object_shared': shared}
        done = write_and_check(fa, specs, sub, sub_arg, nfr, red, fw, fmt, d, general, base_w, 'whole frame array')
        if done is None:
            continue
        (t_curve, t_head, t_data, fsl, maxf), res, exp_idx = done
        hist = rng.random()
        # ---- history: the documented incremental use - curve section and heading once, then the data of the same frame array
        #      object re-initialised chunk by chunk
        if res is not None and hist < 0.08 and nfr >= 2:
            rec.mon('chunked_data_writes')
            cuts = sorted(set([0, nfr] + [rng.randrange(1, nfr) for _ in range(rng.choice([1, 2, 3]))]))
            full = [np.array(c.array, copy=True) for c in fa.channels]
            out = io.StringIO()
            try:
                for a, b in zip(cuts, cuts[1:]):
                    for c, keep in zip(fa.channels, full):
                        if len(keep):
                            c.init_array(b - a)
                            c.array[...] = keep[a:b]
                    WriteLAS.write_array_section_data_to_las(fa, red, set(sub) if sub_arg is None else sub_arg, fw, fmt, out)
            except Exception as e:
                viol('chunked_data_writes', 'writer-raises', 'data writer raised %s: %s on chunk of a re-initialised frame array' % (type(e).__name__, e),
                     dict(base_w, cuts=cuts), exc=e)
                out = None
            for c, keep in zip(fa.channels, full):
                c.array = keep
            if out is not None:
                check_text(HEADER + t_curve + t_head + out.getvalue(), fa, specs, exp_idx, nfr, red, fw, fmt, d, general, dict(base_w, cuts=cuts),
                           'data written in %d chunks' % (len(cuts) - 1))
        # ---- history: what the reader gave back (a frame array with the null values masked) is written again and read again
        elif res is not None and 0.08 <= hist < 0.16 and not general:     # (three significant digits do not keep an integer index distinct)
            rec.mon('second_generation')
            tok, l1 = res
            rfa = l1.frame_array
            v1 = [np.ma.getdata(c.array).reshape(-1).tolist() for c in rfa.channels]
            out = io.StringIO()
            try:
                with warnings.catch_warnings():
                    warnings.simplefilter('ignore')
                    WriteLAS.write_curve_and_array_section_to_las(rfa, nfr, red, fsl, set(), fw, fmt, out)
                    l2 = LASRead.LASRead(io.StringIO(HEADER + out.getvalue()), 'c10-2')
            except Exception as e:
                viol('second_generation', 'raises', 'writing / reading the frame array that LASRead returned raised %s: %s' % (type(e).__name__, e),
                     dict(base_w, text=out.getvalue()[:3000]), exc=e)
                l2 = None
            contracts.drain()
            if l2 is not None:
                exp_names = [specs[i]['name'] for i in exp_idx]
                g2 = [c.ident for c in l2.frame_array.channels]
                if g2 != exp_names or l2.number_of_frames() != nfr:
                    viol('second_generation', 'structure', 'second generation has channels %r and %d frames, first generation %r and %d' % (
                        g2, l2.number_of_frames(), exp_names, nfr), dict(base_w, text=out.getvalue()[:3000]))
                else:
                    nb = 0
                    for col, c in enumerate(l2.frame_array.channels):
                        v2 = np.ma.getdata(c.array).reshape(-1).tolist()
                        for f in range(nfr):
                            a, b = v1[col][f], v2[f]
                            tol = (print_tol(fmt, Fraction(a)) if general else Fraction(1, 2 * 10 ** d)) + abs(Fraction(a)) / 2 ** 52
                            if b != b or abs(Fraction(b) - Fraction(a)) > tol:
                                nb += 1
                                if nb <= 3:
                                    viol('second_generation', 'value', 'channel %s frame %d: %r written and read again gives %r (format %s)' % (
                                        c.ident, f, a, b, fmt), dict(base_w, first=a, second=b, text=out.getvalue()[:3000]))
        # ---- history: the caller's subset object goes on to the next frame array, whose first channel is another one
        if shared and names[0] not in sub and rng.random() < 0.6:
            rec.mon('shared_subset_next_array')
            xname = G.rand_mnem(rng, used, ['X2', 'TDEP', 'BOREHOLE-DEPTH'])
            xch = LogPass.FrameChannel(xname, 'second index', 'M', (1,), np.dtype('float64'))
            xch.init_array(nfr)
            xch.array[...] = np.arange(1, nfr + 1, dtype='float64').reshape(nfr, 1) * rng.choice([1.0, -1.0, 10.0])    # distinct under every format used
            fa2 = LogPass.FrameArray('FA2', 'next frame array of the same conversion')
            fa2.append(xch)
            for c in fa.channels:
                fa2.append(c)
            specs2 = [{'name': xname, 'units': 'M', 'dtype': 'float64', 'shape': [1], 'class': 'index'}] + specs
            # content of the caller's set as the caller made it: whatever TotalDepth added meanwhile is not requested
            write_and_check(fa2, specs2, sub, sub_arg, nfr, red, fw, fmt, d, general, dict(base_w, second_index=xname),
                            'next frame array, same subset object', parts=False)
    for name, cnt in contracts.COUNTS.items():
        rec.mon('contract:' + name, cnt)
