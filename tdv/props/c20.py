"""C20 File type identification recognises every supported format and never crashes."""
import io
import os

ID = 'C20'
TITLE = 'File type identification recognises every supported format and never crashes'
NATIVE = 'plain'
RULE = ('(a) valid files of each supported format from the independent generators in random layouts/sizes, expected code from the '
        'generator; metamorphic pairs (same format, different data / ~10x size) must get the same code.  (b) arbitrary inputs: random '
        'bytes, ASCII noise, near-miss signatures of every recogniser, and truncations / bit flips / splices / word overwrites / '
        'hostile-number overwrites / line edits of valid files of every format.  Every input is identified through a TapFile under a '
        'LINE-event step counter.  Distinct by input bytes; non-trivial = a valid file in a non-default layout, or a hostile input '
        'that is not plain random noise (i.e. derived from a valid file or a signature).  (c) a coverage-guided leg: atheris / libFuzzer '
        'mutates a corpus of valid files and signatures against the same entry points in a child process; every artifact is re-identified '
        'through the full oracle.  (d) the answer is a function of the bytes: a share of the inputs is identified again through '
        'binary_file_type_from_path, from a file object handed over at a non-zero offset, and at the end of the shard after everything '
        'else; a few inputs per shard are 0.2-2 MB (one endless line, line ends only, zeros, a repeated physical record, a TIF chain).')
ASSUMPTIONS = [
    'expected codes: RP66V1 -> RP66V1; LIS -> LIS / LISt (TIF) / LIStr (byte-reversed TIF markers); LAS -> LAS1.2 / LAS2.0 by VERS; BIT -> BIT; DAT -> DAT',
    'TIF-marked LIS files whose first record is exactly 276 bytes share the BIT signature and are excluded, as the property says',
    '"terminates promptly" is decided on a logical clock: LINE events <= A*len + B with A, B set ~20x above the maximum observed on valid inputs; a second clock, the process\'s own CPU time (ITIMER_VIRTUAL, 20 s + 60 s per MB, three to four orders of magnitude above the need), covers loops inside C extensions that emit no LINE events (regular expressions); wall clock is only a watchdog',
    'LAS files in byte-reversed TIF or RP66V1 with TIF markers are not generated (not in the property)',
]
MECHANISMS = [
    ('TotalDepth.util.bin_file_type', 'binary_file_type'),
    ('TotalDepth.util.bin_file_type', '_lis'), ('TotalDepth.util.bin_file_type', '_dat'), ('TotalDepth.util.bin_file_type', '_bit'),
    ('TotalDepth.util.bin_file_type', '_rp66v1'), ('TotalDepth.util.bin_file_type', '_las'), ('TotalDepth.util.bin_file_type', '_ascii'),
    ('TotalDepth.util.bin_file_type', '_segy'), ('TotalDepth.util.bin_file_type', '_rp66v2'), ('TotalDepth.util.bin_file_type', '_lis_ver'),
    ('TotalDepth.LIS.core.File', 'file_read_with_best_physical_record_pad_settings'),
    ('TotalDepth.DAT.DAT_parser', 'can_parse_file'), ('TotalDepth.BIT.ReadBIT', 'is_bit_file'),
]
REQUIRED_MONITORS = ['valid_identified', 'metamorphic_same_code', 'same_bytes_same_code', 'no_raise', 'code_in_documented_set', 'rewound_and_unchanged', 'step_budget',
                     'format_gates_no_raise', 'bit_gate_accepts_valid_bit', 'dat_gate_accepts_valid_dat', 'coverage_guided_no_crash']
MIN_NONTRIVIAL = {'quick': 20000, 'thorough': 300000}
NSHARDS = 16
COUNTS = {'quick': (300, 5000), 'thorough': (4000, 90000)}      # per shard: valid files, hostile inputs
TIMEOUT_S = {'quick': 600, 'thorough': 3300}
# logical-clock budget, calibrated (see evidence keys max_steps_*): steps <= A * len + B
BUDGET_A, BUDGET_B = 1000, 5_000_000


FUZZ_RUNS = {'quick': 20000, 'thorough': 1000000}     # executions of the coverage-guided (atheris / libFuzzer) leg


def plan(tier, seed):
    nv, nh = COUNTS[tier]
    return [{'valid': nv, 'hostile': nh} for _ in range(NSHARDS)] + [{'leg': 'atheris', 'runs': FUZZ_RUNS[tier]}]


class CpuBudgetExceeded(BaseException):
    """BaseException so that `except Exception` in the code under test cannot swallow it."""


CPU = {'budget_s': 20.0, 'overruns': 0}


def _on_vtalrm(signum, frame):
    raise CpuBudgetExceeded()


def cpu_limited(fn, nbytes):
    """Run fn() under a budget of the process's own CPU time (ITIMER_VIRTUAL: it does not run while the process waits for
    a loaded machine).  The LINE counter cannot see a loop inside a C extension - a regular expression that backtracks for
    ever - so this second clock covers it.  20 s (+ 60 s per MB) is 3-4 orders of magnitude above what an input needs."""
    import signal
    budget = CPU['budget_s'] + 60.0 * nbytes / 1e6 if CPU['overruns'] < 2 else 2.0
    old = signal.signal(signal.SIGVTALRM, _on_vtalrm)
    signal.setitimer(signal.ITIMER_VIRTUAL, budget)
    try:
        return fn()
    finally:
        signal.setitimer(signal.ITIMER_VIRTUAL, 0)
        signal.signal(signal.SIGVTALRM, old)


def identify(rec, bft, steps, data, label, expect=None, witness=None):
    """Run the real identification on a tapped in-memory file under the step counter and apply every oracle.
    Returns the code (or None when it raised)."""
    from tdv.mon.tap import TapFile
    from tdv.mon.hits import StepBudgetExceeded
    f = TapFile(data)
    budget = BUDGET_A * len(data) + BUDGET_B
    w = dict(witness or {})
    w.update({'input': data, 'len': len(data), 'class': label})
    code = None
    try:
        code, n = cpu_limited(lambda: steps.run(lambda: bft.binary_file_type(f), budget), len(data))
    except StepBudgetExceeded as e:
        rec.mon('step_budget')
        rec.violation('step_budget', 'overrun', 'identification of a %d-byte %s input exceeded %d line events' % (len(data), label, budget), w)
        return None
    except CpuBudgetExceeded:
        rec.mon('step_budget')
        CPU['overruns'] += 1
        if CPU['overruns'] <= 3:
            rec.violation('step_budget', 'cpu-time', 'identification of a %d-byte %s input was still running after %.0f s of the process\'s own CPU time (a loop the line counter cannot see)' % (
                len(data), label, CPU['budget_s'] + 60.0 * len(data) / 1e6), w)
        else:
            rec.add('cpu_time_overruns_not_listed')
        return None
    except Exception as e:  # noqa - any exception is a refutation
        rec.mon('no_raise')
        w['exception'] = '%s: %s' % (type(e).__name__, str(e)[:300])
        rec.violation('no_raise', type(e).__name__, 'binary_file_type raised %s on a %d-byte %s input: %s' % (type(e).__name__, len(data), label, str(e)[:200]), w, exc=e)
        return None
    rec.mon('no_raise')
    rec.mon('step_budget')
    rec.maxi('max_steps', n)
    rec.maxi('max_steps_' + label.split(':')[0], n)
    rec.maxi('max_steps_per_byte_x1000', int(1000 * n / max(1, len(data))) if len(data) >= 256 else 0)
    rec.add('tap_reads', f.n_reads)
    rec.add('tap_bytes_read', f.bytes_read)
    rec.mon('code_in_documented_set')
    if not isinstance(code, str) or (code != '' and code not in bft.BINARY_FILE_TYPES_SUPPORTED):
        rec.violation('code_in_documented_set', 'undocumented', 'binary_file_type returned %r for a %s input' % (code, label), dict(w, got=repr(code)))
    rec.mon('rewound_and_unchanged')
    if f.closed:
        rec.violation('rewound_and_unchanged', 'closed', 'identification closed the file object (%s input)' % label, w)
    else:
        pos = io.BytesIO.tell(f)
        if pos != 0 or f.getvalue() != data:
            rec.violation('rewound_and_unchanged', 'position', 'file left at offset %d after identification (%s input, code %r)' % (pos, label, code), dict(w, got=code, position=pos))
    # ---- the formats' own gates used by the directory tools (BIT reader, DAT parser): same property, same input
    gates(rec, data, label, expect, code, w)
    if expect is not None:
        rec.mon('valid_identified')
        ok = code in expect if isinstance(expect, (set, frozenset, tuple, list)) else code == expect
        if not ok:
            rec.violation('valid_identified', 'misidentified', 'valid %s file identified as %r, expected %r' % (label, code, expect), dict(w, got=code, expected=sorted(expect) if not isinstance(expect, str) else expect))
    return code


def same_answer(rec, bft, data, code, how, label, start=0, path=None):
    """The answer is a function of the bytes: the same bytes identified again - through binary_file_type_from_path, from a file
    object that is not at offset 0 when handed over, or later in the process after other files - must get the same code."""
    rec.mon('same_bytes_same_code')
    rec.cls('again:' + how)
    try:
        if path is not None:
            with open(path, 'wb') as fh:
                fh.write(data)
            try:
                code2 = bft.binary_file_type_from_path(path)
            finally:
                os.unlink(path)
        else:
            f = io.BytesIO(data)
            f.seek(start)
            code2 = bft.binary_file_type(f)
    except Exception as e:  # noqa
        rec.violation('same_bytes_same_code', how + ':' + type(e).__name__, 'identification (%s) raised %s on a %d-byte %s input that was identified as %r before: %s' % (
            how, type(e).__name__, len(data), label, code, str(e)[:200]), {'input': data, 'len': len(data), 'class': label, 'how': how, 'start': start, 'first': code}, exc=e)
        return
    if code2 != code:
        rec.violation('same_bytes_same_code', how, 'the same %d bytes (%s) were identified as %r and then (%s%s) as %r' % (
            len(data), label, code, how, ', file object handed over at offset %d' % start if start else '', code2),
                      {'input': data, 'len': len(data), 'class': label, 'how': how, 'start': start, 'first': code, 'second': code2})


def big_input(rng):
    """Inputs of 0.2 .. 2 MB whose shape keeps a careless recogniser busy: one endless line, only line ends, zeros, one repeated LIS-like
    physical record, a valid signature followed by megabytes."""
    n = rng.choice([200_000, 1_000_000, 2_000_000])
    k = rng.randrange(8)
    if k == 0:
        return 'big:one-line', bytes([rng.choice(b'abc 0123456789.-')]) * n
    if k == 1:
        return 'big:line-ends', rng.choice([b'\n', b'\r\n', b' \n', b'#\n']) * (n // 20)
    if k == 2:
        return 'big:zeros', bytes(n)
    if k == 3:
        return 'big:0xff', b'\xff' * n
    if k == 4:
        # physical records of 4 + m bytes, type 0 logical records, over and over (pr_limit of the LIS recogniser)
        m = rng.choice([2, 6, 60, 1000])
        pr = (4 + m).to_bytes(2, 'big') + b'\x00\x00' + bytes([rng.choice([0, 128, 34, 64])]) + bytes(m - 1)
        return 'big:lis-like-records', pr * (min(n, 200_000) // len(pr))      # a LIS index is built over all of it: linear, but slow
    if k == 5:
        return 'big:las-head', b'~V\n VERS. 2.0 : x\n WRAP. NO : x\n~A\n' + b' 1.0 2.0 3.0\n' * (n // 13)
    if k == 6:
        return 'big:tif-chain', b''.join((0).to_bytes(4, 'little') + (max(0, 12 * i - 12)).to_bytes(4, 'little') + (12 * i + 12).to_bytes(4, 'little') for i in range(n // 12))
    return 'big:random-ascii', bytes(rng.choice(b' \t\n0123456789.-+eE:~#abcXYZ') for _ in range(200_000))


def gates(rec, data, label, expect, code, w):
    from TotalDepth.BIT import ReadBIT
    from TotalDepth.DAT import DAT_parser
    f = io.BytesIO(data)
    rec.mon('format_gates_no_raise')
    try:
        isbit = ReadBIT.is_bit_file(f)
    except Exception as e:  # noqa
        rec.violation('format_gates_no_raise', 'is_bit_file:' + type(e).__name__, 'ReadBIT.is_bit_file raised %s on a %d-byte %s input: %s' % (type(e).__name__, len(data), label, str(e)[:150]), w, exc=e)
        isbit = None
    if expect == 'BIT':
        rec.mon('bit_gate_accepts_valid_bit')
        if isbit is not True:
            rec.violation('bit_gate_accepts_valid_bit', 'refused', 'ReadBIT.is_bit_file is %r for a valid BIT file (binary_file_type says %r): the BIT directory tool would silently ignore it' % (isbit, code), dict(w, got=repr(isbit)))
    try:
        text = data.decode('ascii')
    except UnicodeDecodeError:
        return
    try:
        ok = cpu_limited(lambda: DAT_parser.can_parse_file(io.StringIO(text)), len(data))
    except CpuBudgetExceeded:
        CPU['overruns'] += 1
        if CPU['overruns'] <= 3:
            rec.violation('step_budget', 'cpu-time', 'DAT_parser.can_parse_file on a %d-byte %s input was still running after %.0f s of the process\'s own CPU time' % (
                len(data), label, CPU['budget_s'] + 60.0 * len(data) / 1e6), w)
        return
    except Exception as e:  # noqa
        rec.violation('format_gates_no_raise', 'can_parse_file:' + type(e).__name__, 'DAT_parser.can_parse_file raised %s on a %d-byte %s input: %s' % (type(e).__name__, len(data), label, str(e)[:150]), w, exc=e)
        return
    if expect == 'DAT':
        rec.mon('dat_gate_accepts_valid_dat')
        if ok is not True:
            rec.violation('dat_gate_accepts_valid_dat', 'refused', 'DAT_parser.can_parse_file is %r for a valid DAT file' % ok, dict(w, got=repr(ok)))


def all_providers():
    """The shared providers plus, for this property only, LIS with byte-reversed TIF markers (documented code LIStr)."""
    from tdv.gen import providers
    provs = dict(providers.available())
    try:
        from tdv.gen import lis_provider
        provs['lis_tif_reversed'] = lambda rng: lis_provider._make(rng, 'be')
    except ImportError:
        pass
    return provs


def run_atheris(ctx, p):
    """Coverage-guided leg: libFuzzer (through atheris) mutates a corpus of valid files and signatures against the real
    identification in a child process; every artifact it leaves is re-identified here through the full oracle."""
    import re
    import subprocess
    import sys
    from TotalDepth.util import bin_file_type as bft
    from tdv.mon.hits import StepCounter
    from tdv.gen import providers, corrupt
    rec, rng = ctx.rec, ctx.rng
    tmp = os.environ['VERIF_SHARD_TMP']
    corpus = os.path.join(tmp, 'corpus')
    os.makedirs(corpus, exist_ok=True)
    provs = all_providers()
    n = 0
    for fmt in sorted(provs):
        for _ in range(8):
            v = provs[fmt](rng)
            if len(v.data) <= 8192:
                with open(os.path.join(corpus, 'v%04d' % n), 'wb') as f:
                    f.write(v.data)
                n += 1
    for m in corrupt.MAGICS:
        with open(os.path.join(corpus, 'm%04d' % n), 'wb') as f:
            f.write(m)
        n += 1
    for _ in range(40):
        with open(os.path.join(corpus, 'n%04d' % n), 'wb') as f:
            f.write(corrupt.near_miss(rng))
        n += 1
    rec.add('atheris_seed_corpus_files', n)
    env = dict(os.environ)
    env['PYTHONPATH'] = os.pathsep.join([os.path.dirname(os.path.dirname(os.path.dirname(os.path.abspath(__file__)))), env.get('PYTHONPATH', '')])
    steps = StepCounter()
    remaining, executed, attempt = p['runs'], 0, 0
    prefix = os.path.join(tmp, 'art-')
    while remaining > 0 and attempt < 4:
        attempt += 1
        cmd = [sys.executable, '-m', 'tdv.props.c20_fuzz', corpus, prefix, '-runs=%d' % remaining, '-seed=%d' % (1 + ctx.seed * 16 + attempt),
               '-max_len=8192', '-timeout=25', '-rss_limit_mb=3000', '-print_final_stats=1']
        try:
            r = subprocess.run(cmd, env=env, stdout=subprocess.PIPE, stderr=subprocess.STDOUT, timeout=TIMEOUT_S[ctx.tier] - 240)
            out, rc = r.stdout.decode('utf-8', 'replace'), r.returncode
        except subprocess.TimeoutExpired as e:
            out, rc = (e.stdout or b'').decode('utf-8', 'replace'), None
        m = re.search(r'stat::number_of_executed_units:\s*(\d+)', out)
        done = int(m.group(1)) if m else 0
        if not m:
            # libFuzzer prints '#<n>' progress lines; the last one is the number of executions before it stopped
            nums = re.findall(r'^#(\d+)\s', out, re.M)
            done = int(nums[-1]) if nums else 0
        executed += done
        remaining -= max(done, 1)
        cov = re.findall(r'cov: (\d+) ft: (\d+) corp: (\d+)', out)
        if cov:
            rec.maxi('atheris_coverage_edges', int(cov[-1][0]))
            rec.maxi('atheris_features', int(cov[-1][1]))
            rec.maxi('atheris_corpus_units', int(cov[-1][2]))
        arts = sorted(f for f in os.listdir(tmp) if f.startswith('art-'))
        if rc == 0:
            break
        if rc is None:
            # a slow machine, not a finding: the executions made are counted, too few of them make the run inconclusive below
            rec.note('atheris_child_stopped_by_wall_clock_after_executions', executed)
            break
        if not arts:
            rec.inconclusive_because('atheris child exited rc=%s without an artifact: %s' % (rc, out[-400:]))
            break
        for a in arts:
            with open(os.path.join(tmp, a), 'rb') as f:
                data = f.read()
            os.unlink(os.path.join(tmp, a))
            before = sum(rec.violation_kinds.values())
            identify(rec, bft, steps, data, 'atheris:' + a.split('-')[1])
            rec.case(data, True, classes=['atheris:artifact'])
            rec.add('atheris_artifacts')
            if sum(rec.violation_kinds.values()) == before:
                # the cheap oracle in the child tripped (or libFuzzer's own timeout / memory limit) but the full oracle here
                # does not confirm it: say so rather than guess
                rec.add('atheris_artifacts_not_confirmed')
                rec.note('atheris_unconfirmed_artifact', {'kind': a.split('-')[1], 'len': len(data), 'input': data[:400], 'child_output_tail': out[-600:]})
                if a.startswith('art-crash'):
                    rec.inconclusive_because('atheris artifact %s (%d bytes) stopped the fuzz target but is not confirmed by the in-process oracle' % (a, len(data)))
    steps.close()
    rec.mon('coverage_guided_no_crash', executed)
    new_units = max(0, rec.extra.get('atheris_corpus_units', 0) - n)
    rec.bulk_cases('atheris coverage-guided inputs (distinct = inputs that reached new coverage)', executed, new_units)
    rec.add('atheris_executions', executed)
    if executed < p['runs'] // 2:
        rec.inconclusive_because('atheris leg executed %d of %d inputs' % (executed, p['runs']))


def run_shard(ctx, p):
    if p.get('leg') == 'atheris':
        return run_atheris(ctx, p)
    from TotalDepth.util import bin_file_type as bft
    from tdv.mon.hits import StepCounter
    from tdv.gen import providers, corrupt
    rec, rng = ctx.rec, ctx.rng
    steps = StepCounter()
    provs = all_providers()
    tmp = os.environ.get('VERIF_SHARD_TMP') or '.'
    later = []       # (data, code, label): identified again at the end of the shard, after everything else
    rec.note('providers', sorted(provs))
    missing = [f for f in providers.FORMATS if f not in provs]
    if missing:
        rec.inconclusive_because('no generator for formats %s' % missing)
    pool = {f: [] for f in provs}
    # ---- (a) valid files
    for i in range(p['valid']):
        fmt = sorted(provs)[i % len(provs)]
        v = provs[fmt](rng)
        code = identify(rec, bft, steps, v.data, fmt, expect=v.expect, witness={'generator': v.describe})
        rec.case(v.data, v.nontrivial, classes=['valid:' + fmt] + ['valid:%s:%s' % (fmt, c) for c in v.classes],
                 sample={'format': fmt, 'len': len(v.data), 'layout': v.describe, 'code': code})
        if len(pool[fmt]) < 12:
            pool[fmt].append(v)
        if code is not None and i % 7 == 3:
            same_answer(rec, bft, v.data, code, 'from-path', fmt, path=os.path.join(tmp, 'valid_%d.bin' % i))
        if code is not None and i % 7 == 5:
            same_answer(rec, bft, v.data, code, 'handed-over-at-offset', fmt, start=rng.choice([1, 12, 80, len(v.data) // 2, len(v.data)]))
        if code is not None and i % 10 == 1 and len(later) < 60:
            later.append((v.data, code, fmt))
        # metamorphic partner: same generator parameters, other data content and ~10x size
        if v.regen is not None and i % 3 == 0:
            v2 = v.regen(rng)
            code2 = identify(rec, bft, steps, v2.data, fmt, expect=v2.expect, witness={'generator': v2.describe})
            rec.mon('metamorphic_same_code')
            rec.case(v2.data, True, classes=['valid-regen:' + fmt])
            if code is not None and code2 is not None and code != code2:
                rec.violation('metamorphic_same_code', 'content-dependent', '%s: code %r became %r when only data content/size changed (%d -> %d bytes)' % (fmt, code, code2, len(v.data), len(v2.data)),
                              {'format': fmt, 'first': v.data, 'second': v2.data, 'codes': [code, code2]})
    # ---- (b) hostile inputs
    fmts = sorted(pool)
    for i in range(p['hostile']):
        r = rng.random()
        if r < 0.12:
            data, label, nt = corrupt.random_bytes(rng), 'random', False
        elif r < 0.30:
            data, label, nt = corrupt.near_miss(rng), 'near-miss-signature', True
        else:
            fmt = rng.choice(fmts)
            v = rng.choice(pool[fmt])
            other = rng.choice(pool[rng.choice(fmts)]).data
            op, data = corrupt.mutate(rng, v.data, other=other, boundaries=v.boundaries)
            if v.corruptor is not None and rng.random() < 0.35:
                op, data = v.corruptor(rng)
            label, nt = 'mutated:%s:%s' % (fmt, op), True
        code = identify(rec, bft, steps, data, label)
        rec.case(data, nt, classes=[label])
        if code is not None and i % 60 == 7:
            same_answer(rec, bft, data, code, 'from-path', label, path=os.path.join(tmp, 'hostile_%d.bin' % i))
        if code is not None and i % 12 == 5:
            same_answer(rec, bft, data, code, 'handed-over-at-offset', label, start=rng.choice([1, 2, 12, 80, max(0, len(data) - 1), len(data), len(data) + 5]))
        if code is not None and i % 40 == 11 and len(later) < 200:
            later.append((data, code, label))
    # ---- (b') large inputs: promptness is decided on the same logical clock
    for i in range(p.get('big', 3)):
        label, data = big_input(rng)
        identify(rec, bft, steps, data, label)
        rec.case(data[:64] + b'%d' % len(data), True, classes=[label.split(':')[0], label])
    # ---- the same bytes again, after everything else this process has identified in between
    for data, code, label in later:
        same_answer(rec, bft, data, code, 'later-in-the-process', label)
    steps.close()


LEVEL_TEXT = ('Every input - valid files of each supported format from independent generators in random layouts and sizes, and hostile '
              'inputs (random bytes, near-miss signatures, truncations, bit flips, splices, word / hostile-number / line edits, generator-level '
              'single-line DAT corruptions) - is identified by the real binary_file_type through a tapped in-memory file under a LINE-event '
              'step counter: expected code, code set, no exception, rewound and unchanged, logical-step budget; the BIT and DAT gates used by '
              'the directory tools are held to the same standard.  A second clock (the process\'s own CPU time) covers loops inside C extensions, '
              'and a coverage-guided leg (atheris / libFuzzer) mutates a corpus of valid files and signatures against the same entry points.')
LEVEL_NOTE = ('Trusted: the generators for what a valid file is; the step budget constants (calibrated ~10x above the maximum observed). '
              'Arbitrary byte strings are sampled, not enumerated; the thorough tier adds volume, not a different oracle.')
TECHNIQUE = 'runtime monitoring: oracle over identification executions with I/O tap (rewind), sys.monitoring step budget, metamorphic size/content pairs, hostile-input generators and coverage-guided fuzzing (atheris/libFuzzer)'
