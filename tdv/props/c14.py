"""C14 DAT mud-log files parse to their declared channels and values."""
import datetime
import os
import re
import time

from tdv.core.findings import classifier

ID = 'C14'
TITLE = 'DAT mud-log files parse to their declared channels and values'
NATIVE = None
NEEDS = ()
RULE = ('Texts from the line model tdv.gen.dat: 4..30 (every seventh text 60..160) declarations (UTIM, DATE, TIME and random [A-Z0-9] names of 1..8 '
        'characters, digits anywhere, names extending the time names; multi-word descriptions, one-word units incl. sec/ddmmyy/hhmmss and their '
        'upper-case spellings on ordinary names) in random order, separated by single blanks, tabs or runs of both, trailing blanks/tabs, LF or CRLF; '
        'header UTIM DATE TIME + a non-empty subset of the other channels in any order; 0..50 rows (one text per shard 1500..2600); UTIM in 1970..2038, both date spellings (09Dec06, 09-Dec-06, padded '
        'or not), hh-mm-ss times, numbers as integers, decimals, exponent forms, signed, ".5", "5.".  Every text is parsed, then every kind of '
        'single-line corruption (37 kinds: header deleted / lower-cased, column dropped/added, blank or duplicated or deleted row, undeclared / duplicate / dropped / extra / '
        'swapped header name, duplicated header, garbage / blank / removed / re-united declaration, non-numeric token, malformed / out of range / '
        'huge date, time, UTIM) is applied to it and parsed.  One case = one text (distinct by its characters); non-trivial = >= 1 data row and a '
        'header naming a proper subset of the declared channels in an order different from the declarations.')
ASSUMPTIONS = [
    'expected values: Fraction -> correctly rounded double for numbers, 1970-01-01 + timedelta(seconds) for UTIM, datetime.date / datetime.time for DATE / TIME',
    'two digit years are generated in 70..99 (19xx) and 00..38 (20xx) only, so the pivot of the parser is not asserted',
    'descriptions are compared word by word (runs of blanks/tabs inside a description are not significant); units exactly',
    'a column is a time column only when declared as (UTIM, sec), (DATE, ddmmyy), (TIME, hhmmss) - the (name, units) rule of the property anchors; '
    'any other (name, units) is numeric',
    'a blank line may either be rejected with a DAT error or skipped ("either" corruptions); tokens that Python float()/int() accept beyond the '
    'generated grammar (nan, inf, 1_0, -5 as UTIM) are not generated',
    'can_parse_file looks at the declarations, the header and the first data row only: for a corruption further down only "returns a bool, does not raise" is asserted',
    'a DAT error is any subclass of TotalDepth.DAT.DAT_parser.ExceptionDAT',
]
MECHANISMS = [
    ('TotalDepth.DAT.DAT_parser', '_parse_file'), ('TotalDepth.DAT.DAT_parser', 'parse_file'), ('TotalDepth.DAT.DAT_parser', 'can_parse_file'),
    ('TotalDepth.DAT.DAT_parser', '_unit_unix_time_to_datetime_datetime'), ('TotalDepth.DAT.DAT_parser', '_unit_ddmmyy_to_datetime_date'),
    ('TotalDepth.DAT.DAT_parser', '_unit_hhmmyy_to_datetime_time'), ('TotalDepth.DAT.DAT_parser', '_ret_conversion_function'),
    ('TotalDepth.DAT.DAT_parser', '_numpy_dtype'), ('TotalDepth.common.LogPass', 'FrameArray.append'),
]
REQUIRED_MONITORS = ['parse_well_formed', 'corruption_rejected', 'corruption_parsed_to_model', 'can_parse_file', 'import_as_user', 'example_file',
                     'same_file_object', 'earlier_result_unchanged', 'very_long_log']
TEXTS_PER_SHARD = {'quick': 70, 'thorough': 3000}
MIN_NONTRIVIAL = {'quick': 5000, 'thorough': 200000}
TIMEOUT_S = {'quick': 300, 'thorough': 3000}
NSHARDS = 16
MAX_UNKNOWN_PER_KIND = 20


def plan(tier, seed):
    return [{'texts': TEXTS_PER_SHARD[tier], 'part': i, 'parts': NSHARDS} for i in range(NSHARDS)]


# ------------------------------------------------------------------------------------------------ known findings
def _escape_common(v, column_kind, function):
    if v.get('monitor') not in ('corruption_rejected', 'can_parse_file') or v.get('kind') not in ('non-dat-exception', 'raised'):
        return None
    w = v['witness']
    if w.get('column_kind') != column_kind or w.get('exc_function') != function or w.get('expect') != 'raise':
        return None
    tok = w.get('token')
    return tok if isinstance(tok, str) else None


@classifier('c14_utim_outside_time_t_range')
def _c14_f14(v):
    """The corrupted token is an integer UTIM for which the stdlib conversion itself - time.gmtime(int) then datetime.datetime(*tm[:6]) -
    raises OverflowError/OSError on this platform (time_t or tm_year / C int range), and that is the exception type that escaped from the
    UTIM conversion function."""
    tok = _escape_common(v, 'utim', '_unit_unix_time_to_datetime_datetime')
    if tok is None or not re.match(r'^-?\d{1,60}$', tok):
        return False
    try:
        datetime.datetime(*(time.gmtime(int(tok))[:6]))
    except (OverflowError, OSError) as e:
        return type(e).__name__ == v['witness'].get('exc_type')
    except Exception:
        return False
    return False


@classifier('c14_date_field_overflows_c_int')
def _c14_date(v):
    """The corrupted token is digits+month+digits with a day or year so large that datetime.date raises OverflowError (not ValueError),
    and that OverflowError escaped from the date conversion function."""
    tok = _escape_common(v, 'date', '_unit_ddmmyy_to_datetime_date')
    if tok is None or v['witness'].get('exc_type') != 'OverflowError':
        return False
    m = re.match(r'^(\d{1,60})(-?)(Jan|Feb|Mar|Apr|May|Jun|Jul|Aug|Sep|Oct|Nov|Dec)(-?)(\d{1,60})$', tok)
    if not m or m.group(2) != m.group(4):
        return False
    day, yr = int(m.group(1)), int(m.group(5))
    try:
        datetime.date(yr + (1900 if yr > 50 else 2000), 1, day)
    except OverflowError:
        return True
    except Exception:
        return False
    return False


# ------------------------------------------------------------------------------------------------ helpers
class _State:
    def __init__(self, rec):
        self.rec = rec
        self.unknown = {}

    def violation(self, monitor, kind, msg, witness, exc=None):
        key = (monitor, kind)
        if self.unknown.get(key, 0) >= MAX_UNKNOWN_PER_KIND:
            self.rec.add('violations_not_recorded_after_cap')
            return
        fid = self.rec.violation(monitor, kind, msg, witness, exc=exc)
        if not fid:
            self.unknown[key] = self.unknown.get(key, 0) + 1


EXPECTED_TYPE = {'utim': datetime.datetime, 'date': datetime.date, 'time': datetime.time}


def compare(np, fa, cols):
    """First difference between a parsed frame array and the expected columns: (kind, message, detail) or None."""
    got_names = [c.ident for c in fa.channels]
    exp_names = [c.name for c in cols]
    if got_names != exp_names:
        return 'channels', 'channels %r, header names %r' % (got_names, exp_names), {'got': got_names, 'expected': exp_names}
    for j, (ch, e) in enumerate(zip(fa.channels, cols)):
        if not isinstance(ch.long_name, str) or ch.long_name.split() != e.desc_words:
            return 'description', 'channel %s: description %r, declared %r' % (e.name, ch.long_name, ' '.join(e.desc_words)), {'channel': e.name, 'got': repr(ch.long_name), 'expected': e.desc_words}
        if ch.units != e.units:
            return 'units', 'channel %s: units %r, declared %r' % (e.name, ch.units, e.units), {'channel': e.name, 'got': repr(ch.units), 'expected': e.units}
        if tuple(ch.array.shape) != (len(e.values), 1):
            return 'frame-count', 'channel %s: array shape %r for %d data lines' % (e.name, tuple(ch.array.shape), len(e.values)), {'channel': e.name, 'shape': list(ch.array.shape), 'rows': len(e.values)}
        if e.kind == 'float':
            if ch.array.dtype != np.float64:
                return 'value-type', 'numeric channel %s has dtype %s, not float64' % (e.name, ch.array.dtype), {'channel': e.name, 'dtype': str(ch.array.dtype)}
            got = ch.array[:, 0].tolist()
            for i, (g, x) in enumerate(zip(got, e.values)):
                if g != x:
                    return 'value', 'channel %s (column %d) row %d: %r, the text says %r' % (e.name, j, i, g, x), {'channel': e.name, 'column': j, 'row': i, 'got': repr(g), 'expected': repr(x)}
        else:
            t = EXPECTED_TYPE[e.kind]
            for i, x in enumerate(e.values):
                g = ch.array[i, 0]
                if type(g) is not t:
                    return 'value-type', 'channel %s row %d: %s is a %s, expected %s' % (e.name, i, g, type(g).__name__, t.__name__), {'channel': e.name, 'row': i, 'got': repr(g), 'expected': repr(x)}
                if g != x:
                    return 'value', 'channel %s (column %d) row %d: %r, the text says %r' % (e.name, j, i, g, x), {'channel': e.name, 'column': j, 'row': i, 'got': repr(g), 'expected': repr(x)}
    return None


IMPORT_SNIPPET = r'''
import io, json, os, sys
import TotalDepth
from TotalDepth.DAT import DAT_parser
src = sys.argv[1]
assert os.path.realpath(DAT_parser.__file__).startswith(os.path.realpath(src)), DAT_parser.__file__
with open(sys.argv[2]) as f:
    fa = DAT_parser.parse_file(f)
with open(sys.argv[2]) as f:
    ok = DAT_parser.can_parse_file(f)
print(json.dumps({'channels': len(fa), 'frames': len(fa.x_axis), 'can_parse': ok, 'file': DAT_parser.__file__}))
'''


def import_as_user(st, repo, example):
    """Import TotalDepth.DAT.DAT_parser in a fresh interpreter with nothing but the source tree on the path (no shim, no preloaded module)."""
    import json
    import subprocess
    from tdv.core import env
    src = os.path.join(repo, 'src')
    e = {'PATH': os.environ.get('PATH', '/usr/bin:/bin'), 'PYTHONPATH': src, 'PYTHONDONTWRITEBYTECODE': '1', 'HOME': os.environ.get('HOME', '/tmp')}
    p = subprocess.run([env.PY, '-c', IMPORT_SNIPPET, src, example], env=e, stdout=subprocess.PIPE, stderr=subprocess.PIPE, timeout=240, cwd='/')
    st.rec.mon('import_as_user')
    if p.returncode != 0:
        tail = p.stderr.decode('utf-8', 'replace')[-1500:]
        last = tail.strip().splitlines()[-1] if tail.strip() else ''
        st.violation('import_as_user', 'import-failed', 'a fresh interpreter cannot import / use TotalDepth.DAT.DAT_parser: %s' % last,
                     {'returncode': p.returncode, 'stderr_tail': tail, 'last_line': last})
        return None
    return json.loads(p.stdout.decode().strip().splitlines()[-1])


def run_shard(ctx, prm):
    import io
    import logging
    import traceback
    import numpy as np
    from TotalDepth.DAT import DAT_parser as D
    from tdv.core import env
    from tdv.gen import dat as G
    logging.disable(logging.CRITICAL)
    rec, rng = ctx.rec, ctx.rng
    st = _State(rec)
    part = prm['part']
    tmpdir = os.environ.get('VERIF_SHARD_TMP')
    # UTIM is seconds since the epoch in UTC: run in a zone that is not UTC so that a local-time conversion cannot pass unnoticed
    os.environ['TZ'] = 'TDV-05:30' if part % 2 else 'TDV+08'
    time.tzset()
    rec.note('tz_offsets_used', sorted({'TDV-05:30', 'TDV+08'}))

    def run(fn, text, path=None):
        """-> ('ok', result) | ('dat', exc) | ('other', exc)"""
        try:
            if path is not None:
                with open(path) as f:
                    return 'ok', fn(f)
            return 'ok', fn(io.StringIO(text))
        except D.ExceptionDAT as e:
            return 'dat', e
        except Exception as e:  # noqa
            return 'other', e

    def where_raised(e):
        tb = traceback.extract_tb(e.__traceback__)
        return tb[-1].name if tb else ''

    def check_can_parse(text, expected, wit, label):
        """expected: True / False / None (only 'a bool, no exception')."""
        how, r = run(D.can_parse_file, text)
        rec.mon('can_parse_file')
        if how != 'ok':
            st.violation('can_parse_file', 'raised', 'can_parse_file raised %s: %s (%s)' % (type(r).__name__, r, label),
                         dict(wit, exc_type=type(r).__name__, exc_function=where_raised(r), exc_message=str(r)[:200]), exc=r)
        elif not isinstance(r, bool):
            st.violation('can_parse_file', 'not-bool', 'can_parse_file returned %r (%s)' % (r, label), dict(wit, got=repr(r)))
        elif expected is not None and r != expected:
            st.violation('can_parse_file', 'wrong-answer', 'can_parse_file returned %r, expected %r (%s)' % (r, expected, label), dict(wit, got=r, expected=expected))

    # ---- import as a user + the example file (shard 0)
    example = os.path.join(env.REPO, 'example_data', 'DAT', 'data', 'example.dat')
    if part == 0:
        info = import_as_user(st, env.REPO, example)
        with open(example) as f:
            text = f.read()
        cols = G.DatModel([G.Line('raw', [t]) for t in text.splitlines()]).columns()
        rec.mon('example_file')
        rec.case(text, True, classes=['example-file'], sample={'example_file': 'example.dat', 'channels': len(cols), 'rows': len(cols[0].values)})
        how, fa = run(D.parse_file, text, path=example)
        if how != 'ok':
            st.violation('parse_well_formed', 'parse-raised', 'the example file raised %s: %s' % (type(fa).__name__, fa), {'file': 'example.dat'}, exc=fa)
        else:
            d = compare(np, fa, cols)
            if d:
                st.violation('parse_well_formed', d[0], 'example.dat: ' + d[1], dict(d[2], file='example.dat'))
            if info is not None and (info['channels'] != len(cols) or info['frames'] != len(cols[0].values) or info['can_parse'] is not True):
                st.violation('import_as_user', 'example-summary', 'fresh interpreter read example.dat as %r' % info, {'got': info, 'channels': len(cols), 'rows': len(cols[0].values)})
        rec.note('import_as_user', info)
    else:
        rec.mon('import_as_user', 0)
        rec.mon('example_file', 0)

    # ---- one very long log (shard 1; thorough: shards 1, 5, 9, 13): more text than any read buffer (> 10 MiB), one frame per data line
    if part % 4 == 1 and (ctx.tier != 'quick' or part == 1):
        import datetime
        nrows = rng.randrange(245000, 262000)
        t0 = rng.randrange(10 ** 9, 15 * 10 ** 8)
        names = ['DMEA', 'ROP', 'WOB'][:rng.randrange(1, 4)]
        sep = rng.choice([' ', '\t', '  '])
        head = ['UTIM  Unix time  sec', 'DATE  Date  ddmmyy', 'TIME  Time  hhmmss'] + ['%s  Channel %s  m' % (nm, nm) for nm in names]
        head.append(sep.join(['UTIM', 'DATE', 'TIME'] + names))
        epoch = datetime.datetime(1970, 1, 1)
        rows, want = [], {}
        picks = set(rng.sample(range(nrows), 300)) | {0, nrows - 1, nrows - 2}
        for i in range(nrows):
            dt = epoch + datetime.timedelta(seconds=t0 + i)
            vals = ['%.3f' % (1000.0 + 0.01 * i + 7.0 * k) for k in range(len(names))]
            rows.append(sep.join([str(t0 + i), dt.strftime('%d') + G.MONTHS[dt.month - 1] + dt.strftime('%y'), dt.strftime('%H-%M-%S')] + vals))
            if i in picks:
                want[i] = (dt, [float(v) for v in vals])
        text = '\n'.join(head + rows) + '\n'
        rec.mon('very_long_log')
        rec.add('very_long_log_characters', len(text))
        rec.case(('very-long', nrows, t0, len(names), sep), len(text) > 10 * 2 ** 20, classes=['very-long-log:%d-MiB' % (len(text) >> 20)])
        how, fa = run(D.parse_file, text)
        wit = {'rows': nrows, 'characters': len(text), 'head': '\n'.join(head), 'first_row': rows[0], 'last_row': rows[-1]}
        if how != 'ok':
            st.violation('parse_well_formed', 'parse-raised', 'a well-formed text of %d data lines (%d characters) raised %s: %s' % (nrows, len(text), type(fa).__name__, fa), wit, exc=fa)
        else:
            for ch in fa.channels:
                if len(ch.array) != nrows:
                    st.violation('parse_well_formed', 'frame-count', 'channel %s has %d frames for %d data lines (%d characters of text)' % (ch.ident, len(ch.array), nrows, len(text)),
                                 dict(wit, channel=str(ch.ident), got=len(ch.array)))
                    break
            else:
                by = {str(c.ident): c for c in fa.channels}
                bad = None
                for i, (dt, vals) in sorted(want.items()):
                    if by['UTIM'].array[i][0] != dt:
                        bad = ('UTIM', i, by['UTIM'].array[i][0], dt)
                    for nm, v in zip(names, vals):
                        g = by[nm].array[i][0]
                        if type(g) not in (float, np.float64) or float(g) != v:
                            bad = (nm, i, g, v)
                    if bad:
                        st.violation('parse_well_formed', 'value', 'very long log: channel %s row %d: %r, the text says %r' % bad, dict(wit, channel=bad[0], row=bad[1], got=repr(bad[2])))
                        break
        del rows, text
    else:
        rec.mon('very_long_log', 0)

    # ---- generated texts and their corruptions
    prev = None          # (frame array, expected columns, witness) of the previous well-formed parse
    nlong = 1 if ctx.tier == 'quick' else 6
    for n in range(prm['texts']):
        long_file = n < nlong
        if long_file:
            # a long log: thousands of data rows, few channels (kept cheap); only a handful of corruptions are applied to it
            text, model = G.generate(rng, wide=True, n_decl=(4, 9), n_rows=(1500, 2600))
        elif n % 7 == 3:
            # many declarations (the example file of the repository declares 59 channels, real files more)
            text, model = G.generate(rng, wide=True, n_decl=(60, 160), n_rows=(0, 12))
        else:
            text, model = G.generate(rng, wide=True)
        cols = model.columns()
        nrows = len(model.rows)
        nt = model.nontrivial()
        classes = ['rows=%s' % (nrows if nrows < 3 else '3+'), 'well-formed']
        if any(c.units in ('sec', 'ddmmyy', 'hhmmss') and c.kind == 'float' for c in cols):
            classes.append('time-units-on-ordinary-channel')
        if '\t' in text:
            classes.append('tabs')
        if '\r\n' in text:
            classes.append('crlf')
        if long_file:
            classes.append('rows>=1500')
        if len(model.declared) >= 60:
            classes.append('declarations>=60')
        if any(not (2 <= len(c.name) <= 5) or c.name[0].isdigit() for c in cols):
            classes.append('name-length-1-or-6+-or-digit-first')
        if any('-' in r[1] for r in model.rows):
            classes.append('date-dd-Mon-yy')
        if any('-' not in r[1] for r in model.rows):
            classes.append('date-ddMonyy')
        sample = None
        if n == 0:
            sample = {'declared': len(model.declared), 'header': model.header[:8], 'rows': nrows, 'first_row': model.rows[0][:6] if nrows else None,
                      'first_lines': text.splitlines()[:3]}
        rec.case(text, nt, classes=classes, sample=sample)
        rec.add('data_rows', nrows)
        rec.add('values', nrows * len(cols))
        path = None
        if tmpdir and n % 16 == 0:
            path = os.path.join(tmpdir, 't%d.dat' % n)
            with open(path, 'w') as f:
                f.write(text)
            rec.cls('read-from-disk')
        wit = {'text': text[:3000], 'text_length': len(text), 'header': model.header, 'rows': nrows}
        how, fa = run(D.parse_file, text, path)
        if path:
            os.unlink(path)
        rec.mon('parse_well_formed')
        clean = False
        if how != 'ok':
            st.violation('parse_well_formed', 'parse-raised', 'parse_file raised %s: %s on a well-formed text' % (type(fa).__name__, fa),
                         dict(wit, exc_type=type(fa).__name__), exc=fa)
        else:
            d = compare(np, fa, cols)
            if d:
                st.violation('parse_well_formed', d[0], d[1], dict(wit, **d[2]))
            clean = d is None
        check_can_parse(text, nrows >= 1, wit, 'well-formed text with %d rows' % nrows)
        # ---- history: discovery then parse on one and the same file object (can_parse_file leaves it positioned after the first row)
        rec.mon('same_file_object')
        fobj = io.StringIO(text)
        try:
            can = D.can_parse_file(fobj)
            fa2 = D.parse_file(fobj)
        except Exception as e:  # noqa
            st.violation('same_file_object', 'raised', 'can_parse_file then parse_file on one file object raised %s: %s' % (type(e).__name__, e),
                         dict(wit, exc_type=type(e).__name__), exc=e)
        else:
            d = compare(np, fa2, cols)
            if can is not (nrows >= 1):
                st.violation('same_file_object', 'can-parse', 'can_parse_file returned %r for a well-formed text with %d rows' % (can, nrows), dict(wit, got=repr(can)))
            elif d:
                st.violation('same_file_object', d[0], 'parse_file after can_parse_file on the same file object: ' + d[1], dict(wit, **d[2]))
        # ---- history: the result of the previous parse still holds what its file said (nothing shared with later parses)
        if prev is not None:
            rec.mon('earlier_result_unchanged')
            d = compare(np, prev[0], prev[1])
            if d:
                st.violation('earlier_result_unchanged', d[0], 'the frame array parsed from the previous file changed after parsing this one: ' + d[1],
                             dict(prev[2], later_text=text[:1500], **d[2]))
        prev = (fa, cols, wit) if clean else None      # only a result that was right when it was made can be said to have changed

        kinds = G.CORRUPTIONS if not long_file else rng.sample(G.CORRUPTIONS, 6)
        for kind in kinds:
            c = G.corrupt(rng, model, kind)
            if c is None:
                rec.add('corruption_not_applicable')
                continue
            rec.case(c.text, nt, classes=['corruption:' + c.kind, 'expect-' + c.expect])
            cw = {'text': c.text[:3000], 'text_length': len(c.text), 'corruption': c.kind, 'expect': c.expect, 'where': c.where, 'row': c.row,
                  'strict_model': c.strict}
            cw.update({k: v for k, v in c.detail.items() if k in ('token', 'was', 'column', 'column_kind', 'column_index', 'name', 'units', 'how', 'index')})
            how, r = run(D.parse_file, c.text)
            outcome = {'ok': 'parsed', 'dat': 'dat-error', 'other': 'other-exception'}[how]
            rec.add('outcome %s: %s' % (c.kind, outcome))
            if how == 'other':
                rec.mon('corruption_rejected' if c.expect != 'model' else 'corruption_parsed_to_model')
                st.violation('corruption_rejected', 'non-dat-exception',
                             '%s corruption (%s): parse_file raised %s: %s, which is not a DAT error' % (c.kind, cw.get('token', c.where), type(r).__name__, str(r)[:120]),
                             dict(cw, exc_type=type(r).__name__, exc_function=where_raised(r), exc_message=str(r)[:200]), exc=r)
            elif c.expect == 'raise':
                rec.mon('corruption_rejected')
                if how == 'ok':
                    st.violation('corruption_rejected', 'accepted-corrupt-file', '%s corruption (%s) was read as data instead of raising a DAT error' % (
                        c.kind, cw.get('token', cw.get('name', c.where))), cw)
            elif c.expect == 'model':
                rec.mon('corruption_parsed_to_model')
                if how == 'dat':
                    st.violation('corruption_parsed_to_model', 'rejected-well-formed', '%s leaves the file well-formed but parse_file raised %s' % (c.kind, r), cw, exc=r)
                else:
                    d = compare(np, r, c.columns)
                    if d:
                        st.violation('corruption_parsed_to_model', d[0], '%s: %s' % (c.kind, d[1]), dict(cw, **d[2]))
            else:   # either
                rec.mon('corruption_rejected')
                if how == 'ok':
                    d = compare(np, r, c.columns)
                    if d:
                        st.violation('corruption_rejected', 'tolerated-but-misread', '%s: %s' % (c.kind, d[1]), dict(cw, **d[2]))
            # can_parse_file
            if c.expect == 'model':
                exp = len(c.columns[0].values) >= 1
            elif c.expect == 'raise' and (c.first_row_affected or c.where in ('decl', 'header')):
                exp = False
            else:
                exp = None
            check_can_parse(c.text, exp, cw, '%s corruption' % c.kind)


LEVEL_TEXT = ('Generated DAT texts and 31 kinds of single-line corruption are parsed by the real DAT_parser; channels, order, descriptions, units, frame '
              'count and every value / date / time are compared with an independent strict evaluation of the same lines; corrupted files must raise a '
              'DAT error or parse to the corrupted model; can_parse_file is checked on all of them; the module is imported in a fresh interpreter. '
              'Sampled, not exhaustive.')
LEVEL_NOTE = ('Trusted: the strict evaluator in tdv.gen.dat (Fraction / datetime arithmetic), the harness.  Known findings: out-of-range UTIM (F14) '
              'and huge DATE fields (F14b) escape as OverflowError/OSError; both are recognised by recomputing the stdlib call on the witness token.')
TECHNIQUE = 'runtime monitoring: model-based differential with field-aware single-line corruptions, exception-class oracle, fresh-interpreter import check, sys.monitoring mechanism counters'
