"""C04 DLIS frame arrays hold exactly the recorded values; sub-selection commutes."""
import io

ID = 'C04'
TITLE = 'DLIS frame arrays hold exactly the recorded values; sub-selection commutes'
NATIVE = None
NEEDS = ('icontract',)
RULE = ('Random RP66V1 log passes from an independent encoder (tdv.gen.logpass over tdv.gen.eflr and tdv.gen.dlis): 1..2 logical files, each '
        'with 1..3 frame types of 1..6 channels in the fixed-length numeric codes FSINGL, ISINGL, VSINGL (zero fraction), FDOUBL, SSHORT..ULONG, '
        'dimensions [1], [k], [j,k] (rarely [i,j,k]; first channel scalar), 1..60 frames per type, data records of the types interleaved, '
        'empty data records, encrypted records and further sets in between, frame numbers with offsets and gaps, random physical layout; '
        'every recorded element derives from a file-wide counter (unique in the wide codes).  On each indexed file a history of 1..8 '
        'populate_frame_array calls per logical file: frame array x selector {None, Slice(start,stop,step) with negative/None parts, Sample(n)} '
        '(>= 1 frame selected) x channels {None, random subset, subset without the first channel, names not present, empty set}.  '
        'A case is one file with its history (distinct by bytes + history); non-trivial = >= 2 calls of different shape on one '
        'index and a multi-dimensional channel.')
ASSUMPTIONS = [
    'elements of a multi-dimensional channel are compared in the order of recording against C order of the DIMENSION list, the documented '
    'meaning of FrameChannel.dimensions ([4, 1024] = 4 waveforms of 1024 samples); the RP66V1 5.5.1 element ordering rule is not asserted',
    'expected numpy types per representation code are a table in the harness (float32 for FSINGL/ISINGL/VSINGL, float64 for FDOUBL, '
    '(u)int8/16/32 for the integer codes); ISINGL/VSINGL values are generated inside the exactly representable float32 range',
    'VSINGL words have a zero fraction (non-zero fractions belong to C07, finding F4)',
    'selections of zero frames are outside the quantifier and not generated; frame types always have >= 1 non-empty data record',
    'for Sample(n) the selected rows are Sample.indices(len) (checked here against the sample definition of C15: min(n,len) indices from 0, '
    'strictly increasing, gaps differing by at most one) and every row must equal the model frame at that index',
    'CHANNEL/FRAME sets avoid the F3 mechanisms of C03 (no invariant attributes, no component-less objects, ABSATR only where the template has no default)',
    'the X value is compared when the first channel is scalar (8% of the frame types have an array first channel: values only); frame numbers are compared with the recorded numbers, which need not be 1..n',
]
_LF = 'TotalDepth.RP66V1.core.LogicalFile'
_LP = 'TotalDepth.RP66V1.core.LogPass'
MECHANISMS = [
    (_LF, 'LogicalFile.populate_frame_array'), (_LF, 'LogicalFile.add_iflr'), (_LF, 'LogicalFile.num_frames'),
    (_LP, 'RP66V1FrameArray.read_partial'), (_LP, 'RP66V1FrameArray.read'), (_LP, 'RP66V1FrameChannel.seek'), (_LP, 'RP66V1FrameChannel.read'),
    (_LP, 'RP66V1FrameArray.read_x_axis'),
    ('TotalDepth.common.LogPass', 'FrameChannel.init_array'), ('TotalDepth.common.LogPass', 'FrameArray.init_arrays_partial'),
    ('TotalDepth.common.Slice', 'Slice.gen_indices'), ('TotalDepth.common.Slice', 'Sample.gen_indices'),
    ('TotalDepth.RP66V1.core.LogicalRecord.IFLR', 'IndirectlyFormattedLogicalRecord.__init__'),
]
REQUIRED_MONITORS = ['populate_vs_model', 'partial_vs_full', 'index_vs_model', 'structure_vs_model', 'unselected_empty', 'sample_definition',
                     'contract:Slice.indices', 'contract:Slice.count', 'contract:FrameArray.init_arrays_partial',
                     'contract:RP66V1FrameChannel.seek', 'contract:RP66V1FrameChannel.read']
MIN_NONTRIVIAL = {'quick': 1200, 'thorough': 18000}
TIMEOUT_S = {'quick': 300, 'thorough': 3000}
NSHARDS = 16
FILES = {'quick': 200, 'thorough': 3000}
MAX_FRAMES = {'quick': 40, 'thorough': 60}
CAP = 25


def plan(tier, seed):
    return [{'files': FILES[tier], 'max_frames': MAX_FRAMES[tier]} for _ in range(NSHARDS)]


def sample_definition_ok(idxs, k, n):
    m = min(k, n)
    if len(idxs) != m:
        return 'selects %d indices, expected min(%d,%d)' % (len(idxs), k, n)
    if idxs and idxs[0] != 0:
        return 'does not begin with 0'
    if any(b <= a for a, b in zip(idxs, idxs[1:])):
        return 'not strictly increasing'
    if idxs and idxs[-1] >= n:
        return 'index outside the frames'
    gaps = [b - a for a, b in zip(idxs, idxs[1:])]
    if gaps and max(gaps) - min(gaps) > 1:
        return 'gaps differ by more than one'
    return None


def random_selector(rng, S, n):
    """-> (selector or None, description, expected indices)"""
    k = rng.random()
    if k < 0.2:
        return None, 'None', list(range(n))
    if k < 0.7:
        for _ in range(12):
            lim = n + 2
            a = rng.choice([None, rng.randrange(-lim, lim + 1), rng.randrange(-lim, lim + 1)])
            b = rng.choice([None, rng.randrange(-lim, lim + 1), rng.randrange(-lim, lim + 1)])
            c = rng.choice([None, 1, 2, 3, rng.randrange(1, max(2, n)), rng.randrange(1, max(2, n // 2 + 1)), -1, -2, -rng.randrange(1, max(2, n))])
            idxs = list(range(n))[a:b:c]
            if idxs:
                return S.Slice(a, b, c), 'Slice(%r,%r,%r)' % (a, b, c), idxs
        return S.Slice(None, None, None), 'Slice(None,None,None)', list(range(n))
    kk = rng.choice([1, 2, n, n + 1, rng.randrange(1, n + 4), rng.randrange(1, n + 4)])
    return S.Sample(kk), 'Sample(%d)' % kk, None


def random_channels(rng, idents):
    """-> (set or None, kind)"""
    k = rng.random()
    if k < 0.25:
        return None, 'all'
    if k < 0.5:
        return set(rng.sample(idents, rng.randrange(0, len(idents) + 1))), 'subset'
    if k < 0.7:
        rest = idents[1:]
        return set(rng.sample(rest, rng.randrange(0, len(rest) + 1))), 'subset-without-first'
    if k < 0.9:
        s = set(rng.sample(idents, rng.randrange(0, len(idents) + 1)))
        s |= {rng.choice(['NOPE', '', 'X' * 9, idents[0].lower() + '?', 'DEPT '])}
        return s, 'subset+unknown-names'
    return set(), 'empty-set'


class Run:
    def __init__(self, ctx):
        self.ctx, self.rec, self.rng = ctx, ctx.rec, ctx.rng
        self.nviol = 0

    def violation(self, monitor, kind, msg, witness, exc=None):
        self.nviol += 1
        if self.nviol <= 3 * CAP:
            self.rec.violation(monitor, kind, msg, witness, exc=exc)

    # ---- structure and index
    def check_structure(self, lf, mlf, fm, base):
        import numpy as np
        rec = self.rec
        rec.mon('structure_vs_model')
        if not lf.has_log_pass or lf.log_pass is None:
            self.violation('structure_vs_model', 'no-log-pass', 'logical file with CHANNEL, FRAME and frame data has no log pass', base)
            return False
        fas = lf.log_pass.frame_arrays
        if len(fas) != len(mlf.frame_types):
            self.violation('structure_vs_model', 'frame-arrays', '%d frame arrays, %d frame types encoded' % (len(fas), len(mlf.frame_types)), base)
            return False
        ok = True
        for fa, ft in zip(fas, mlf.frame_types):
            got_name = (int(fa.ident.O), int(fa.ident.C), bytes(fa.ident.I))
            desc = [(c.ident, tuple(c.dimensions), np.dtype(c.np_dtype).name, c.rep_code) for c in fa.channels]
            want = [(c.ident, c.dims, c.dtype, c.rc) for c in ft.channels]
            if got_name != ft.name or desc != want:
                ok = False
                self.violation('structure_vs_model', 'frame-array', 'frame array %r channels %r, encoded %r %r' % (got_name, desc, ft.name, want),
                               dict(base, observed=[list(got_name), desc], expected=[list(ft.name), want]))
                continue
            # ---- the index: one entry per non-empty data record, with its position, recorded frame number and X value
            rec.mon('index_vs_model')
            n = lf.num_frames(fa)
            refs = lf.iflr_position_map[fa.ident]
            if n != len(ft.frames) or len(refs) != len(ft.frames):
                ok = False
                self.violation('index_vs_model', 'num_frames', 'num_frames %d, index entries %d, non-empty data records encoded %d (plus %d empty)' % (
                    n, len(refs), len(ft.frames), ft.empty_records), dict(base, frame_type=list(ft.name), empty_records=ft.empty_records))
                continue
            for i, fr in enumerate(ft.frames):
                r = refs[i]
                rm = fm.records[fr.lr_index]
                x = fr.values[0].reshape(-1)[0]
                pos = (int(r.logical_record_position.vr_position), int(r.logical_record_position.lrsh_position))
                bad = []
                if r.frame_number != fr.number:
                    bad.append('frame number %r, recorded %d' % (r.frame_number, fr.number))
                if fr.values[0].size == 1 and not (r.x_axis == x):      # an array first channel has no single X value: not asserted
                    bad.append('X value %r, first-channel value recorded %r' % (r.x_axis, x))
                if pos != (rm.vr_position, rm.lrsh_position):
                    bad.append('position %r, written at %r' % (pos, (rm.vr_position, rm.lrsh_position)))
                if bad:
                    ok = False
                    self.violation('index_vs_model', 'entry', 'frame type %r entry %d: %s' % (ft.name[2], i, '; '.join(bad)),
                                   dict(base, frame_type=list(ft.name), entry=i, observed=[r.frame_number, float(r.x_axis), list(pos)],
                                        expected=[fr.number, float(x), [rm.vr_position, rm.lrsh_position]]))
                    break
        return ok

    # ---- one populate call
    def call(self, lf, fa, ft, S, base, history, full_store, partial_store):
        import numpy as np
        rec, rng = self.rec, self.rng
        n = len(ft.frames)
        idents = [c.ident for c in ft.channels]
        sel, sel_desc, idxs = random_selector(rng, S, n)
        chs, chs_kind = random_channels(rng, idents)
        if sel is not None and idxs is None:
            idxs = sel.indices(n)
            rec.mon('sample_definition')
            why = sample_definition_ok(idxs, sel._sample_size, n)
            if why:
                self.violation('sample_definition', 'indices', '%s on %d frames: %s: %r' % (sel_desc, n, why, idxs[:40]),
                               dict(base, selector=sel_desc, n=n, indices=idxs[:200]))
                return
        op = {'frame_type': ft.name[2].decode('ascii'), 'selector': sel_desc, 'channels': None if chs is None else sorted(chs),
              'channels_kind': chs_kind, 'frames': n}
        history.append(op)
        w = dict(base, history=list(history), call=op, indices=idxs[:100])
        chs_arg = chs
        if chs is not None and rng.random() < 0.4:
            # the caller keeps one set object and edits it between calls (as a command line tool would): same object, new content
            shared = self.__dict__.setdefault('_shared_sets', {}).setdefault(id(fa), set())
            shared.clear()
            shared.update(chs)
            chs_arg = shared
            op['channels_object'] = 'one set object edited in place between calls'
            rec.cls('channels-object:shared-and-edited')
        try:
            if sel is None and chs is None and rng.random() < 0.5:
                cnt = lf.populate_frame_array(fa)
            else:
                cnt = lf.populate_frame_array(fa, sel, chs_arg)
        except Exception as ex:  # noqa
            self.violation('populate_vs_model', 'raised', 'populate_frame_array(%s, %s, %r) raised %s: %s' % (
                op['frame_type'], sel_desc, op['channels'], type(ex).__name__, ex), w, exc=ex)
            return
        rec.mon('populate_vs_model')
        rec.add('populate_calls')
        rec.cls('selector:' + sel_desc.split('(')[0])
        rec.cls('channels:' + chs_kind)
        if cnt != len(idxs):
            self.violation('populate_vs_model', 'count', 'returned %r, %d frames selected' % (cnt, len(idxs)), dict(w, returned=cnt))
        snap = []
        for ci, (ch, mc) in enumerate(zip(fa.channels, ft.channels)):
            want = chs is None or ci == 0 or mc.ident in chs
            arr = ch.array
            if not want:
                rec.mon('unselected_empty')
                snap.append(None)
                if len(arr) != 0:
                    self.violation('unselected_empty', 'non-empty', 'unselected channel %r holds %d frames' % (mc.ident, len(arr)),
                                   dict(w, channel=mc.ident))
                continue
            exp = np.stack([ft.frames[i].values[ci] for i in idxs]) if idxs else np.empty((0,) + mc.dims, dtype=mc.dtype)
            snap.append(arr.copy())
            rec.add('elements_compared', int(exp.size))
            if arr.dtype.name != mc.dtype or tuple(arr.shape) != tuple(exp.shape):
                self.violation('populate_vs_model', 'dtype-shape', 'channel %r: dtype %s shape %r, expected %s %r' % (
                    mc.ident, arr.dtype.name, tuple(arr.shape), mc.dtype, tuple(exp.shape)), dict(w, channel=mc.ident))
                continue
            if not np.array_equal(arr, exp):
                bad = np.argwhere(arr != exp)
                row = int(bad[0][0])
                got_v, exp_v = arr[tuple(bad[0])].item(), exp[tuple(bad[0])].item()
                # where does the observed value come from?
                src = None
                for fi, fr in enumerate(ft.frames):
                    hit = np.argwhere(fr.values[ci] == arr[tuple(bad[0])])
                    if len(hit):
                        src = [fi, [int(x) for x in hit[0]]]
                        break
                self.violation('populate_vs_model', 'values',
                               'channel %r (code %d, dims %r) row %d (frame index %d) element %r: %r, recorded %r; %d of %d elements differ; observed value recorded at frame/element %r' % (
                                   mc.ident, mc.rc, mc.dims, row, idxs[row], [int(x) for x in bad[0][1:]], got_v, exp_v, len(bad), exp.size, src),
                               dict(w, channel=mc.ident, rep_code=mc.rc, dims=list(mc.dims), row=row, frame_index=idxs[row], got=got_v, expected=exp_v,
                                    differing=len(bad), source_of_observed=src, got_column=arr.reshape(len(arr), -1)[:, 0].tolist()[:60],
                                    expected_column=exp.reshape(len(exp), -1)[:, 0].tolist()[:60]))
        key = id(fa)
        if sel is None and chs is None:
            full_store[key] = snap
        else:
            partial_store.setdefault(key, []).append((op, idxs, snap))

    def compare_partial_full(self, fa, ft, base, history, full, partials):
        """M7: every sub-population equals the same rows/channels of the full population (both observed, no model involved)."""
        import numpy as np
        for op, idxs, snap in partials:
            self.rec.mon('partial_vs_full')
            for ci, arr in enumerate(snap):
                if arr is None:
                    continue
                ref = full[ci][idxs] if idxs else full[ci][:0]
                if arr.dtype != ref.dtype or arr.shape != ref.shape or not np.array_equal(arr, ref):
                    self.violation('partial_vs_full', 'differs', 'sub-population %r channel %d is not rows %r of the full population' % (
                        op, ci, idxs[:20]), dict(base, history=list(history), call=op, indices=idxs[:100], channel=ft.channels[ci].ident))
                    break


def run_file(run, max_frames):
    import numpy as np  # noqa
    from tdv.gen import dlis, logpass
    from TotalDepth.RP66V1.core import LogicalFile
    from TotalDepth.common import Slice as S
    ctx, rec, rng = run.ctx, run.rec, run.rng
    logpass.FIRST_CHANNEL_ARRAY_P = 0.08      # some unindexed frame types whose first channel is an array (also > 273 bytes)
    lrs, model = logpass.random_logpass_file(rng, max_frames=max_frames)
    data, fm = dlis.write_file_safe(rng, lrs)
    if any(fm.records[i].lr.encrypted != lrs[i].encrypted for i in range(len(lrs))):
        # the layout cannot hold an encrypted cut (the writer fell back to plain records, which random bodies are not): no encrypted records
        lrs, model = logpass.random_logpass_file(rng, max_frames=max_frames, encrypted=False)
        data, fm = dlis.write_file_safe(rng, lrs)
        rec.add('files_regenerated_without_encrypted')
    rec.add('bytes_generated', len(data))
    base = {'layout': fm.layout, 'file_bytes': len(data),
            'frame_types': [['%s: %d frames, %d empty records, channels %s' % (
                ft.name[2].decode('ascii'), len(ft.frames), ft.empty_records,
                ' '.join('%s/code%d/%s' % (c.ident, c.rc, 'x'.join(map(str, c.dims))) for c in ft.channels)) for ft in mlf.frame_types]
                for mlf in model.logical_files]}
    histories = []
    classes = set(fm.classes())
    multi_dim = any(len(c.dims) > 1 or c.dims != (1,) for mlf in model.logical_files for ft in mlf.frame_types for c in ft.channels)
    if multi_dim:
        classes.add('multi-dimensional-channel')
    if any(len(c.dims) >= 2 for mlf in model.logical_files for ft in mlf.frame_types for c in ft.channels):
        classes.add('rank>=2-channel')
    if any(len(mlf.frame_types) > 1 for mlf in model.logical_files):
        classes.add('interleaved-frame-types')
    if any(ft.empty_records for mlf in model.logical_files for ft in mlf.frame_types):
        classes.add('empty-data-records')
    if model.encrypted:
        classes.add('encrypted-records')
    if len(model.logical_files) > 1:
        classes.add('multi-logical-file')
    for mlf in model.logical_files:
        for ft in mlf.frame_types:
            for c in ft.channels:
                classes.add('code:%d' % c.rc)
    shapes_differ = False
    try:
        with LogicalFile.LogicalIndex(io.BytesIO(data)) as li:
            if len(li.logical_files) != len(model.logical_files):
                run.violation('structure_vs_model', 'logical-files', '%d logical files, %d encoded' % (len(li.logical_files), len(model.logical_files)),
                              dict(base, data=data))
            else:
                for lf, mlf in zip(li.logical_files, model.logical_files):
                    if not run.check_structure(lf, mlf, fm, base):
                        continue
                    fas = lf.log_pass.frame_arrays
                    history, full, partial = [], {}, {}
                    ncalls = rng.randrange(1, 9)
                    for _ in range(ncalls):
                        t = rng.randrange(len(fas))
                        run.call(lf, fas[t], mlf.frame_types[t], S, base, history, full, partial)
                    # M7: make sure every frame array that was sub-populated is also fully populated (at the end when not done before)
                    for t, fa in enumerate(fas):
                        if id(fa) in partial:
                            if id(fa) not in full or rng.random() < 0.3:
                                n_before = len(history)
                                cnt = lf.populate_frame_array(fa)
                                history.append({'frame_type': mlf.frame_types[t].name[2].decode('ascii'), 'selector': 'None', 'channels': None,
                                                'channels_kind': 'all', 'frames': len(mlf.frame_types[t].frames), 'closing': True})
                                full[id(fa)] = [c.array.copy() for c in fa.channels]
                                del n_before, cnt
                            run.compare_partial_full(fa, mlf.frame_types[t], base, history, full[id(fa)], partial[id(fa)])
                    histories.append(history)
                    shapes = {(h['frame_type'], h['selector'].split('(')[0], h['channels_kind']) for h in history}
                    per_type = {}
                    for s in shapes:
                        per_type.setdefault(s[0], set()).add(s[1:])
                    if any(len(v) >= 2 for v in per_type.values()):
                        shapes_differ = True
    except Exception as ex:  # noqa
        run.violation('structure_vs_model', 'index-raised', 'indexing / populating raised %s: %s' % (type(ex).__name__, ex), dict(base, data=data), exc=ex)
    ncalls = sum(len(h) for h in histories)
    rec.maxi('max_history_length', max([len(h) for h in histories] or [0]))
    rec.case([data.hex() if len(data) < 64 else __import__('hashlib').sha256(data).hexdigest(), histories], shapes_differ and multi_dim,
             classes=sorted(classes), sample={'file_bytes': len(data), 'layout': fm.layout, 'frame_types': base['frame_types'], 'histories': histories})
    rec.add('histories', len(histories))
    rec.add('history_ops', ncalls)


def run_shard(ctx, p):
    import logging
    logging.disable(logging.CRITICAL)
    from tdv.mon import contracts
    contracts.install_slice_contracts()
    contracts.install_rp66v1_framearray_contracts()
    inst = getattr(contracts, 'install_rp66v1_file_contracts', None)      # the contracts of C01 (physical layer), when present
    if inst:
        inst()
    run = Run(ctx)
    for _ in range(p['files']):
        run_file(run, p['max_frames'])
        if run.nviol > 3 * CAP:
            break
    for name, cnt in contracts.COUNTS.items():
        ctx.rec.mon('contract:' + name, cnt)
    for name, msg in contracts.drain():
        ctx.rec.violation('contract:' + name, 'breach', msg, {'contract': name, 'message': msg})


LEVEL_TEXT = ('Random log passes from an independent encoder (model matrix = oracle) indexed and populated by the real code under random '
              'call histories; every selected element, dtype, shape, count, X value, frame number and record position compared with the model; '
              'sub-populations compared with the full population of the same index; icontract contracts on Slice/Sample and the frame array '
              'classes.  Exploration: sampled, not complete.')
LEVEL_NOTE = ('Trusted: the harness encoders (RP66V1 section 3, 5.5-5.7, Appendix B), tdv.gen.dlis, numpy array comparison. '
              'Element order of multi-dimensional channels is asserted against the documented meaning of FrameChannel.dimensions only.')
TECHNIQUE = ('runtime monitoring: model-based differential on the live index, operation histories, metamorphic full-vs-partial comparison, '
             'icontract postconditions, sys.monitoring mechanism counters')
