"""C04 DLIS frame arrays hold exactly the recorded values; sub-selection commutes."""
import io

ID = 'C04'
TITLE = 'DLIS frame arrays hold exactly the recorded values; sub-selection commutes'
NATIVE = None
NEEDS = ('icontract',)
RULE = ('Random RP66V1 log passes from an independent encoder (tdv.gen.logpass over tdv.gen.eflr and tdv.gen.dlis): 1..2 logical files, each '
        'with 1..3 frame types of 1..6 channels in the fixed-length numeric codes FSINGL, ISINGL, VSINGL (zero fraction), FDOUBL, SSHORT..ULONG, '
        'dimensions [1], [k], [j,k] (rarely [i,j,k]; first channel scalar), 1..60 frames per type, data records of the types interleaved, '
        'empty data records, encrypted records and further sets in between, frame numbers with offsets and gaps, random physical layout; '
        'every recorded element derives from a file-wide counter (unique in the wide codes), 2% of the IEEE / integer elements hold an extreme '
        'value instead (denormal, largest finite, infinities, most negative integer ...).  Rarer shapes: channels of 300 / 1024 / 4x128 elements, rank 4, '
        'dimension lists [3,1] [1,1] [1,7,1]; a frame type of 100..140 channels; one of 300..600 frames; frame numbers running over 127/128 and '
        '16383/16384; the same channel identifier in two frame types (different channel objects); in a third of the files the object names '
        'usual in practice (60B, 10B, DEPT, GR ...; same origin and copy number) so that logical files and files share whole object names.  '
        'On each indexed file one history of populate_frame_array calls (1..8 per logical file) spread at random over all its logical '
        'files and, for 15% of the files, over the logical files of a second index kept open on the previous file: frame array x selector '
        '{None, Slice(start,stop,step) with negative/None parts, steps >= the frame count and magnitudes up to 10**20, Sample(n) up to 2**63; '
        '30% of the calls reuse a selector object used earlier in the history, also on a frame type of another length} '
        '(>= 1 frame selected) x channels {None, random subset, subset without the first channel, names not present, empty set, frozenset; '
        '40% through one set object edited in place}.  '
        'A case is one file with its history (distinct by bytes + history); non-trivial = >= 2 calls of different shape on one '
        'index and a multi-dimensional channel.')
ASSUMPTIONS = [
    'elements of a multi-dimensional channel are compared in the order of recording against C order of the DIMENSION list, the documented '
    'meaning of FrameChannel.dimensions ([4, 1024] = 4 waveforms of 1024 samples); the RP66V1 5.5.1 element ordering rule is not asserted',
    'expected numpy types per representation code are a table in the harness (float32 for FSINGL/ISINGL/VSINGL, float64 for FDOUBL, '
    '(u)int8/16/32 for the integer codes); ISINGL/VSINGL values are generated inside the exactly representable float32 range',
    'VSINGL words have a zero fraction (non-zero fractions belong to C07, finding F4)',
    'selections of zero frames are outside the quantifier and not generated; frame types always have >= 1 non-empty data record',
    'for Sample(n) the selected rows are Sample.indices(len) (checked here against the sample definition of C15: min(n,len) indices from 0, '
    'strictly increasing, gaps differing by at most one) and every row must equal the model frame at that index',
    'CHANNEL/FRAME sets avoid the F3 mechanisms of C03 (no invariant attributes, no component-less objects, ABSATR only where the template has no default)',
    'the X value is compared when the first channel is scalar (8% of the frame types have an array first channel: values only); frame numbers are compared with the recorded numbers, which need not be 1..n',
]
_LF = 'TotalDepth.RP66V1.core.LogicalFile'
_LP = 'TotalDepth.RP66V1.core.LogPass'
MECHANISMS = [
    (_LF, 'LogicalFile.populate_frame_array'), (_LF, 'LogicalFile.add_iflr'), (_LF, 'LogicalFile.num_frames'),
    (_LP, 'RP66V1FrameArray.read_partial'), (_LP, 'RP66V1FrameArray.read'), (_LP, 'RP66V1FrameChannel.seek'), (_LP, 'RP66V1FrameChannel.read'),
    (_LP, 'RP66V1FrameArray.read_x_axis'),
    ('TotalDepth.common.LogPass', 'FrameChannel.init_array'), ('TotalDepth.common.LogPass', 'FrameArray.init_arrays_partial'),
    ('TotalDepth.common.Slice', 'Slice.gen_indices'), ('TotalDepth.common.Slice', 'Sample.gen_indices'),
    ('TotalDepth.RP66V1.core.LogicalRecord.IFLR', 'IndirectlyFormattedLogicalRecord.__init__'),
]
REQUIRED_MONITORS = ['populate_vs_model', 'partial_vs_full', 'index_vs_model', 'structure_vs_model', 'unselected_empty', 'sample_definition',
                     'contract:Slice.indices', 'contract:Slice.count', 'contract:FrameArray.init_arrays_partial',
                     'contract:RP66V1FrameChannel.seek', 'contract:RP66V1FrameChannel.read']
MIN_NONTRIVIAL = {'quick': 1200, 'thorough': 18000}
TIMEOUT_S = {'quick': 300, 'thorough': 3000}
NSHARDS = 16
FILES = {'quick': 200, 'thorough': 3000}
MAX_FRAMES = {'quick': 40, 'thorough': 60}
CAP = 25


def plan(tier, seed):
    return [{'files': FILES[tier], 'max_frames': MAX_FRAMES[tier]} for _ in range(NSHARDS)]


def sample_definition_ok(idxs, k, n):
    m = min(k, n)
    if len(idxs) != m:
        return 'selects %d indices, expected min(%d,%d)' % (len(idxs), k, n)
    if idxs and idxs[0] != 0:
        return 'does not begin with 0'
    if any(b <= a for a, b in zip(idxs, idxs[1:])):
        return 'not strictly increasing'
    if idxs and idxs[-1] >= n:
        return 'index outside the frames'
    gaps = [b - a for a, b in zip(idxs, idxs[1:])]
    if gaps and max(gaps) - min(gaps) > 1:
        return 'gaps differ by more than one'
    return None


HUGE = (10 ** 9, 2 ** 31, 2 ** 63, 10 ** 20)


def random_selector(rng, S, n):
    """-> (selector or None, description, expected indices, slice parameters or None)"""
    k = rng.random()
    if k < 0.2:
        return None, 'None', list(range(n)), None
    if k < 0.7:
        for _ in range(12):
            lim = n + 2
            a = rng.choice([None, rng.randrange(-lim, lim + 1), rng.randrange(-lim, lim + 1)])
            b = rng.choice([None, rng.randrange(-lim, lim + 1), rng.randrange(-lim, lim + 1)])
            c = rng.choice([None, 1, 2, 3, rng.randrange(1, max(2, n)), rng.randrange(1, max(2, n // 2 + 1)), -1, -2, -rng.randrange(1, max(2, n))])
            if rng.random() < 0.08:
                # magnitudes far beyond the frame count (a slice means what Python's slice means for any integers), steps >= the count
                h = rng.choice(HUGE)
                a = rng.choice([a, h, -h, None])
                b = rng.choice([b, h, -h, None])
                c = rng.choice([c, n, n + 1, -n, -(n + 1), h, -h])
            idxs = list(range(n))[a:b:c]
            if idxs:
                return S.Slice(a, b, c), 'Slice(%r,%r,%r)' % (a, b, c), idxs, (a, b, c)
        return S.Slice(None, None, None), 'Slice(None,None,None)', list(range(n)), (None, None, None)
    kk = rng.choice([1, 2, n, n + 1, rng.randrange(1, n + 4), rng.randrange(1, n + 4)])
    if rng.random() < 0.05:
        kk = rng.choice(HUGE[:3])
    return S.Sample(kk), 'Sample(%d)' % kk, None, None


def reuse_selector(rng, S, pool, n):
    """One of the selector objects used earlier on this index (possibly on a frame type of another length) -> as random_selector, or None."""
    sel, desc, params = rng.choice(pool)
    if params is None:
        return sel, desc, None
    idxs = list(range(n))[params[0]:params[1]:params[2]]
    if not idxs:
        return None
    return sel, desc, idxs


def random_channels(rng, idents):
    """-> (set or None, kind)"""
    k = rng.random()
    if k < 0.25:
        return None, 'all'
    if k < 0.5:
        return set(rng.sample(idents, rng.randrange(0, len(idents) + 1))), 'subset'
    if k < 0.7:
        rest = idents[1:]
        return set(rng.sample(rest, rng.randrange(0, len(rest) + 1))), 'subset-without-first'
    if k < 0.9:
        s = set(rng.sample(idents, rng.randrange(0, len(idents) + 1)))
        s |= {rng.choice(['NOPE', '', 'X' * 9, idents[0].lower() + '?', 'DEPT '])}
        return s, 'subset+unknown-names'
    if k < 0.95:
        return frozenset(rng.sample(idents, rng.randrange(0, len(idents) + 1))), 'frozenset'
    return set(), 'empty-set'


class Run:
    def __init__(self, ctx):
        self.ctx, self.rec, self.rng = ctx, ctx.rec, ctx.rng
        self.nviol = 0
        self.sel_pool = []          # selector objects used on the open index (indexes) so far

    def violation(self, monitor, kind, msg, witness, exc=None):
        self.nviol += 1
        if self.nviol <= 3 * CAP:
            self.rec.violation(monitor, kind, msg, witness, exc=exc)

    # ---- structure and index
    def check_structure(self, lf, mlf, fm, base):
        import numpy as np
        rec = self.rec
        rec.mon('structure_vs_model')
        if not lf.has_log_pass or lf.log_pass is None:
            self.violation('structure_vs_model', 'no-log-pass', 'logical file with CHANNEL, FRAME and frame data has no log pass', base)
            return False
        fas = lf.log_pass.frame_arrays
        if len(fas) != len(mlf.frame_types):
            self.violation('structure_vs_model', 'frame-arrays', '%d frame arrays, %d frame types encoded' % (len(fas), len(mlf.frame_types)), base)
            return False
        ok = True
        for fa, ft in zip(fas, mlf.frame_types):
            got_name = (int(fa.ident.O), int(fa.ident.C), bytes(fa.ident.I))
            desc = [(c.ident, tuple(c.dimensions), np.dtype(c.np_dtype).name, c.rep_code) for c in fa.channels]
            want = [(c.ident, c.dims, c.dtype, c.rc) for c in ft.channels]
            if got_name != ft.name or desc != want:
                ok = False
                self.violation('structure_vs_model', 'frame-array', 'frame array %r channels %r, encoded %r %r' % (got_name, desc, ft.name, want),
                               dict(base, observed=[list(got_name), desc], expected=[list(ft.name), want]))
                continue
            # ---- the index: one entry per non-empty data record, with its position, recorded frame number and X value
            rec.mon('index_vs_model')
            n = lf.num_frames(fa)
            refs = lf.iflr_position_map[fa.ident]
            if n != len(ft.frames) or len(refs) != len(ft.frames):
                ok = False
                self.violation('index_vs_model', 'num_frames', 'num_frames %d, index entries %d, non-empty data records encoded %d (plus %d empty)' % (
                    n, len(refs), len(ft.frames), ft.empty_records), dict(base, frame_type=list(ft.name), empty_records=ft.empty_records))
                continue
            for i, fr in enumerate(ft.frames):
                r = refs[i]
                rm = fm.records[fr.lr_index]
                x = fr.values[0].reshape(-1)[0]
                pos = (int(r.logical_record_position.vr_position), int(r.logical_record_position.lrsh_position))
                bad = []
                if r.frame_number != fr.number:
                    bad.append('frame number %r, recorded %d' % (r.frame_number, fr.number))
                if fr.values[0].size == 1 and not (r.x_axis == x):      # an array first channel has no single X value: not asserted
                    bad.append('X value %r, first-channel value recorded %r' % (r.x_axis, x))
                if pos != (rm.vr_position, rm.lrsh_position):
                    bad.append('position %r, written at %r' % (pos, (rm.vr_position, rm.lrsh_position)))
                if bad:
                    ok = False
                    self.violation('index_vs_model', 'entry', 'frame type %r entry %d: %s' % (ft.name[2], i, '; '.join(bad)),
                                   dict(base, frame_type=list(ft.name), entry=i, observed=[r.frame_number, float(r.x_axis), list(pos)],
                                        expected=[fr.number, float(x), [rm.vr_position, rm.lrsh_position]]))
                    break
        return ok

    # ---- one populate call
    def call(self, lf, fa, ft, S, base, history, full_store, partial_store):
        import numpy as np
        rec, rng = self.rec, self.rng
        n = len(ft.frames)
        idents = [c.ident for c in ft.channels]
        got = reuse_selector(rng, S, self.sel_pool, n) if (self.sel_pool and rng.random() < 0.3) else None
        if got is not None:
            sel, sel_desc, idxs = got
            rec.cls('selector-object:used-before-on-this-index')
        else:
            sel, sel_desc, idxs, params = random_selector(rng, S, n)
            if sel is not None:
                self.sel_pool.append((sel, sel_desc, params))
                if len(self.sel_pool) > 6:
                    del self.sel_pool[0]
        chs, chs_kind = random_channels(rng, idents)
        if sel is not None and idxs is None:
            idxs = sel.indices(n)
            rec.mon('sample_definition')
            why = sample_definition_ok(idxs, sel._sample_size, n)
            if why:
                self.violation('sample_definition', 'indices', '%s on %d frames: %s: %r' % (sel_desc, n, why, idxs[:40]),
                               dict(base, selector=sel_desc, n=n, indices=idxs[:200]))
                return
        op = {'frame_type': ft.name[2].decode('ascii'), 'selector': sel_desc, 'channels': None if chs is None else sorted(chs),
              'channels_kind': chs_kind, 'frames': n}
        history.append(op)
        w = dict(base, history=list(history), call=op, indices=idxs[:100])
        chs_arg = chs
        if chs is not None and not isinstance(chs, frozenset) and rng.random() < 0.4:
            # the caller keeps one set object and edits it between calls (as a command line tool would): same object, new content
            shared = self.__dict__.setdefault('_shared_sets', {}).setdefault(id(fa), set())
            shared.clear()
            shared.update(chs)
            chs_arg = shared
            op['channels_object'] = 'one set object edited in place between calls'
            rec.cls('channels-object:shared-and-edited')
        try:
            if sel is None and chs is None and rng.random() < 0.5:
                cnt = lf.populate_frame_array(fa)
            else:
                cnt = lf.populate_frame_array(fa, sel, chs_arg)
        except Exception as ex:  # noqa
            self.violation('populate_vs_model', 'raised', 'populate_frame_array(%s, %s, %r) raised %s: %s' % (
                op['frame_type'], sel_desc, op['channels'], type(ex).__name__, ex), w, exc=ex)
            return
        rec.mon('populate_vs_model')
        rec.add('populate_calls')
        rec.cls('selector:' + sel_desc.split('(')[0])
        rec.cls('channels:' + chs_kind)
        if cnt != len(idxs):
            self.violation('populate_vs_model', 'count', 'returned %r, %d frames selected' % (cnt, len(idxs)), dict(w, returned=cnt))
        snap = []
        for ci, (ch, mc) in enumerate(zip(fa.channels, ft.channels)):
            want = chs is None or ci == 0 or mc.ident in chs
            arr = ch.array
            if not want:
                rec.mon('unselected_empty')
                snap.append(None)
                if len(arr) != 0:
                    self.violation('unselected_empty', 'non-empty', 'unselected channel %r holds %d frames' % (mc.ident, len(arr)),
                                   dict(w, channel=mc.ident))
                continue
            exp = np.stack([ft.frames[i].values[ci] for i in idxs]) if idxs else np.empty((0,) + mc.dims, dtype=mc.dtype)
            snap.append(arr.copy())
            rec.add('elements_compared', int(exp.size))
            if arr.dtype.name != mc.dtype or tuple(arr.shape) != tuple(exp.shape):
                self.violation('populate_vs_model', 'dtype-shape', 'channel %r: dtype %s shape %r, expected %s %r' % (
                    mc.ident, arr.dtype.name, tuple(arr.shape), mc.dtype, tuple(exp.shape)), dict(w, channel=mc.ident))
                continue
            if not np.array_equal(arr, exp):
                bad = np.argwhere(arr != exp)
                row = int(bad[0][0])
                got_v, exp_v = arr[tuple(bad[0])].item(), exp[tuple(bad[0])].item()
                # where does the observed value come from?
                src = None
                for fi, fr in enumerate(ft.frames):
                    hit = np.argwhere(fr.values[ci] == arr[tuple(bad[0])])
                    if len(hit):
                        src = [fi, [int(x) for x in hit[0]]]
                        break
                self.violation('populate_vs_model', 'values',
                               'channel %r (code %d, dims %r) row %d (frame index %d) element %r: %r, recorded %r; %d of %d elements differ; observed value recorded at frame/element %r' % (
                                   mc.ident, mc.rc, mc.dims, row, idxs[row], [int(x) for x in bad[0][1:]], got_v, exp_v, len(bad), exp.size, src),
                               dict(w, channel=mc.ident, rep_code=mc.rc, dims=list(mc.dims), row=row, frame_index=idxs[row], got=got_v, expected=exp_v,
                                    differing=len(bad), source_of_observed=src, got_column=arr.reshape(len(arr), -1)[:, 0].tolist()[:60],
                                    expected_column=exp.reshape(len(exp), -1)[:, 0].tolist()[:60]))
        key = id(fa)
        if sel is None and chs is None:
            full_store[key] = snap
        else:
            partial_store.setdefault(key, []).append((op, idxs, snap))

    def compare_partial_full(self, fa, ft, base, history, full, partials):
        """M7: every sub-population equals the same rows/channels of the full population (both observed, no model involved)."""
        import numpy as np
        for op, idxs, snap in partials:
            self.rec.mon('partial_vs_full')
            for ci, arr in enumerate(snap):
                if arr is None:
                    continue
                ref = full[ci][idxs] if idxs else full[ci][:0]
                if arr.dtype != ref.dtype or arr.shape != ref.shape or not np.array_equal(arr, ref):
                    self.violation('partial_vs_full', 'differs', 'sub-population %r channel %d is not rows %r of the full population' % (
                        op, ci, idxs[:20]), dict(base, history=list(history), call=op, indices=idxs[:100], channel=ft.channels[ci].ident))
                    break


KNOBS = {'FIRST_CHANNEL_ARRAY_P': 0.08,     # some unindexed frame types whose first channel is an array (also > 273 bytes)
         'BIG_DIMS_P': 0.04,                # waveform-sized, rank 4 and degenerate ([3,1], [1,1]) dimension lists
         'SPECIAL_VALUES_P': 0.02,          # extreme IEEE / integer values among the counter pattern
         'SHARE_IDENT_P': 0.15,             # the same channel identifier text in two frame types (different channel objects)
         'WIDE_TYPE_P': 0.01, 'LONG_TYPE_P': 0.01,
         'FRAME_SHARE_IDENT_P': 0.3,        # two frame types of one identifier (copy number / origin differ), their records interleaved
         'OTHER_IFLR_P': 0.03,              # records that are not frame data among the frames: unformatted data, end of data, private types
         'NUMBERING_STARTS': (1, 1, 1, 1, 100, 127, 16000, 16370)}     # 16370: the frame number grows from a 2 to a 4 byte UVARI


COMMON_NAMES = [b'DEPT', b'TIME', b'TDEP', b'GR', b'CALI', b'RHOB', b'NPHI', b'SP', b'ILD', b'DT', b'TENS', b'ETIM', b'WF1', b'WF2']
COMMON_FRAME_NAMES = [b'60B', b'10B', b'1B', b'2000T']


def make_file(run, max_frames):
    """One generated file -> dict(data, fm, model, base, classes, multi_dim)."""
    from tdv.gen import dlis, logpass
    rec, rng = run.rec, run.rng
    knobs = dict(KNOBS)
    common = rng.random() < 0.35
    if common:
        # frame types and channels named as in practice: the same object names (origin, copy, identifier) in every logical file and
        # in many files (which the populate calls then address side by side)
        knobs.update(NAME_POOL=list(COMMON_NAMES), FRAME_NAME_POOL=list(COMMON_FRAME_NAMES), NAME_POOL_OC=(rng.choice([0, 1, 1]), 0))
    saved = {k: getattr(logpass, k) for k in knobs}
    for k, v in knobs.items():
        setattr(logpass, k, v)
    try:
        lrs, model = logpass.random_logpass_file(rng, max_frames=max_frames, max_logical_files=3 if common else 2)
        data, fm = dlis.write_file_safe(rng, lrs)
        if any(fm.records[i].lr.encrypted != lrs[i].encrypted for i in range(len(lrs))):
            # the layout cannot hold an encrypted cut (the writer fell back to plain records, which random bodies are not): no encrypted records
            lrs, model = logpass.random_logpass_file(rng, max_frames=max_frames, encrypted=False)
            data, fm = dlis.write_file_safe(rng, lrs)
            rec.add('files_regenerated_without_encrypted')
    finally:
        for k, v in saved.items():
            setattr(logpass, k, v)
    rec.add('bytes_generated', len(data))
    base = {'layout': fm.layout, 'file_bytes': len(data),
            'frame_types': [['%s: %d frames, %d empty records, channels %s' % (
                ft.name[2].decode('ascii'), len(ft.frames), ft.empty_records,
                ' '.join('%s/code%d/%s' % (c.ident, c.rc, 'x'.join(map(str, c.dims))) for c in ft.channels[:12])) for ft in mlf.frame_types]
                for mlf in model.logical_files]}
    classes = set(fm.classes())
    ftnames = [ft.name for mlf in model.logical_files for ft in mlf.frame_types]
    if len(set(ftnames)) < len(ftnames):
        classes.add('same-frame-type-name-in-two-logical-files')
    chans = [(ft, c) for mlf in model.logical_files for ft in mlf.frame_types for c in ft.channels]
    if len(model.logical_files) > 1 and len({c.name for _, c in chans}) < len(chans):
        classes.add('same-channel-name-in-two-logical-files')
    multi_dim = any(c.dims != (1,) for _, c in chans)
    if multi_dim:
        classes.add('multi-dimensional-channel')
    if any(len(c.dims) >= 2 for _, c in chans):
        classes.add('rank>=2-channel')
    if any(len(c.dims) >= 4 for _, c in chans):
        classes.add('rank>=4-channel')
    if any(c.count >= 256 for _, c in chans):
        classes.add('channel>=256-elements')
    if any(len(c.dims) >= 2 and c.dims[-1] == 1 for _, c in chans):
        classes.add('dimension-list-ending-in-1')
    if any(len(mlf.frame_types) > 1 for mlf in model.logical_files):
        classes.add('interleaved-frame-types')
    if any(ft.empty_records for mlf in model.logical_files for ft in mlf.frame_types):
        classes.add('empty-data-records')
    if model.encrypted:
        classes.add('encrypted-records')
    if len(model.logical_files) > 1:
        classes.add('multi-logical-file')
    for mlf in model.logical_files:
        seen = {}
        for ft in mlf.frame_types:
            if len(ft.channels) >= 100:
                classes.add('frame-type>=100-channels')
            if len(ft.frames) >= 300:
                classes.add('frame-type>=300-frames')
            if ft.frames and ft.frames[0].number <= 16383 < ft.frames[-1].number:
                classes.add('frame-numbers-cross-16383/16384')
            if ft.frames and ft.frames[0].number <= 127 < ft.frames[-1].number:
                classes.add('frame-numbers-cross-127/128')
            for c in ft.channels:
                classes.add('code:%d' % c.rc)
                if seen.setdefault(c.ident, ft) is not ft:
                    classes.add('channel-identifier-in-two-frame-types')
    return {'data': data, 'fm': fm, 'model': model, 'base': base, 'classes': classes, 'multi_dim': multi_dim}


def run_file(run, cur, other=None):
    """Index the file, then one history of populate calls spread at random over all its logical files (they share one reader and
    one file cursor) - and, when `other` is given, over the logical files of a second index kept open on that file at the same time."""
    import numpy as np  # noqa
    from TotalDepth.RP66V1.core import LogicalFile
    from TotalDepth.common import Slice as S
    ctx, rec, rng = run.ctx, run.rec, run.rng
    data, fm, model, base = cur['data'], cur['fm'], cur['model'], cur['base']
    classes = set(cur['classes'])
    history = []
    units = []
    run.sel_pool = []
    run.__dict__.pop('_shared_sets', None)
    shapes_differ = False
    try:
        import contextlib
        with contextlib.ExitStack() as stack:
            opened = [(cur, stack.enter_context(LogicalFile.LogicalIndex(io.BytesIO(data))), 'this')]
            if other is not None:
                opened.append((other, stack.enter_context(LogicalFile.LogicalIndex(io.BytesIO(other['data']))), 'second-index'))
                classes.add('second-index-open')
            for f, li, tag in opened:
                b = dict(f['base'], index=tag)
                if len(li.logical_files) != len(f['model'].logical_files):
                    run.violation('structure_vs_model', 'logical-files', '%d logical files, %d encoded' % (
                        len(li.logical_files), len(f['model'].logical_files)), dict(b, data=f['data']))
                    continue
                for k, (lf, mlf) in enumerate(zip(li.logical_files, f['model'].logical_files)):
                    if not run.check_structure(lf, mlf, f['fm'], b):
                        continue
                    units.append({'lf': lf, 'mlf': mlf, 'fas': lf.log_pass.frame_arrays, 'base': dict(b, logical_file=k), 'full': {}, 'partial': {},
                                  'tag': '%s/lf%d' % (tag, k)})
            if len(units) >= 2:
                classes.add('calls-interleaved-over-logical-files')
            ncalls = sum(rng.randrange(1, 9) for _ in units)
            for _ in range(ncalls):
                u = rng.choice(units)
                t = rng.randrange(len(u['fas']))
                n0 = len(history)
                run.call(u['lf'], u['fas'][t], u['mlf'].frame_types[t], S, u['base'], history, u['full'], u['partial'])
                for h in history[n0:]:
                    h['on'] = u['tag']
            # M7: make sure every frame array that was sub-populated is also fully populated (at the end when not done before)
            for u in units:
                for t, fa in enumerate(u['fas']):
                    if id(fa) in u['partial']:
                        if id(fa) not in u['full'] or rng.random() < 0.3:
                            u['lf'].populate_frame_array(fa)
                            history.append({'frame_type': u['mlf'].frame_types[t].name[2].decode('ascii'), 'selector': 'None', 'channels': None,
                                            'channels_kind': 'all', 'frames': len(u['mlf'].frame_types[t].frames), 'closing': True, 'on': u['tag']})
                            u['full'][id(fa)] = [c.array.copy() for c in fa.channels]
                        run.compare_partial_full(fa, u['mlf'].frame_types[t], u['base'], history, u['full'][id(fa)], u['partial'][id(fa)])
            per_type = {}
            for h in history:
                per_type.setdefault((h.get('on'), h['frame_type']), set()).add((h['selector'].split('(')[0], h['channels_kind']))
            shapes_differ = any(len(v) >= 2 for v in per_type.values())
    except Exception as ex:  # noqa
        run.violation('structure_vs_model', 'index-raised', 'indexing / populating raised %s: %s' % (type(ex).__name__, ex), dict(base, data=data), exc=ex)
    rec.maxi('max_history_length', len(history))
    rec.case([data.hex() if len(data) < 64 else __import__('hashlib').sha256(data).hexdigest(), history], shapes_differ and cur['multi_dim'],
             classes=sorted(classes), sample={'file_bytes': len(data), 'layout': fm.layout, 'frame_types': base['frame_types'], 'history': history[:12]})
    rec.add('histories', 1)
    rec.add('history_ops', len(history))


def run_shard(ctx, p):
    import logging
    logging.disable(logging.CRITICAL)
    from tdv.mon import contracts
    contracts.install_slice_contracts()
    contracts.install_rp66v1_framearray_contracts()
    inst = getattr(contracts, 'install_rp66v1_file_contracts', None)      # the contracts of C01 (physical layer), when present
    if inst:
        inst()
    run = Run(ctx)
    prev = None
    for _ in range(p['files']):
        cur = make_file(run, p['max_frames'])
        run_file(run, cur, other=prev if (prev is not None and ctx.rng.random() < 0.15 and len(prev['data']) < 60000) else None)
        prev = cur
        if run.nviol > 3 * CAP:
            break
    for name, cnt in contracts.COUNTS.items():
        ctx.rec.mon('contract:' + name, cnt)
    for name, msg in contracts.drain():
        ctx.rec.violation('contract:' + name, 'breach', msg, {'contract': name, 'message': msg})


LEVEL_TEXT = ('Random log passes from an independent encoder (model matrix = oracle) indexed and populated by the real code under random '
              'call histories; every selected element, dtype, shape, count, X value, frame number and record position compared with the model; '
              'sub-populations compared with the full population of the same index; icontract contracts on Slice/Sample and the frame array '
              'classes.  Exploration: sampled, not complete.')
LEVEL_NOTE = ('Trusted: the harness encoders (RP66V1 section 3, 5.5-5.7, Appendix B), tdv.gen.dlis, numpy array comparison. '
              'Element order of multi-dimensional channels is asserted against the documented meaning of FrameChannel.dimensions only.')
TECHNIQUE = ('runtime monitoring: model-based differential on the live index, operation histories, metamorphic full-vs-partial comparison, '
             'icontract postconditions, sys.monitoring mechanism counters')
